"""A very small evaluator for pure helper functions whose input space is finite up to a bound
(equality patterns, words over a three-letter alphabet).  It interprets the statement forms such
helpers use; anything else raises Unhandled, which the calling rule reports as `unresolved`.
It never imports or runs repository code: it walks the function's syntax tree."""

from __future__ import annotations

import ast

from .index import call_name, norm, params_of


class Unhandled(Exception):
    pass


class _Ret(Exception):
    def __init__(self, v):
        self.v = v


class _Break(Exception):
    pass


class _Continue(Exception):
    pass


def evaluate(fn, args: dict, attrs: dict | None = None, max_steps=50000):
    """evaluate fn's body with parameters bound from `args` (by name) and `self.<x>` read from attrs.
    Returns the returned value, or ('raises', ExcName) if evaluation hits a Python-level error."""
    env = dict(args)
    attrs = attrs or {}
    steps = [0]

    def ev(e):
        steps[0] += 1
        if steps[0] > max_steps:
            raise Unhandled("step limit")
        if isinstance(e, ast.Constant):
            return e.value
        if isinstance(e, ast.Name):
            if e.id in env:
                return env[e.id]
            if e.id in ("int", "float", "None", "True", "False"):
                return e.id
            raise Unhandled(f"name {e.id}")
        if isinstance(e, ast.Attribute) and isinstance(e.value, ast.Name) and e.value.id == "self":
            if e.attr in attrs:
                return attrs[e.attr]
            raise Unhandled(f"attribute self.{e.attr}")
        if isinstance(e, ast.List):
            return [ev(x) for x in e.elts]
        if isinstance(e, ast.Tuple):
            return tuple(ev(x) for x in e.elts)
        if isinstance(e, ast.Dict) and not e.keys:
            return {}
        if isinstance(e, ast.Subscript):
            base = ev(e.value)
            if isinstance(e.slice, ast.Slice):
                lo = ev(e.slice.lower) if e.slice.lower is not None else None
                hi = ev(e.slice.upper) if e.slice.upper is not None else None
                st = ev(e.slice.step) if e.slice.step is not None else None
                return base[lo:hi:st]
            return base[ev(e.slice)]
        if isinstance(e, ast.BinOp) and isinstance(e.op, (ast.Add, ast.Sub, ast.Mult)):
            a, b = ev(e.left), ev(e.right)
            return a + b if isinstance(e.op, ast.Add) else a - b if isinstance(e.op, ast.Sub) else a * b
        if isinstance(e, ast.Compare):
            left = ev(e.left)
            for op, c in zip(e.ops, e.comparators):
                right = ev(c)
                if isinstance(op, ast.In):
                    r = left in right
                elif isinstance(op, ast.NotIn):
                    r = left not in right
                elif isinstance(op, ast.Eq):
                    r = left == right
                elif isinstance(op, ast.NotEq):
                    r = left != right
                elif isinstance(op, ast.Is):
                    r = left is right
                elif isinstance(op, ast.IsNot):
                    r = left is not right
                elif isinstance(op, ast.Lt):
                    r = left < right
                elif isinstance(op, ast.LtE):
                    r = left <= right
                elif isinstance(op, ast.Gt):
                    r = left > right
                elif isinstance(op, ast.GtE):
                    r = left >= right
                else:
                    raise Unhandled(norm(e))
                if not r:
                    return False
                left = right
            return True
        if isinstance(e, ast.UnaryOp) and isinstance(e.op, ast.Not):
            return not ev(e.operand)
        if isinstance(e, ast.UnaryOp) and isinstance(e.op, ast.USub):
            return -ev(e.operand)
        if isinstance(e, ast.BoolOp):
            r = None
            for x in e.values:
                r = ev(x)
                if (isinstance(e.op, ast.And) and not r) or (isinstance(e.op, ast.Or) and r):
                    break
            return r
        if isinstance(e, ast.IfExp):
            return ev(e.body) if ev(e.test) else ev(e.orelse)
        if isinstance(e, (ast.ListComp, ast.GeneratorExp)) and len(e.generators) == 1 and not e.generators[0].is_async:
            g = e.generators[0]
            out = []
            saved = dict(env)
            for item in list(ev(g.iter)):
                bind(g.target, item)
                if all(ev(c) for c in g.ifs):
                    out.append(ev(e.elt))
            env.clear()
            env.update(saved)
            return out
        if isinstance(e, ast.Call):
            cn = call_name(e) or ""
            if cn in ("len", "sum", "any", "all", "max", "min", "sorted", "abs") and len(e.args) == 1 and not e.keywords:
                return {"len": len, "sum": sum, "any": any, "all": all, "max": max, "min": min, "sorted": sorted, "abs": abs}[cn](ev(e.args[0]))
            if cn.split(".")[-1] == "zeros" and e.args:
                shp = ev(e.args[0])
                n = shp[0] if isinstance(shp, (list, tuple)) else shp
                return [0] * n
            if cn in ("list", "dict", "set", "tuple") and not e.args:
                return {"list": list, "dict": dict, "set": set, "tuple": tuple}[cn]()
            if cn in ("list", "tuple", "set") and len(e.args) == 1:
                return {"list": list, "tuple": tuple, "set": set}[cn](ev(e.args[0]))
            if cn == "enumerate" and len(e.args) == 1:
                return list(enumerate(ev(e.args[0])))
            if cn == "zip":
                return list(zip(*[ev(a) for a in e.args]))
            if cn == "range" and 1 <= len(e.args) <= 3:
                return list(range(*[ev(a) for a in e.args]))
            if isinstance(e.func, ast.Attribute):
                m = e.func.attr
                if m == "get" and 1 <= len(e.args) <= 2:
                    return ev(e.func.value).get(ev(e.args[0]), ev(e.args[1]) if len(e.args) == 2 else None)
                if m == "setdefault" and len(e.args) == 2:
                    return ev(e.func.value).setdefault(ev(e.args[0]), ev(e.args[1]))
                if m in ("index", "count") and len(e.args) == 1:
                    return getattr(ev(e.func.value), m)(ev(e.args[0]))
                if m == "append" and len(e.args) == 1:
                    return ev(e.func.value).append(ev(e.args[0]))
                if m == "add" and len(e.args) == 1:
                    return ev(e.func.value).add(ev(e.args[0]))
            raise Unhandled(f"call {norm(e)[:50]}")
        raise Unhandled(f"expression {norm(e)[:50]}")

    def bind(t, v):
        if isinstance(t, ast.Name):
            env[t.id] = v
        elif isinstance(t, (ast.Tuple, ast.List)):
            v = list(v)
            if len(v) != len(t.elts):
                raise Unhandled("unpack")
            for a, b in zip(t.elts, v):
                bind(a, b)
        elif isinstance(t, ast.Subscript):
            ev(t.value)[ev(t.slice)] = v
        else:
            raise Unhandled(f"target {norm(t)}")

    def run(stmts):
        for st in stmts:
            if isinstance(st, ast.Expr) and isinstance(st.value, ast.Constant):
                continue
            if isinstance(st, ast.Pass):
                continue
            if isinstance(st, ast.Assign):
                v = ev(st.value)
                for t in st.targets:
                    bind(t, v)
            elif isinstance(st, ast.AugAssign) and isinstance(st.op, (ast.Add, ast.Sub)):
                cur = ev(st.target)
                d = ev(st.value)
                bind(st.target, cur + d if isinstance(st.op, ast.Add) else cur - d)
            elif isinstance(st, ast.If):
                run(st.body if ev(st.test) else st.orelse)
            elif isinstance(st, ast.For):
                broke = False
                for item in list(ev(st.iter)):
                    bind(st.target, item)
                    try:
                        run(st.body)
                    except _Continue:
                        continue
                    except _Break:
                        broke = True
                        break
                if not broke:
                    run(st.orelse)
            elif isinstance(st, ast.Expr) and isinstance(st.value, ast.Call):
                ev(st.value)
            elif isinstance(st, ast.Return):
                raise _Ret(ev(st.value) if st.value is not None else None)
            elif isinstance(st, ast.Continue):
                raise _Continue()
            elif isinstance(st, ast.Break):
                raise _Break()
            else:
                raise Unhandled(f"statement {norm(st)[:50]}")

    try:
        run(fn.body)
    except _Ret as r:
        return r.v
    except (KeyError, IndexError, TypeError, AttributeError, ValueError) as e:
        return ("raises", type(e).__name__)
    return None
