"""L2 literals: a constant folder over module-level tables, f-string templates
with named holes, regex character classes."""

from __future__ import annotations

import ast


class NotConstant(Exception):
    pass


_PURE_CTORS = {"frozenset": frozenset, "set": set, "tuple": tuple, "list": list, "dict": dict, "sorted": sorted, "str": str, "len": len}


def fold(node, module=None, env=None, _depth=0):
    """evaluate a literal expression; names are looked up in env, then among the
    module's constants (following imports to other cogent3 modules).  Raises
    NotConstant for anything that is not a pure literal construction."""
    if _depth > 40:
        raise NotConstant("depth")
    env = env or {}
    f = lambda n: fold(n, module, env, _depth + 1)  # noqa: E731
    if isinstance(node, ast.Constant):
        return node.value
    if isinstance(node, ast.Tuple):
        return tuple(_elts(node.elts, f))
    if isinstance(node, ast.List):
        return list(_elts(node.elts, f))
    if isinstance(node, ast.Set):
        return set(_elts(node.elts, f))
    if isinstance(node, ast.Dict):
        out = {}
        for k, v in zip(node.keys, node.values):
            if k is None:
                out.update(f(v))
            else:
                out[_hashable(f(k))] = f(v)
        return out
    if isinstance(node, ast.Name):
        if node.id in env:
            return env[node.id]
        if module is not None:
            r = module.repo.resolve(module, node.id)
            if r and r[0] == "const":
                return fold(r[2], r[1], None, _depth + 1)
        raise NotConstant(f"name {node.id}")
    if isinstance(node, ast.Attribute):
        if module is not None:
            r = module.repo.resolve_expr(module, node)
            if r and r[0] == "const":
                return fold(r[2], r[1], None, _depth + 1)
        raise NotConstant(ast.unparse(node))
    if isinstance(node, ast.UnaryOp) and isinstance(node.op, ast.USub):
        return -f(node.operand)
    if isinstance(node, ast.BinOp):
        a, b = f(node.left), f(node.right)
        try:
            if isinstance(node.op, ast.Add):
                return a + b
            if isinstance(node.op, ast.Mod):
                return a % b
            if isinstance(node.op, ast.Mult):
                return a * b
            if isinstance(node.op, ast.Sub):
                return a - b
            if isinstance(node.op, ast.BitOr):
                return a | b
        except Exception as e:
            raise NotConstant(str(e)) from e
        raise NotConstant("binop")
    if isinstance(node, ast.JoinedStr):
        parts = []
        for v in node.values:
            if isinstance(v, ast.Constant):
                parts.append(str(v.value))
            else:
                parts.append(str(f(v.value)))
        return "".join(parts)
    if isinstance(node, ast.Subscript):
        base = f(node.value)
        sl = node.slice
        try:
            if isinstance(sl, ast.Slice):
                lo = f(sl.lower) if sl.lower else None
                hi = f(sl.upper) if sl.upper else None
                st = f(sl.step) if sl.step else None
                return base[lo:hi:st]
            return base[f(sl)]
        except NotConstant:
            raise
        except Exception as e:
            raise NotConstant(str(e)) from e
    if isinstance(node, ast.Call):
        fn = node.func
        if isinstance(fn, ast.Name) and fn.id in _PURE_CTORS and not node.keywords:
            args = [f(a) for a in node.args]
            try:
                return _PURE_CTORS[fn.id](*args)
            except Exception as e:
                raise NotConstant(str(e)) from e
        if isinstance(fn, ast.Attribute) and fn.attr == "join" and len(node.args) == 1:
            sep = f(fn.value)
            if isinstance(sep, str):
                return sep.join(f(node.args[0]))
        if isinstance(fn, ast.Attribute) and fn.attr in ("encode",) and not node.args:
            return f(fn.value).encode()
        if (isinstance(fn, ast.Attribute) and fn.attr == "maketrans" and isinstance(fn.value, ast.Name) and fn.value.id == "str") or (
            isinstance(fn, ast.Name) and fn.id == "maketrans"
        ):
            args = [f(a) for a in node.args]
            return str.maketrans(*args)
        raise NotConstant(ast.unparse(node)[:60])
    if isinstance(node, (ast.ListComp, ast.SetComp, ast.GeneratorExp, ast.DictComp)):
        raise NotConstant("comprehension")
    raise NotConstant(type(node).__name__)


def _elts(elts, f):
    for e in elts:
        if isinstance(e, ast.Starred):
            yield from f(e.value)
        else:
            yield f(e)


def _hashable(v):
    if isinstance(v, list):
        return tuple(v)
    if isinstance(v, set):
        return frozenset(v)
    return v


def try_fold(node, module=None, env=None):
    try:
        return True, fold(node, module, env)
    except NotConstant:
        return False, None


def fstring_template(node: ast.JoinedStr) -> tuple[str, list[str]]:
    """render an f-string with {<source of hole>} kept as named holes"""
    text, holes = [], []
    for v in node.values:
        if isinstance(v, ast.Constant):
            text.append(str(v.value))
        else:
            src = ast.unparse(v.value)
            holes.append(src)
            text.append("{" + src + "}")
    return "".join(text), holes


def string_value(node, module=None):
    """literal string, f-string template (holes named) or %-format template"""
    if isinstance(node, ast.Constant) and isinstance(node.value, str):
        return node.value
    if isinstance(node, ast.JoinedStr):
        return fstring_template(node)[0]
    ok, v = try_fold(node, module)
    if ok and isinstance(v, str):
        return v
    return None


def all_strings(node):
    """every string literal / f-string template under node, in source order"""
    out = []
    for n in ast.walk(node):
        if isinstance(n, ast.JoinedStr):
            out.append((n, fstring_template(n)[0]))
        elif isinstance(n, ast.Constant) and isinstance(n.value, str):
            out.append((n, n.value))
    # drop constants that are pieces of a JoinedStr already captured
    inner = set()
    for n, _ in out:
        if isinstance(n, ast.JoinedStr):
            for v in n.values:
                inner.add(id(v))
    out = [(n, s) for n, s in out if id(n) not in inner]
    out.sort(key=lambda t: (getattr(t[0], "lineno", 0), getattr(t[0], "col_offset", 0)))
    return out


def regex_literal_chars(pattern: str):
    """set of literal characters a regex can match as single-char alternatives /
    classes at top level (used for tokeniser split patterns and quoting classes).
    Returns (chars, has_whitespace_class)"""
    import re._parser as sre  # py3.11+

    chars = set()
    ws = False

    def visit(items):
        nonlocal ws
        for op, av in items:
            name = str(op)
            if name == "LITERAL":
                chars.add(chr(av))
            elif name == "IN":
                visit(av)
            elif name == "CATEGORY":
                if "SPACE" in str(av):
                    ws = True
            elif name == "RANGE":
                lo, hi = av
                for c in range(lo, hi + 1):
                    chars.add(chr(c))
            elif name == "BRANCH":
                for alt in av[1]:
                    visit(alt)
            elif name == "SUBPATTERN":
                visit(av[3])
            elif name in ("MAX_REPEAT", "MIN_REPEAT"):
                visit(av[2])
            elif name == "NEGATE":
                raise NotConstant("negated class")

    visit(sre.parse(pattern))
    return chars, ws


# ---------------------------------------------------------------------------
# constant propagation through a small straight-line string-building function


class _Return(Exception):
    def __init__(self, value):
        self.value = value


def propagate(fn, args: dict, module=None, max_steps=2000):
    """Constant propagation through `fn` (an ast.FunctionDef) for the given
    constant arguments: supports assignments (incl. tuple targets), if/elif/else
    with decidable tests, for-loops over constant sequences, `x.append/extend`,
    `dict.pop/get`, `isinstance` against builtin types, f-strings, `sep.join`,
    tuple()/list() and return.  Raises NotConstant for anything else -- the caller
    reports the instance as unresolved, never as a violation."""
    env = dict(args)
    steps = [0]

    def ev(node):
        if isinstance(node, ast.Name) and node.id in env:
            return env[node.id]
        if isinstance(node, ast.Constant):
            return node.value
        if isinstance(node, ast.JoinedStr):
            out = []
            for v in node.values:
                if isinstance(v, ast.Constant):
                    out.append(str(v.value))
                else:
                    out.append(str(ev(v.value)))
            return "".join(out)
        if isinstance(node, ast.BoolOp):
            vals = None
            for v in node.values:
                vals = ev(v)
                if isinstance(node.op, ast.And) and not vals:
                    return vals
                if isinstance(node.op, ast.Or) and vals:
                    return vals
            return vals
        if isinstance(node, ast.UnaryOp) and isinstance(node.op, ast.Not):
            return not ev(node.operand)
        if isinstance(node, ast.Compare) and len(node.ops) == 1:
            a, b = ev(node.left), ev(node.comparators[0])
            op = node.ops[0]
            if isinstance(op, ast.Is):
                return a is b
            if isinstance(op, ast.IsNot):
                return a is not b
            if isinstance(op, ast.Eq):
                return a == b
            if isinstance(op, ast.NotEq):
                return a != b
            if isinstance(op, ast.In):
                return a in b
            if isinstance(op, ast.NotIn):
                return a not in b
            raise NotConstant("compare")
        if isinstance(node, ast.Call):
            f = node.func
            if isinstance(f, ast.Attribute):
                if f.attr == "join" and len(node.args) == 1:
                    return ev(f.value).join(ev(node.args[0]))
                recv = ev(f.value)
                a = [ev(x) for x in node.args]
                if isinstance(recv, dict) and f.attr in ("pop", "get", "items", "keys", "values"):
                    return getattr(recv, f.attr)(*a)
                if isinstance(recv, list) and f.attr in ("append", "extend"):
                    return getattr(recv, f.attr)(*a)
                if isinstance(recv, str) and f.attr in ("lower", "upper", "strip", "format"):
                    return getattr(recv, f.attr)(*a)
                raise NotConstant(ast.unparse(node)[:50])
            if isinstance(f, ast.Name):
                if f.id == "isinstance" and len(node.args) == 2:
                    types = {"tuple": tuple, "set": set, "list": list, "str": str, "int": int, "dict": dict}
                    tn = node.args[1]
                    names = [e.id for e in tn.elts] if isinstance(tn, ast.Tuple) else [tn.id]
                    return isinstance(ev(node.args[0]), tuple(types[n] for n in names))
                a = [ev(x) for x in node.args]
                if f.id in ("tuple", "list", "len", "str", "sorted", "dict", "set"):
                    return {"tuple": tuple, "list": list, "len": len, "str": str, "sorted": sorted, "dict": dict, "set": set}[f.id](*a)
            raise NotConstant(ast.unparse(node)[:50])
        if isinstance(node, ast.ListComp) and len(node.generators) == 1 and not node.generators[0].ifs:
            g = node.generators[0]
            out = []
            for item in ev(g.iter):
                bind(g.target, item)
                out.append(ev(node.elt))
            return out
        if isinstance(node, (ast.Tuple, ast.List)):
            vals = [ev(e) for e in node.elts]
            return tuple(vals) if isinstance(node, ast.Tuple) else vals
        if isinstance(node, ast.Dict):
            return {ev(k): ev(v) for k, v in zip(node.keys, node.values)}
        if isinstance(node, ast.BinOp) and isinstance(node.op, (ast.Add, ast.Mult, ast.Mod)):
            a, b = ev(node.left), ev(node.right)
            return a + b if isinstance(node.op, ast.Add) else a * b if isinstance(node.op, ast.Mult) else a % b
        if isinstance(node, ast.IfExp):
            return ev(node.body) if ev(node.test) else ev(node.orelse)
        if isinstance(node, ast.Subscript) and not isinstance(node.slice, ast.Slice):
            return ev(node.value)[ev(node.slice)]
        raise NotConstant(f"{type(node).__name__}: {ast.unparse(node)[:50]}")

    def bind(target, value):
        if isinstance(target, ast.Name):
            env[target.id] = value
        elif isinstance(target, (ast.Tuple, ast.List)):
            vals = list(value)
            if len(vals) != len(target.elts):
                raise NotConstant("unpack")
            for t, v in zip(target.elts, vals):
                bind(t, v)
        else:
            raise NotConstant("target")

    def run(body):
        for st in body:
            steps[0] += 1
            if steps[0] > max_steps:
                raise NotConstant("too many steps")
            if isinstance(st, ast.Expr):
                if isinstance(st.value, ast.Constant):
                    continue
                ev(st.value)
            elif isinstance(st, ast.Assign):
                v = ev(st.value)
                for t in st.targets:
                    bind(t, v)
            elif isinstance(st, ast.If):
                run(st.body if ev(st.test) else st.orelse)
            elif isinstance(st, ast.For):
                for item in list(ev(st.iter)):
                    bind(st.target, item)
                    run(st.body)
            elif isinstance(st, ast.Return):
                raise _Return(ev(st.value) if st.value else None)
            elif isinstance(st, ast.Pass):
                pass
            else:
                raise NotConstant(type(st).__name__)

    try:
        run(fn.body)
    except _Return as r:
        return r.value
    except NotConstant:
        raise
    except Exception as e:  # a concrete error inside propagation: not decidable here
        raise NotConstant(f"{type(e).__name__}: {e}") from e
    return None
