"""L2 literals: a constant folder over module-level tables, f-string templates
with named holes, regex character classes."""

from __future__ import annotations

import ast


class NotConstant(Exception):
    pass


_PURE_CTORS = {"frozenset": frozenset, "set": set, "tuple": tuple, "list": list, "dict": dict, "sorted": sorted, "str": str, "len": len}


def fold(node, module=None, env=None, _depth=0):
    """evaluate a literal expression; names are looked up in env, then among the
    module's constants (following imports to other cogent3 modules).  Raises
    NotConstant for anything that is not a pure literal construction."""
    if _depth > 40:
        raise NotConstant("depth")
    env = env or {}
    f = lambda n: fold(n, module, env, _depth + 1)  # noqa: E731
    if isinstance(node, ast.Constant):
        return node.value
    if isinstance(node, ast.Tuple):
        return tuple(_elts(node.elts, f))
    if isinstance(node, ast.List):
        return list(_elts(node.elts, f))
    if isinstance(node, ast.Set):
        return set(_elts(node.elts, f))
    if isinstance(node, ast.Dict):
        out = {}
        for k, v in zip(node.keys, node.values):
            if k is None:
                out.update(f(v))
            else:
                out[_hashable(f(k))] = f(v)
        return out
    if isinstance(node, ast.Name):
        if node.id in env:
            return env[node.id]
        if module is not None:
            r = module.repo.resolve(module, node.id)
            if r and r[0] == "const":
                return fold(r[2], r[1], None, _depth + 1)
        raise NotConstant(f"name {node.id}")
    if isinstance(node, ast.Attribute):
        if module is not None:
            r = module.repo.resolve_expr(module, node)
            if r and r[0] == "const":
                return fold(r[2], r[1], None, _depth + 1)
        raise NotConstant(ast.unparse(node))
    if isinstance(node, ast.UnaryOp) and isinstance(node.op, ast.USub):
        return -f(node.operand)
    if isinstance(node, ast.BinOp):
        a, b = f(node.left), f(node.right)
        try:
            if isinstance(node.op, ast.Add):
                return a + b
            if isinstance(node.op, ast.Mod):
                return a % b
            if isinstance(node.op, ast.Mult):
                return a * b
            if isinstance(node.op, ast.Sub):
                return a - b
            if isinstance(node.op, ast.BitOr):
                return a | b
        except Exception as e:
            raise NotConstant(str(e)) from e
        raise NotConstant("binop")
    if isinstance(node, ast.JoinedStr):
        parts = []
        for v in node.values:
            if isinstance(v, ast.Constant):
                parts.append(str(v.value))
            else:
                parts.append(str(f(v.value)))
        return "".join(parts)
    if isinstance(node, ast.Subscript):
        base = f(node.value)
        sl = node.slice
        try:
            if isinstance(sl, ast.Slice):
                lo = f(sl.lower) if sl.lower else None
                hi = f(sl.upper) if sl.upper else None
                st = f(sl.step) if sl.step else None
                return base[lo:hi:st]
            return base[f(sl)]
        except NotConstant:
            raise
        except Exception as e:
            raise NotConstant(str(e)) from e
    if isinstance(node, ast.Call):
        fn = node.func
        if isinstance(fn, ast.Name) and fn.id in _PURE_CTORS and not node.keywords:
            args = [f(a) for a in node.args]
            try:
                return _PURE_CTORS[fn.id](*args)
            except Exception as e:
                raise NotConstant(str(e)) from e
        if isinstance(fn, ast.Attribute) and fn.attr == "join" and len(node.args) == 1:
            sep = f(fn.value)
            if isinstance(sep, str):
                return sep.join(f(node.args[0]))
        if isinstance(fn, ast.Attribute) and fn.attr in ("encode",) and not node.args:
            return f(fn.value).encode()
        if (isinstance(fn, ast.Attribute) and fn.attr == "maketrans" and isinstance(fn.value, ast.Name) and fn.value.id == "str") or (
            isinstance(fn, ast.Name) and fn.id == "maketrans"
        ):
            args = [f(a) for a in node.args]
            return str.maketrans(*args)
        raise NotConstant(ast.unparse(node)[:60])
    if isinstance(node, (ast.ListComp, ast.SetComp, ast.GeneratorExp, ast.DictComp)):
        raise NotConstant("comprehension")
    raise NotConstant(type(node).__name__)


def _elts(elts, f):
    for e in elts:
        if isinstance(e, ast.Starred):
            yield from f(e.value)
        else:
            yield f(e)


def _hashable(v):
    if isinstance(v, list):
        return tuple(v)
    if isinstance(v, set):
        return frozenset(v)
    return v


def try_fold(node, module=None, env=None):
    try:
        return True, fold(node, module, env)
    except NotConstant:
        return False, None


def fstring_template(node: ast.JoinedStr) -> tuple[str, list[str]]:
    """render an f-string with {<source of hole>} kept as named holes"""
    text, holes = [], []
    for v in node.values:
        if isinstance(v, ast.Constant):
            text.append(str(v.value))
        else:
            src = ast.unparse(v.value)
            holes.append(src)
            text.append("{" + src + "}")
    return "".join(text), holes


def string_value(node, module=None):
    """literal string, f-string template (holes named) or %-format template"""
    if isinstance(node, ast.Constant) and isinstance(node.value, str):
        return node.value
    if isinstance(node, ast.JoinedStr):
        return fstring_template(node)[0]
    ok, v = try_fold(node, module)
    if ok and isinstance(v, str):
        return v
    return None


def all_strings(node):
    """every string literal / f-string template under node, in source order"""
    out = []
    for n in ast.walk(node):
        if isinstance(n, ast.JoinedStr):
            out.append((n, fstring_template(n)[0]))
        elif isinstance(n, ast.Constant) and isinstance(n.value, str):
            out.append((n, n.value))
    # drop constants that are pieces of a JoinedStr already captured
    inner = set()
    for n, _ in out:
        if isinstance(n, ast.JoinedStr):
            for v in n.values:
                inner.add(id(v))
    out = [(n, s) for n, s in out if id(n) not in inner]
    out.sort(key=lambda t: (getattr(t[0], "lineno", 0), getattr(t[0], "col_offset", 0)))
    return out


def regex_literal_chars(pattern: str):
    """set of literal characters a regex can match as single-char alternatives /
    classes at top level (used for tokeniser split patterns and quoting classes).
    Returns (chars, has_whitespace_class)"""
    import re._parser as sre  # py3.11+

    chars = set()
    ws = False

    def visit(items):
        nonlocal ws
        for op, av in items:
            name = str(op)
            if name == "LITERAL":
                chars.add(chr(av))
            elif name == "IN":
                visit(av)
            elif name == "CATEGORY":
                if "SPACE" in str(av):
                    ws = True
            elif name == "RANGE":
                lo, hi = av
                for c in range(lo, hi + 1):
                    chars.add(chr(c))
            elif name == "BRANCH":
                for alt in av[1]:
                    visit(alt)
            elif name == "SUBPATTERN":
                visit(av[3])
            elif name in ("MAX_REPEAT", "MIN_REPEAT"):
                visit(av[2])
            elif name == "NEGATE":
                raise NotConstant("negated class")

    visit(sre.parse(pattern))
    return chars, ws
