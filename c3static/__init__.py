"""c3static: repository-specific static analysis deciding properties of cogent3.

Pure standard library.  Nothing here imports or executes cogent3: every verdict is
derived from the source text under <root>/src/cogent3 (default root /repo).
"""

__all__ = ["index", "classes", "literals", "cfg", "defuse", "effects", "twins", "tables", "report"]
