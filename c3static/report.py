"""Check context: collects rule instances, compares with known findings, writes
evidence / replay files and prints VIOLATION / KNOWN-FINDING / ANALYSIS-ERROR lines."""

from __future__ import annotations

import json
import os
import time
from pathlib import Path

from .index import AnalysisError, Repo

VERIF = Path(__file__).resolve().parent.parent
KNOWN_FILE = VERIF / "known_findings.json"
EVIDENCE_DIR = VERIF / "evidence"

OK, VIOLATION, UNRESOLVED, ADVISORY = "ok", "violation", "unresolved", "advisory"


class Instance:
    __slots__ = ("rule", "key", "where", "verdict", "detail", "nontrivial")

    def __init__(self, rule, key, where, verdict, detail="", nontrivial=True):
        self.rule, self.key, self.where = rule, key, where
        self.verdict, self.detail, self.nontrivial = verdict, detail, nontrivial

    def as_dict(self):
        return {
            "rule": self.rule,
            "key": self.key,
            "where": self.where,
            "verdict": self.verdict,
            "detail": self.detail,
        }


class Check:
    """one run of the rules for one property"""

    def __init__(self, pid: str, tier: str = "quick", root: str = "/repo", seed: int = 0, write=True):
        self.pid = pid
        self.tier = tier
        self.seed = seed
        self.root = str(root)
        self.repo = Repo(root)
        self.instances: list[Instance] = []
        self.floors: dict[str, tuple[int, str]] = {}
        self.rules: dict[str, str] = {}
        self.assumptions: list[str] = []
        self.errors: list[str] = []
        self.exhaustive = False
        self.extra: dict = {}
        self.t0 = time.time()
        self.write = write

    # -- recording ---------------------------------------------------------
    def rule(self, rid: str, text: str):
        self.rules[rid] = text

    def _add(self, rule, key, where, verdict, detail, nontrivial=True):
        full = f"{rule}|{key}"
        # the same construct seen through several CFG copies (finally duplication) is one instance
        for i in self.instances:
            if i.key == full and i.verdict == verdict and i.where == where:
                return
        self.instances.append(Instance(rule, full, where, verdict, detail, nontrivial))

    def ok(self, rule, key, where, detail="", nontrivial=True):
        self._add(rule, key, where, OK, detail, nontrivial)

    def violation(self, rule, key, where, detail):
        self._add(rule, key, where, VIOLATION, detail)

    def unresolved(self, rule, key, where, detail=""):
        self._add(rule, key, where, UNRESOLVED, detail, False)

    def advisory(self, rule, key, where, detail=""):
        self._add(rule, key, where, ADVISORY, detail, False)

    def decide(self, cond: bool, rule, key, where, ok_detail="", bad_detail=""):
        if cond:
            self.ok(rule, key, where, ok_detail)
        else:
            self.violation(rule, key, where, bad_detail or ok_detail)
        return cond

    def floor(self, rule: str, n: int, reason: str = ""):
        """the rule must have examined at least n decidable (ok/violation) instances;
        a vanished instance population is an analysis error, not a pass"""
        self.floors[rule] = (n, reason)

    def assume(self, text: str):
        if text not in self.assumptions:
            self.assumptions.append(text)

    def count(self, rule, verdicts=(OK, VIOLATION)):
        return sum(1 for i in self.instances if i.rule == rule and i.verdict in verdicts)

    # -- finishing -----------------------------------------------------------
    def _known(self):
        if not KNOWN_FILE.is_file():
            return {}
        data = json.loads(KNOWN_FILE.read_text())
        out = {}
        for e in data.get("findings", []):
            if e.get("property") == self.pid and e.get("status") == "known":
                out[e["key"]] = e
        return out

    def finish(self) -> int:
        for rule, (n, reason) in self.floors.items():
            got = self.count(rule)
            if got < n:
                self.errors.append(
                    f"rule {rule} examined {got} instances, floor is {n} ({reason}); the anchored construct moved or the rule no longer matches it"
                )
        known = self._known()
        viol = [i for i in self.instances if i.verdict == VIOLATION]
        new = [i for i in viol if i.key not in known]
        old = [i for i in viol if i.key in known]
        wall = time.time() - self.t0

        replay_path = None
        if new and self.write:
            rdir = EVIDENCE_DIR / "replay"
            rdir.mkdir(parents=True, exist_ok=True)
            replay_path = rdir / f"{self.pid}.json"
            replay_path.write_text(
                json.dumps(
                    {
                        "property_id": self.pid,
                        "root": self.root,
                        "tier": self.tier,
                        "violations": [i.as_dict() for i in new],
                        "rules": {i.rule: self.rules.get(i.rule, "") for i in new},
                        "how": f"/venv/bin/python -m c3static check {self.pid} --tier {self.tier} --root {self.root}",
                    },
                    indent=1,
                )
            )

        if self.write:
            self._write_evidence(wall, new, old)

        for i in old:
            print(f"KNOWN-FINDING: property={self.pid} {i.key} at {i.where}: {i.detail}")
        for e in self.errors:
            print(f"ANALYSIS-ERROR property={self.pid} {e}")
        for i in new:
            print(f"  violation {i.rule} at {i.where}: {i.detail}\n    key: {i.key}\n    rule: {self.rules.get(i.rule, '')}")
        if new:
            print(f"VIOLATION property={self.pid} replay={replay_path}")
        n_ok = sum(1 for i in self.instances if i.verdict == OK)
        n_un = sum(1 for i in self.instances if i.verdict == UNRESOLVED)
        n_ad = sum(1 for i in self.instances if i.verdict == ADVISORY)
        print(
            f"{self.pid} [{self.tier}] instances={len(self.instances)} ok={n_ok} violations={len(new)} known={len(old)} "
            f"unresolved={n_un} advisory={n_ad} modules={len(self.repo.parsed)} wall={wall:.2f}s"
        )
        # a located violation is reported as such even when, because of it, a rule saw fewer instances than its floor
        if new:
            return 1
        return 2 if self.errors else 0

    def _write_evidence(self, wall, new, old):
        EVIDENCE_DIR.mkdir(parents=True, exist_ok=True)
        decided = [i for i in self.instances if i.verdict in (OK, VIOLATION)]
        distinct = len({i.key for i in decided if i.nontrivial})
        per_rule = {}
        for i in self.instances:
            d = per_rule.setdefault(i.rule, {"ok": 0, "violation": 0, "unresolved": 0, "advisory": 0})
            d[i.verdict] += 1
        samples = []
        seen_rules = {}
        for i in self.instances:
            c = seen_rules.get((i.rule, i.verdict), 0)
            if c < 3:
                samples.append(i.as_dict())
                seen_rules[(i.rule, i.verdict)] = c + 1
        explanation = (
            "Static analysis of the current source under %s/src/cogent3 (never imported or executed). "
            "Each rule instance is a specific construct (function, call site, table row, path, order type) "
            "checked against a structural rule that is a necessary condition of the property; "
            "see DESIGN.md for the clause decided and what is not decided." % self.root
        )
        ev = {
            "property_id": self.pid,
            "tier": self.tier,
            "seed": self.seed,
            "level": "other",
            "coverage": {
                "explanation": explanation,
                "evaluations": len(self.instances),
                "distinct_nontrivial": distinct,
                "rule": "instances are enumerated from the source by the rules below; an instance is non-trivial when the rule had something to decide on it (verdict ok or violation, not unresolved/advisory) and distinct by its construct key",
                "rules": self.rules,
                "per_rule": per_rule,
                "instance_floor": {k: {"floor": v[0], "reason": v[1], "found": self.count(k)} for k, v in self.floors.items()},
                "obligations": len(decided),
                "discharged": len([i for i in decided if i.verdict == OK]),
                "unresolved": [i.as_dict() for i in self.instances if i.verdict == UNRESOLVED][:40],
                "advisories": [i.as_dict() for i in self.instances if i.verdict == ADVISORY][:40],
                "known_findings": [i.as_dict() for i in old],
                "new_violations": [i.as_dict() for i in new],
                "analysis_errors": self.errors,
                "samples": samples[:60],
                "analysed_modules": sorted(self.repo.parsed),
                "exhaustive": bool(self.exhaustive),
                "checker_cmd": f"/venv/bin/python -m c3static check {self.pid} --tier {self.tier}",
                "trusted_base": ["python ast / re._parser", "c3static resolver (import map, C3 MRO)", "frozen rule tables in c3static/rules (each with its reason)"],
                **self.extra,
            },
            "assumptions": self.assumptions,
            "wall_s": round(wall, 3),
            "violations": len(new),
        }
        (EVIDENCE_DIR / f"{self.pid}.json").write_text(json.dumps(ev, indent=1, default=str))


def key(module, qual, construct="") -> str:
    """instance key: (module, qualified function, normalised construct)"""
    rel = module if isinstance(module, str) else module.rel
    rel = rel.replace("src/cogent3/", "")
    return f"{rel}::{qual}" + (f"|{construct}" if construct else "")
