"""L0 index and L1 class model.

Repo      -- lazily parsed modules of <root>/src/cogent3
Module    -- classes, functions, module-level constants, import/alias map
ClassInfo -- bases resolved through the import map, C3 linearisation, MRO-resolved
             method table, property getter/setter pairs, class-level aliases
"""

from __future__ import annotations

import ast
import os
from functools import lru_cache
from pathlib import Path


class AnalysisError(Exception):
    """An anchor vanished or a rule matched fewer instances than its floor.

    Reported as ANALYSIS-ERROR, exit status 2 -- never a silent pass."""


PKG = "cogent3"


def qualname_map(tree: ast.AST) -> dict:
    """map every FunctionDef/ClassDef node -> dotted qualified name within module"""
    out = {}

    def walk(node, prefix):
        for child in ast.iter_child_nodes(node):
            if isinstance(child, (ast.FunctionDef, ast.AsyncFunctionDef, ast.ClassDef)):
                q = f"{prefix}.{child.name}" if prefix else child.name
                out[child] = q
                walk(child, q)
            else:
                walk(child, prefix)

    walk(tree, "")
    return out


class Module:
    def __init__(self, repo: "Repo", path: Path, dotted: str):
        self.repo = repo
        self.path = path
        self.dotted = dotted
        self.rel = str(path.relative_to(repo.root))
        self.source = path.read_text(encoding="utf8")
        self.tree = ast.parse(self.source, filename=str(path))
        self.lines = self.source.splitlines()
        self.classes: dict[str, ClassInfo] = {}
        self.functions: dict[str, ast.FunctionDef] = {}
        self.constants: dict[str, ast.AST] = {}
        self.assign_nodes: dict[str, list] = {}
        self.imports: dict[str, str] = {}
        self._qual = None
        self._index()

    # -- indexing ---------------------------------------------------------
    def _pkg_parts(self):
        parts = self.dotted.split(".")
        if self.path.name == "__init__.py":
            return parts
        return parts[:-1]

    def _index(self):
        for node in self._toplevel(self.tree.body):
            if isinstance(node, (ast.FunctionDef, ast.AsyncFunctionDef)):
                # first definition wins only if not redefined; keep last like python
                self.functions[node.name] = node
            elif isinstance(node, ast.ClassDef):
                self.classes[node.name] = ClassInfo(self, node)
            elif isinstance(node, ast.Assign):
                for t in node.targets:
                    if isinstance(t, ast.Name):
                        self.constants[t.id] = node.value
                        self.assign_nodes.setdefault(t.id, []).append(node)
                    elif isinstance(t, ast.Tuple) and isinstance(node.value, ast.Tuple) and len(t.elts) == len(node.value.elts):
                        for a, b in zip(t.elts, node.value.elts):
                            if isinstance(a, ast.Name):
                                self.constants[a.id] = b
            elif isinstance(node, ast.AnnAssign) and isinstance(node.target, ast.Name) and node.value is not None:
                self.constants[node.target.id] = node.value
            elif isinstance(node, ast.Import):
                for a in node.names:
                    local = a.asname or a.name.split(".")[0]
                    self.imports[local] = a.name if a.asname else a.name.split(".")[0]
            elif isinstance(node, ast.ImportFrom):
                if node.level:
                    base = self._pkg_parts()
                    if node.level > 1:
                        base = base[: -(node.level - 1)]
                    mod = ".".join(base + ([node.module] if node.module else []))
                else:
                    mod = node.module or ""
                for a in node.names:
                    self.imports[a.asname or a.name] = f"{mod}.{a.name}"

    @staticmethod
    def _toplevel(body):
        """module-level statements, looking inside top-level if/try blocks"""
        for node in body:
            if isinstance(node, ast.If):
                yield from Module._toplevel(node.body)
                yield from Module._toplevel(node.orelse)
            elif isinstance(node, ast.Try):
                yield from Module._toplevel(node.body)
                for h in node.handlers:
                    yield from Module._toplevel(h.body)
                yield from Module._toplevel(node.orelse)
                yield from Module._toplevel(node.finalbody)
            else:
                yield node

    # -- lookup -----------------------------------------------------------
    @property
    def qual(self):
        if self._qual is None:
            self._qual = qualname_map(self.tree)
        return self._qual

    def func(self, qualname: str):
        """find a function/method by dotted qualified name ("Class.meth", "func",
        "func.inner"); raises AnalysisError when it vanished"""
        for node, q in self.qual.items():
            if q == qualname and isinstance(node, (ast.FunctionDef, ast.AsyncFunctionDef)):
                return node
        raise AnalysisError(f"anchor vanished: {self.rel}::{qualname}")

    def has_func(self, qualname: str) -> bool:
        try:
            self.func(qualname)
            return True
        except AnalysisError:
            return False

    def cls(self, name: str) -> "ClassInfo":
        if name not in self.classes:
            raise AnalysisError(f"anchor vanished: class {self.rel}::{name}")
        return self.classes[name]

    def const(self, name: str):
        if name not in self.constants:
            raise AnalysisError(f"anchor vanished: constant {self.rel}::{name}")
        return self.constants[name]

    def all_functions(self):
        """yield (qualname, node) for every function at any depth"""
        for node, q in self.qual.items():
            if isinstance(node, (ast.FunctionDef, ast.AsyncFunctionDef)):
                yield q, node

    def loc(self, node) -> str:
        return f"{self.rel}:{getattr(node, 'lineno', 0)}"

    def text(self, node) -> str:
        try:
            return ast.unparse(node)
        except Exception:  # pragma: no cover
            return "<unparse failed>"

    def resolve_name(self, name: str):
        """resolve a module-level name to ("class", ClassInfo) | ("func", Module, node)
        | ("const", Module, node) | ("module", Module) | None, following imports"""
        return self.repo.resolve(self, name)


class ClassInfo:
    def __init__(self, module: Module, node: ast.ClassDef):
        self.module = module
        self.node = node
        self.name = node.name
        self.methods: dict[str, ast.FunctionDef] = {}
        self.assigns: dict[str, ast.AST] = {}
        self.properties: dict[str, dict] = {}
        self.aliases: dict[str, str] = {}
        self.decorators = node.decorator_list
        self._mro = None
        self._scan()

    @property
    def fq(self):
        return f"{self.module.dotted}.{self.name}"

    def __repr__(self):
        return f"<class {self.fq}>"

    def _scan(self):
        for st in Module._toplevel(self.node.body):
            if isinstance(st, (ast.FunctionDef, ast.AsyncFunctionDef)):
                decs = [d for d in st.decorator_list]
                kind = None
                for d in decs:
                    if isinstance(d, ast.Name) and d.id == "property":
                        kind = "get"
                    elif isinstance(d, ast.Attribute) and d.attr == "setter":
                        kind = "set"
                    elif isinstance(d, ast.Attribute) and d.attr == "deleter":
                        kind = "del"
                    elif isinstance(d, ast.Name) and d.id in ("cached_property",):
                        kind = "get"
                    elif isinstance(d, ast.Attribute) and d.attr == "cached_property":
                        kind = "get"
                if kind:
                    self.properties.setdefault(st.name, {})[kind] = st
                    if kind == "get":
                        self.methods[st.name] = st
                else:
                    self.methods[st.name] = st
            elif isinstance(st, ast.Assign):
                for t in st.targets:
                    if isinstance(t, ast.Name):
                        self.assigns[t.id] = st.value
                        v = st.value
                        if isinstance(v, ast.Name):
                            self.aliases[t.id] = v.id
                        elif isinstance(v, ast.Call) and isinstance(v.func, ast.Name) and v.func.id == "property":
                            p = {}
                            for i, k in enumerate(("get", "set", "del")):
                                if i < len(v.args) and isinstance(v.args[i], ast.Name):
                                    p[k] = v.args[i].id
                            for kw in v.keywords:
                                key = {"fget": "get", "fset": "set", "fdel": "del"}.get(kw.arg)
                                if key and isinstance(kw.value, ast.Name):
                                    p[key] = kw.value.id
                            self.properties[t.id] = {k: self.methods.get(n) for k, n in p.items()}
                # chained alias: __deepcopy__ = deepcopy = copy
                names = [t.id for t in st.targets if isinstance(t, ast.Name)]
                if len(names) > 1 and isinstance(st.value, ast.Name):
                    for n in names:
                        self.aliases[n] = st.value.id
            elif isinstance(st, ast.AnnAssign) and isinstance(st.target, ast.Name) and st.value is not None:
                self.assigns[st.target.id] = st.value

    # -- hierarchy ----------------------------------------------------------
    def base_infos(self):
        out = []
        for b in self.node.bases:
            ci = self.module.repo.resolve_class_expr(self.module, b)
            out.append(ci)  # may be None for external bases
        return out

    def mro(self):
        """C3 linearisation over resolvable (in-package) bases; external bases are
        dropped (they contribute no cogent3 methods)."""
        if self._mro is not None:
            return self._mro
        bases = [b for b in self.base_infos() if b is not None]
        seqs = [list(b.mro()) for b in bases] + [list(bases)]
        res = [self]
        while True:
            seqs = [s for s in seqs if s]
            if not seqs:
                break
            for s in seqs:
                cand = s[0]
                if not any(cand in t[1:] for t in seqs):
                    break
            else:
                raise AnalysisError(f"inconsistent MRO for {self.fq}")
            res.append(cand)
            for s in seqs:
                if s and s[0] is cand:
                    del s[0]
        self._mro = res
        return res

    def resolve(self, name: str, _depth=0):
        """MRO-resolved (owner ClassInfo, FunctionDef) for a method/property getter;
        follows class-level aliases.  None when not found in-package."""
        for ci in self.mro():
            if name in ci.methods:
                return ci, ci.methods[name]
            if name in ci.aliases and _depth < 5:
                tgt = ci.aliases[name]
                if tgt in ci.methods:
                    return ci, ci.methods[tgt]
                r = ci.resolve(tgt, _depth + 1)
                if r:
                    return r
            if name in ci.assigns:
                return ci, ci.assigns[name]
        return None

    def resolve_property(self, name: str):
        for ci in self.mro():
            if name in ci.properties:
                return ci, ci.properties[name]
            if name in ci.methods or name in ci.assigns:
                return None
        return None

    def has_external_base(self):
        return any(b is None for b in self.base_infos())

    def is_subclass_of(self, other: "ClassInfo") -> bool:
        return other in self.mro()

    def method_table(self):
        """name -> (owner, node) for all names visible on the class"""
        names = []
        for ci in self.mro():
            for n in list(ci.methods) + list(ci.aliases) + list(ci.assigns):
                if n not in names:
                    names.append(n)
        return {n: self.resolve(n) for n in names}


class Repo:
    def __init__(self, root="/repo"):
        self.root = Path(root)
        self.src = self.root / "src" / PKG
        if not self.src.is_dir():
            raise AnalysisError(f"source tree not found: {self.src}")
        self._mods: dict[str, Module] = {}
        self.parsed = []

    def _dotted(self, path: Path) -> str:
        rel = path.relative_to(self.root / "src").with_suffix("")
        parts = list(rel.parts)
        if parts[-1] == "__init__":
            parts = parts[:-1]
        return ".".join(parts)

    def module(self, rel: str) -> Module:
        """module by path relative to src/cogent3 ("core/sequence.py") or by dotted
        name ("cogent3.core.sequence")"""
        if rel.endswith(".py"):
            path = self.src / rel
        else:
            parts = rel.split(".")
            assert parts[0] == PKG, rel
            path = self.src.joinpath(*parts[1:])
            if path.is_dir():
                path = path / "__init__.py"
            else:
                path = path.with_suffix(".py")
        key = str(path)
        if key not in self._mods:
            if not path.is_file():
                raise AnalysisError(f"anchor vanished: module {path}")
            try:
                self._mods[key] = Module(self, path, self._dotted(path))
            except SyntaxError as e:
                raise AnalysisError(f"cannot parse {path}: {e}") from e
            self.parsed.append(self._mods[key].rel)
        return self._mods[key]

    def try_module(self, dotted: str):
        if not dotted or dotted.split(".")[0] != PKG:
            return None
        try:
            return self.module(dotted)
        except AnalysisError:
            return None

    def all_modules(self):
        out = []
        for dirpath, dirnames, filenames in os.walk(self.src):
            dirnames.sort()
            for fn in sorted(filenames):
                if fn.endswith(".py"):
                    p = Path(dirpath) / fn
                    out.append(self.module(str(p.relative_to(self.src))))
        return out

    # -- name resolution -------------------------------------------------
    def resolve(self, module: Module, name: str, _depth=0):
        if _depth > 8:
            return None
        if name in module.classes:
            return ("class", module.classes[name])
        if name in module.functions:
            return ("func", module, module.functions[name])
        if name in module.imports:
            return self.resolve_dotted(module.imports[name], _depth + 1)
        if name in module.constants:
            v = module.constants[name]
            if isinstance(v, ast.Name) and v.id != name:
                r = self.resolve(module, v.id, _depth + 1)
                if r:
                    return r
            return ("const", module, v)
        return None

    def resolve_dotted(self, dotted: str, _depth=0):
        if not dotted.startswith(PKG):
            return None
        m = self.try_module(dotted)
        if m is not None and self._is_module_path(dotted):
            return ("module", m)
        if "." in dotted:
            modname, attr = dotted.rsplit(".", 1)
            m = self.try_module(modname)
            if m is not None and self._is_module_path(modname):
                return self.resolve(m, attr, _depth + 1)
        return None

    def _is_module_path(self, dotted):
        parts = dotted.split(".")
        p = self.src.joinpath(*parts[1:])
        return p.is_dir() or p.with_suffix(".py").is_file()

    def resolve_expr(self, module: Module, expr: ast.AST):
        """resolve Name or dotted Attribute chain at module scope"""
        if isinstance(expr, ast.Name):
            return self.resolve(module, expr.id)
        if isinstance(expr, ast.Attribute):
            base = self.resolve_expr(module, expr.value)
            if base and base[0] == "module":
                return self.resolve(base[1], expr.attr)
            if base is None and isinstance(expr.value, ast.Name) and expr.value.id in module.imports:
                return self.resolve_dotted(module.imports[expr.value.id] + "." + expr.attr)
        return None

    def resolve_class_expr(self, module: Module, expr: ast.AST):
        if isinstance(expr, ast.Subscript):  # Generic[T]
            expr = expr.value
        r = self.resolve_expr(module, expr)
        if r and r[0] == "class":
            return r[1]
        return None

    def all_classes(self):
        for m in self.all_modules():
            yield from m.classes.values()

    def subclasses_of(self, base: ClassInfo, strict=True):
        out = []
        for ci in self.all_classes():
            try:
                if base in ci.mro() and (ci is not base or not strict):
                    out.append(ci)
            except AnalysisError:
                continue
        return out


# -- small ast helpers shared by rules ---------------------------------------


def dotted_name(expr) -> str | None:
    """'a.b.c' for Name/Attribute chains, else None"""
    parts = []
    while isinstance(expr, ast.Attribute):
        parts.append(expr.attr)
        expr = expr.value
    if isinstance(expr, ast.Name):
        parts.append(expr.id)
        return ".".join(reversed(parts))
    return None


def call_name(call: ast.Call) -> str | None:
    return dotted_name(call.func)


def walk_no_nested(node):
    """ast.walk that does not descend into nested function/class definitions
    (lambdas and comprehensions are descended)"""
    # depth-first, pre-order, in source order
    stack = list(ast.iter_child_nodes(node))[::-1]
    while stack:
        n = stack.pop()
        yield n
        if isinstance(n, (ast.FunctionDef, ast.AsyncFunctionDef, ast.ClassDef)):
            continue
        stack.extend(list(ast.iter_child_nodes(n))[::-1])


def calls_in(node, nested=False):
    it = ast.walk(node) if nested else walk_no_nested(node)
    return [n for n in it if isinstance(n, ast.Call)]


def params_of(fn) -> list:
    a = fn.args
    return [x.arg for x in a.posonlyargs + a.args] + ([a.vararg.arg] if a.vararg else []) + [x.arg for x in a.kwonlyargs] + ([a.kwarg.arg] if a.kwarg else [])


def param_defaults(fn) -> dict:
    """name -> default expr (ast) for parameters that have one"""
    a = fn.args
    pos = a.posonlyargs + a.args
    out = {}
    for p, d in zip(pos[len(pos) - len(a.defaults):], a.defaults):
        out[p.arg] = d
    for p, d in zip(a.kwonlyargs, a.kw_defaults):
        if d is not None:
            out[p.arg] = d
    return out


def strip_docstring(body):
    if body and isinstance(body[0], ast.Expr) and isinstance(body[0].value, ast.Constant) and isinstance(body[0].value.value, str):
        return body[1:]
    return body


def norm(node) -> str:
    """normalised source text of a construct, used in instance keys"""
    try:
        s = ast.unparse(node)
    except Exception:  # pragma: no cover
        s = repr(node)
    s = " ".join(s.split())
    return s if len(s) <= 160 else s[:157] + "..."
