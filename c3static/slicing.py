"""Backward value slicing along reaching definitions (flow-sensitive, per function), with
the few container and helper-call shapes the parsers use:

  * `X[k]` with k a constant and X bound to a list/tuple literal -> that element
  * `X[...]`, otherwise -> every element of the literal and every `X[..] = v` / `X.append(v)` store
  * `a, b = helper(...)` for a module-level helper whose returns are tuples -> the matching element,
    sliced inside the helper
  * plain names -> their reaching definitions (loop targets and parameters are *sources*)

`origins(fn, node, expr, visit)` calls visit(expr, fn) on every expression the value of `expr`
at CFG node `node` may have been computed from (including expr itself)."""

from __future__ import annotations

import ast

from . import cfg as C
from . import defuse as D
from .index import call_name, norm


class Slicer:
    def __init__(self, module, max_steps=4000):
        self.module = module
        self.cache = {}
        self.max_steps = max_steps
        self.unresolved = []
        self.stop = None

    def graph(self, fn):
        k = id(fn)
        if k not in self.cache:
            g = C.build(fn)
            self.cache[k] = (g, D.reaching_definitions(g)[0], {n.id: n for n in g.nodes})
        return self.cache[k]

    def node_of(self, fn, stmt_or_expr):
        """the CFG node whose own expressions contain the given ast node"""
        g, _, _ = self.graph(fn)
        for n in g.nodes:
            if n.ast is None or n.kind in ("def",):
                continue
            for e in C.own_exprs(n):
                if any(x is stmt_or_expr for x in ast.walk(e)):
                    return n
            if n.ast is stmt_or_expr:
                return n
        return None

    def origins(self, fn, node, expr, visit, _seen=None, _sel=None):
        seen = _seen if _seen is not None else set()
        key = (id(fn), node.id if node is not None else -1, id(expr), _sel)
        if key in seen or len(seen) > self.max_steps:
            return
        seen.add(key)
        visit(expr, fn)
        if self.stop is not None and self.stop(expr):
            return  # an opaque producer: its operands do not flow into the value as such
        g, IN, by_id = self.graph(fn)
        # element selection on a literal
        if _sel is not None and isinstance(expr, (ast.List, ast.Tuple)):
            elts = expr.elts
            if isinstance(_sel, int) and -len(elts) <= _sel < len(elts):
                elts = [elts[_sel]]
            for e in elts:
                self.origins(fn, node, e, visit, seen, None)
            return
        if isinstance(expr, ast.Subscript) and not isinstance(expr.slice, ast.Slice):
            idx = expr.slice.value if isinstance(expr.slice, ast.Constant) and isinstance(expr.slice.value, int) else "*"
            base = expr.value
            if isinstance(base, ast.Name):
                self._name(fn, node, base.id, visit, seen, idx)
                # element stores anywhere in the function
                for st in ast.walk(fn):
                    if isinstance(st, ast.Assign) and any(isinstance(t, ast.Subscript) and isinstance(t.value, ast.Name) and t.value.id == base.id for t in st.targets):
                        sn = self.node_of(fn, st.value)
                        self.origins(fn, sn, st.value, visit, seen, None)
                    if isinstance(st, ast.Call) and isinstance(st.func, ast.Attribute) and st.func.attr in ("append", "insert", "extend") and isinstance(st.func.value, ast.Name) and st.func.value.id == base.id and idx == "*":
                        for a in st.args:
                            self.origins(fn, self.node_of(fn, st), a, visit, seen, None)
                return
            self.origins(fn, node, base, visit, seen, None)
            return
        if isinstance(expr, ast.Name):
            self._name(fn, node, expr.id, visit, seen, _sel)
            return
        if isinstance(expr, ast.Call):
            # a module-level helper returning tuples
            cn = call_name(expr)
            helper = self.module.functions.get(cn) if cn and hasattr(self.module, "functions") else None
            if helper is not None and isinstance(helper, ast.FunctionDef):
                for r in ast.walk(helper):
                    if isinstance(r, ast.Return) and r.value is not None:
                        rn = self.node_of(helper, r.value)
                        self.origins(helper, rn, r.value, visit, seen, _sel)
                # arguments flow into the helper's parameters: treat as sources of the helper (visited there as names)
                for a in expr.args:
                    self.origins(fn, node, a, visit, seen, None)
                return
            for sub in list(expr.args) + [k.value for k in expr.keywords] + ([expr.func.value] if isinstance(expr.func, ast.Attribute) else []):
                self.origins(fn, node, sub, visit, seen, None)
            return
        for sub in ast.iter_child_nodes(expr):
            if isinstance(sub, ast.expr):
                self.origins(fn, node, sub, visit, seen, None)

    def _name(self, fn, node, name, visit, seen, sel):
        g, IN, by_id = self.graph(fn)
        if node is None:
            self.unresolved.append(f"{fn.name}: use of {name} not located")
            return
        for did in IN.get(node.id, {}).get(name, ()):  # reaching definitions
            dn = by_id[did]
            a = dn.ast
            if dn is g.entry or a is None:
                continue  # parameter: a source
            if dn.kind == "stmt" and isinstance(a, ast.Assign):
                tgt = a.targets[0]
                if isinstance(tgt, (ast.Tuple, ast.List)):
                    pos = next((i for i, t in enumerate(tgt.elts) if isinstance(t, ast.Name) and t.id == name), None)
                    self.origins(fn, dn, a.value, visit, seen, pos)
                else:
                    self.origins(fn, dn, a.value, visit, seen, sel)
            elif dn.kind == "stmt" and isinstance(a, ast.AugAssign):
                self.origins(fn, dn, a.value, visit, seen, None)
                self.origins(fn, dn, a.target, visit, seen, None)
            elif dn.kind == "stmt" and isinstance(a, ast.AnnAssign) and a.value is not None:
                self.origins(fn, dn, a.value, visit, seen, sel)
            # loop targets, with-targets, handlers: sources
