"""L5 regions / effects: flow-sensitive abstract interpretation deciding whether a
method mutates its receiver (or shares mutable state of the receiver with the fresh
object it returns).

Abstract value  Val(kinds, regs)
  kinds  subset of {NODE, LIST, DICT, SET, ARRAY, STR, SCALAR, CTOR, OBJ, ...}  (empty = unknown)
  regs   set of region tokens: "SELF", "ARG<i>", "UNK", or a fresh allocation site
         "F<line>:<col>".  Scalars, strings and None have an EMPTY region (nothing to
         mutate or alias) -- otherwise `return node or None` would pollute regions.
Heap     allocation site -> tokens of what has been stored inside that fresh object.
         Objects inside SELF are SELF, inside ARG<i> are ARG<i>.

A mutation event is recorded with the tokens of its target; it is a *definite*
receiver mutation only when the tokens are exactly {"SELF"}.  Everything uncertain
(unknown callee, mixed regions) is counted, never reported.

Interprocedural: per-function summaries (mut tokens, returned tokens, what the
returned fresh object contains) are the least fix-point, from bottom, over the
functions of one class family; effects of callees are mapped through the call site.
Family-specific facts are configuration (Family), each with its reason.
"""

from __future__ import annotations

import ast
from dataclasses import dataclass, field

from .index import call_name, norm, params_of

SELF, UNK = "SELF", "UNK"

CONTAINER_MUTATORS = {"append", "extend", "insert", "remove", "pop", "clear", "sort", "reverse", "update", "add", "discard", "setdefault", "popitem", "appendleft", "popleft"}
CONTAINER_STORES = {"append", "extend", "insert", "update", "add", "setdefault", "appendleft"}
CONTAINER_PURE_FRESH = {"copy", "keys", "values", "items", "difference", "union", "intersection", "symmetric_difference"}
CONTAINER_PURE_ELEM = {"get", "__getitem__"}
CONTAINER_PURE_SCALAR = {"index", "count", "__len__", "__contains__", "isdisjoint", "issubset", "issuperset", "join", "startswith", "endswith", "split", "strip", "lower", "upper", "format", "find", "replace", "encode", "decode", "tolist", "item", "tobytes", "tostring", "any", "all"}
ARRAY_INPLACE = {"fill", "sort", "put", "itemset", "resize", "partition", "setflags", "byteswap", "setfield", "shuffle"}
ARRAY_ALIAS = {"reshape", "ravel", "view", "squeeze", "transpose", "swapaxes", "diagonal"}
ARRAY_FRESH = {"copy", "astype", "take", "sum", "mean", "max", "min", "cumsum", "argsort", "argmax", "argmin", "nonzero", "flatten", "repeat", "dot", "compress", "choose", "clip", "round", "prod", "std", "var", "cumprod", "tolist", "searchsorted", "conj"}
NUMPY_INPLACE_FUNCS = {"put", "place", "putmask", "copyto", "fill_diagonal", "shuffle"}
FRESH_BUILTINS = {"list", "tuple", "set", "frozenset", "dict", "sorted", "reversed", "zip", "enumerate", "map", "filter", "iter", "bytearray", "defaultdict", "OrderedDict", "Counter", "deque"}
SCALAR_BUILTINS = {"len", "str", "int", "float", "bool", "min", "max", "sum", "any", "all", "isinstance", "issubclass", "hasattr", "id", "repr", "abs", "round", "hash", "callable", "print", "ord", "chr", "range", "divmod", "pow", "format", "next", "type", "super", "ceil", "log", "floor", "sqrt", "choice"}


@dataclass(frozen=True)
class Val:
    kinds: frozenset = frozenset()
    regs: frozenset = frozenset()
    ek: frozenset = frozenset()  # kinds of the elements, for containers

    def join(self, other):
        return Val(self.kinds | other.kinds, self.regs | other.regs, self.ek | other.ek)

    @staticmethod
    def of(kinds=(), regs=(), ek=()):
        return Val(frozenset(kinds), frozenset(regs), frozenset(ek))

    def elem(self, regs):
        """value of an element taken out of this container"""
        return Val(self.ek, frozenset(regs))


BOTTOM = Val()
SCALAR = Val.of(["SCALAR"])


@dataclass
class Event:
    tokens: frozenset
    what: str
    line: int
    chain: tuple = ()


@dataclass
class Summary:
    mut: dict = field(default_factory=dict)  # token ("SELF", "ARG0", "ARG0.*", "SELF.*") -> (what, line, chain)
    ret: Val = BOTTOM  # regs over {"SELF","ARG<i>","FRESH","UNK"}
    ret_contains: frozenset = frozenset()  # what the returned fresh object holds: {"SELF","ARG<i>","UNK"}
    ret_kinds: dict = field(default_factory=dict)  # named region -> kinds of its objects held by the returned fresh object
    unresolved: int = 0

    def key(self):
        return (tuple(sorted(self.mut)), self.ret, self.ret_contains)


class Family:
    """configuration of one class family (tree / alignment / table)"""

    name = "generic"
    self_kind = "OBJ"
    # attribute name -> kinds, for receivers of the family kind
    attr_kinds: dict = {}
    # attributes whose mutation is allowed (memo caches, display policy): name -> reason
    allowed_attrs: dict = {}
    # method names that are NOT family methods even if a family class defines them, when the receiver kind is unknown
    ambiguous = CONTAINER_MUTATORS | {"copy", "index", "count", "get", "keys", "values", "items", "join", "format", "replace", "split", "sum", "take", "sort"}
    # parameter name -> kinds
    param_kinds: dict = {}
    # function names (module level) analysed with the family
    helper_functions: tuple = ()

    def __init__(self, repo, classes, module):
        self.repo = repo
        self.classes = classes  # list[ClassInfo]
        self.module = module
        self.method_names = set()
        for ci in classes:
            for c in ci.mro():
                self.method_names |= set(c.methods) | set(c.aliases)

    # hooks ---------------------------------------------------------------
    def is_ctor_expr(self, interp, func_expr):
        """return a kind string when calling func_expr constructs a family object"""
        return None

    def ctor_call(self, interp, call, kind, args, kwargs):
        """effects and result of a family constructor call; default: fresh object holding its arguments"""
        site = interp.fresh(call)
        for v in list(args) + list(kwargs.values()):
            interp.store_into({site}, v.regs)
        return Val.of([kind], [site])

    def special_attr_store(self, interp, target_val, attr, value_val, node):
        """extra effects of `x.attr = v` (e.g. a property setter); return True when fully handled"""
        return False

    def special_call(self, interp, call, recv, name, args, kwargs):
        return None


class Interp:
    """analyses one function under the current summaries"""

    def __init__(self, engine, owner, fn, is_method=True):
        self.engine = engine
        self.family = engine.family
        self.owner = owner  # ClassInfo or None
        self.fn = fn
        self.heap = {}
        self.heapk = {}
        self.events = []
        self.returns = []
        self.unresolved = 0
        self.env = {}
        ps = params_of(fn)
        a = fn.args
        self.param_index = {}
        idx = 0
        for i, p in enumerate(ps):
            if is_method and i == 0:
                self.env[p] = Val.of([self.family.self_kind], [SELF])
                continue
            self.param_index[p] = idx
            kinds = self.family.param_kinds.get(p, ())
            self.env[p] = Val.of(kinds, [f"ARG{idx}"])
            idx += 1
        if a.vararg:
            self.env[a.vararg.arg] = Val.of(["LIST"], [f"ARG{self.param_index[a.vararg.arg]}"])
        if a.kwarg:
            self.env[a.kwarg.arg] = Val.of(["DICT"], [f"ARG{self.param_index[a.kwarg.arg]}"])

    # -- heap -------------------------------------------------------------
    def fresh(self, node):
        site = f"F{getattr(node, 'lineno', 0)}:{getattr(node, 'col_offset', 0)}"
        self.heap.setdefault(site, set())
        return site

    def contents(self, regs):
        out = set()
        for t in regs:
            out.add(t)
            if t.startswith("F"):
                out |= self.heap.get(t, set())
        # one more level for nested fresh containers
        for t in list(out):
            if t.startswith("F"):
                out |= self.heap.get(t, set())
        return frozenset(out)

    def elems(self, v):
        """regions of the elements of container v: a fresh list/dict/set does not contain itself"""
        if v.kinds and v.kinds <= {"LIST", "DICT", "SET"}:
            out = set()
            for t in v.regs:
                if t.startswith("F"):
                    out |= self.heap.get(t, set())
                else:
                    out.add(t)
            # nested fresh containers: keep the inner container token, its elements are reached on the next access
            return frozenset(out)
        return self.contents(v.regs)

    def store_into(self, regs, what_regs, kinds=frozenset()):
        for t in regs:
            if t.startswith("F"):
                self.heap.setdefault(t, set()).update(what_regs)
                hk = self.heapk.setdefault(t, {})
                for w in what_regs:
                    if w == SELF or w.startswith("ARG") or w == UNK:
                        hk.setdefault(w, set()).update(kinds or {"?"})

    def stored_kinds(self, regs):
        """kinds of named-region objects held (transitively) inside the fresh objects in regs"""
        out = {}
        seen = set()
        todo = [t for t in regs if t.startswith("F")]
        while todo:
            t = todo.pop()
            if t in seen:
                continue
            seen.add(t)
            for w, ks in self.heapk.get(t, {}).items():
                out.setdefault(w, set()).update(ks)
            todo.extend(x for x in self.heap.get(t, ()) if x.startswith("F"))
        return out

    def event(self, val_or_regs, what, node, chain=()):
        regs = val_or_regs.regs if isinstance(val_or_regs, Val) else frozenset(val_or_regs)
        if regs:
            self.events.append(Event(frozenset(regs), what, getattr(node, "lineno", 0), tuple(chain)))

    # -- expressions ------------------------------------------------------
    def ev(self, e):
        if e is None:
            return BOTTOM
        m = getattr(self, "ev_" + type(e).__name__, None)
        if m is None:
            for c in ast.iter_child_nodes(e):
                if isinstance(c, ast.expr):
                    self.ev(c)
            return BOTTOM
        return m(e)

    def ev_Constant(self, e):
        return SCALAR if e.value is not None else BOTTOM

    def ev_JoinedStr(self, e):
        for v in e.values:
            if isinstance(v, ast.FormattedValue):
                self.ev(v.value)
        return Val.of(["STR"])

    def ev_Name(self, e):
        if e.id in self.env:
            return self.env[e.id]
        k = self.family.is_ctor_expr(self, e)
        if k:
            return Val.of(["CTOR:" + k])
        return BOTTOM

    def ev_Attribute(self, e):
        v = self.ev(e.value)
        return self.attr_load(v, e.attr, e)

    def attr_load(self, v, attr, node):
        fam = self.family
        if attr == "__class__" and fam.self_kind in v.kinds:
            return Val.of(["CTOR:" + fam.self_kind])
        if attr == "__dict__":
            return Val.of(["DICT"], self.contents(v.regs))
        kinds = frozenset()
        ek = frozenset()
        if fam.self_kind in v.kinds or not v.kinds:
            spec = fam.attr_kinds.get(attr, ())
            if spec and isinstance(spec[-1], tuple):
                ek = frozenset(spec[-1])
                spec = spec[:-1]
            kinds = frozenset(spec)
            # property with a getter in the family: apply its summary
            if fam.self_kind in v.kinds and attr not in getattr(fam, "memo_properties", {}):
                got = self.engine.property_getter(self.owner, attr)
                if got is not None:
                    return self.apply_summary(got, v, [], {}, node, f".{attr}")
        if "ARRAY" in v.kinds:
            if attr in ("T", "flat", "real", "imag"):
                return Val(v.kinds, v.regs)
            if attr in ("shape", "size", "ndim", "dtype", "nbytes", "itemsize"):
                return SCALAR
        if kinds and kinds <= {"STR", "SCALAR"}:
            return Val(kinds, frozenset())
        return Val(kinds, self.contents(v.regs), ek)

    def ev_Subscript(self, e):
        v = self.ev(e.value)
        self.ev(e.slice) if not isinstance(e.slice, ast.Slice) else [self.ev(x) for x in (e.slice.lower, e.slice.upper, e.slice.step)]
        kinds = frozenset()
        if "ARRAY" in v.kinds:
            kinds = frozenset(["ARRAY"])  # basic slicing aliases, fancy indexing copies: stay conservative (alias)
        elif "LIST" in v.kinds and isinstance(e.slice, ast.Slice):
            site = self.fresh(e)
            self.store_into({site}, self.elems(v) - {site})
            return Val.of(["LIST"], [site], v.ek)
        if v.kinds and v.kinds <= {"STR", "SCALAR"}:
            return Val(v.kinds, frozenset())
        if self.family.self_kind in v.kinds:
            tgt = self.engine.resolve_method(self.owner, "__getitem__")
            if tgt is not None:
                return self.apply_summary(tgt, v, [SCALAR], {}, e, f"{norm(e.value)}[...]")
        return Val(kinds | v.ek, self.elems(v))

    def ev_Slice(self, e):
        return BOTTOM

    def ev_Tuple(self, e):
        return self._container(e, "LIST")

    ev_List = ev_Tuple

    def ev_Set(self, e):
        return self._container(e, "SET")

    def _container(self, e, kind):
        site = self.fresh(e)
        ek = set()
        for x in e.elts:
            v = self.ev(x.value if isinstance(x, ast.Starred) else x)
            self.store_into({site}, self.elems(v) if isinstance(x, ast.Starred) else v.regs, v.ek if isinstance(x, ast.Starred) else v.kinds)
            ek |= v.ek if isinstance(x, ast.Starred) else v.kinds
        return Val.of([kind], [site], ek)

    def ev_Dict(self, e):
        site = self.fresh(e)
        ek = set()
        for k, v in zip(e.keys, e.values):
            if k is not None:
                self.ev(k)
            vv = self.ev(v)
            self.store_into({site}, vv.regs if k is not None else self.contents(vv.regs), vv.kinds if k is not None else vv.ek)
            ek |= vv.kinds if k is not None else vv.ek
        return Val.of(["DICT"], [site], ek)

    def ev_BinOp(self, e):
        a, b = self.ev(e.left), self.ev(e.right)
        if ("LIST" in a.kinds or "LIST" in b.kinds) and isinstance(e.op, ast.Add):
            site = self.fresh(e)
            self.store_into({site}, (self.elems(a) | self.elems(b)) - {site})
            return Val.of(["LIST"], [site], a.ek | b.ek)
        if "ARRAY" in a.kinds or "ARRAY" in b.kinds:
            return Val.of(["ARRAY"], [self.fresh(e)])
        if isinstance(e.op, ast.Mod) and ("STR" in a.kinds or isinstance(e.left, (ast.Constant, ast.JoinedStr))):
            return Val.of(["STR"])
        if a.regs or b.regs:
            # unknown operands: arithmetic/concatenation builds a new object
            site = self.fresh(e)
            self.store_into({site}, (self.contents(a.regs) | self.contents(b.regs)) - {site})
            return Val.of(a.kinds | b.kinds - {"SCALAR"}, [site]) if (a.kinds | b.kinds) - {"SCALAR", "STR"} else Val.of(a.kinds | b.kinds, [site])
        return SCALAR

    def ev_UnaryOp(self, e):
        v = self.ev(e.operand)
        if isinstance(e.op, ast.Not):
            return SCALAR
        return Val(v.kinds, frozenset([self.fresh(e)])) if v.regs else SCALAR

    def ev_BoolOp(self, e):
        out = BOTTOM
        for x in e.values:
            out = out.join(self.ev(x))
        return out

    def ev_Compare(self, e):
        self.ev(e.left)
        for c in e.comparators:
            self.ev(c)
        return SCALAR

    def ev_IfExp(self, e):
        self.ev(e.test)
        return self.ev(e.body).join(self.ev(e.orelse))

    def ev_Lambda(self, e):
        return BOTTOM

    def ev_Starred(self, e):
        return self.ev(e.value)

    def ev_NamedExpr(self, e):
        v = self.ev(e.value)
        self.bind(e.target, v)
        return v

    def ev_Await(self, e):
        return self.ev(e.value)

    def ev_Yield(self, e):
        if e.value is not None:
            self.returns.append(("yield", self.ev(e.value)))
        return BOTTOM

    def ev_YieldFrom(self, e):
        v = self.ev(e.value)
        self.returns.append(("yield", v.elem(self.elems(v))))
        return BOTTOM

    def _comp(self, e, kind, elt_exprs):
        saved = dict(self.env)
        for g in e.generators:
            it = self.ev(g.iter)
            self.bind_iter(g.target, it, g.iter)
            for c in g.ifs:
                self.ev(c)
        site = self.fresh(e)
        ek = set()
        for x in elt_exprs:
            v = self.ev(x)
            self.store_into({site}, v.regs, v.kinds)
            ek = set(v.kinds)
        self.env = saved
        return Val.of([kind], [site], ek)

    def ev_ListComp(self, e):
        return self._comp(e, "LIST", [e.elt])

    def ev_GeneratorExp(self, e):
        return self._comp(e, "LIST", [e.elt])

    def ev_SetComp(self, e):
        return self._comp(e, "SET", [e.elt])

    def ev_DictComp(self, e):
        return self._comp(e, "DICT", [e.key, e.value])

    # -- calls ------------------------------------------------------------
    def ev_Call(self, e):
        args = [self.ev(a.value if isinstance(a, ast.Starred) else a) for a in e.args]
        kwargs = {kw.arg: self.ev(kw.value) for kw in e.keywords if kw.arg}
        for kw in e.keywords:
            if kw.arg is None:
                kwargs["**"] = self.ev(kw.value)
        if "out" in kwargs:
            self.event(kwargs["out"], f"out= argument of {norm(e.func)}", e)
        f = e.func
        fam = self.family
        # family special cases first
        if isinstance(f, ast.Attribute):
            recv = self.ev(f.value) if not (isinstance(f.value, ast.Call) and call_name(f.value) == "super") else None
            name = f.attr
            if recv is None:  # super().m(...)
                tgt = self.engine.resolve_super(self.owner, self.fn, name)
                if tgt is not None:
                    return self.apply_summary(tgt, self.env.get(params_of(self.fn)[0], BOTTOM), args, kwargs, e, f"super().{name}")
                self.unresolved += 1
                return Val.of([], [UNK])
            sp = fam.special_call(self, e, recv, name, args, kwargs)
            if sp is not None:
                return sp
            if name == "__class__" and fam.self_kind in recv.kinds:
                return fam.ctor_call(self, e, fam.self_kind, args, kwargs)
            if fam.self_kind not in recv.kinds or name not in fam.method_names:
                av = self.attr_load(recv, name, f) if name in fam.attr_kinds else BOTTOM
                if any(k.startswith("CTOR:") for k in av.kinds):
                    kind = [k for k in av.kinds if k.startswith("CTOR:")][0][5:]
                    return fam.ctor_call(self, e, kind, args, kwargs)
            return self.method_call(e, recv, name, args, kwargs)
        if isinstance(f, ast.Name):
            cn = f.id
            fv = self.env.get(cn)
            if fv is not None and any(k.startswith("CTOR:") for k in fv.kinds):
                kind = [k for k in fv.kinds if k.startswith("CTOR:")][0][5:]
                return fam.ctor_call(self, e, kind, args, kwargs)
            k = fam.is_ctor_expr(self, f)
            if k:
                return fam.ctor_call(self, e, k, args, kwargs)
            if cn in fam.helper_functions:
                tgt = self.engine.helper(cn)
                if tgt is not None:
                    return self.apply_summary(tgt, None, args, kwargs, e, cn)
            return self.builtin_call(e, cn, args, kwargs)
        # calls of call results / subscripts: type(x)(...), x.__class__(...)
        if isinstance(f, ast.Call) and call_name(f) == "type" and f.args:
            v = self.ev(f.args[0])
            if fam.self_kind in v.kinds:
                return fam.ctor_call(self, e, fam.self_kind, args, kwargs)
        fv = self.ev(f)
        if any(k.startswith("CTOR:") for k in fv.kinds):
            kind = [k for k in fv.kinds if k.startswith("CTOR:")][0][5:]
            return fam.ctor_call(self, e, kind, args, kwargs)
        self.unresolved += 1
        return Val.of([], [UNK])

    def builtin_call(self, e, cn, args, kwargs):
        if cn in ("setattr", "delattr") and args:
            attr = e.args[1].value if len(e.args) > 1 and isinstance(e.args[1], ast.Constant) else None
            if attr is None or attr not in self.family.allowed_attrs:
                self.event(args[0], f"{cn}({norm(e.args[0])}, {norm(e.args[1]) if len(e.args) > 1 else ''})", e)
            return BOTTOM
        if cn == "getattr" and args:
            return Val(frozenset(), self.contents(args[0].regs))
        if cn in ("deepcopy",):
            return Val(args[0].kinds if args else frozenset(), frozenset([self.fresh(e)]), args[0].ek if args else frozenset())
        if cn == "copy" and args:
            site = self.fresh(e)
            self.store_into({site}, self.contents(args[0].regs) - {site})
            return Val(args[0].kinds, frozenset([site]), args[0].ek)
        if cn == "map" and len(args) >= 2 and isinstance(e.args[0], (ast.Attribute, ast.Name)):
            # map(f, items): call f on the elements
            elem = args[1].elem(self.elems(args[1]))
            fake = ast.Call(func=e.args[0], args=[], keywords=[])
            ast.copy_location(fake, e)
            res = self._call_with(fake, [elem], {})
            site = self.fresh(e)
            self.store_into({site}, res.regs)
            return Val.of(["LIST"], [site], res.kinds)
        if cn in FRESH_BUILTINS:
            site = self.fresh(e)
            ek = set()
            for a in args:
                self.store_into({site}, self.elems(a) - {site}, a.ek)
                ek |= a.ek
            kind = {"dict": "DICT", "set": "SET", "frozenset": "SET", "defaultdict": "DICT", "OrderedDict": "DICT", "Counter": "DICT"}.get(cn, "LIST")
            if cn in ("zip", "enumerate"):
                ek = {"LIST"}
            return Val.of([kind], [site], ek)
        if cn in SCALAR_BUILTINS:
            if cn == "next" and args:
                return args[0].elem(self.elems(args[0]))
            return SCALAR
        self.unresolved += 1
        regs = set()
        return Val.of([], [UNK])

    def _call_with(self, call, args, kwargs):
        """evaluate `call.func` applied to already evaluated arguments"""
        f = call.func
        if isinstance(f, ast.Attribute):
            recv = self.ev(f.value)
            sp = self.family.special_call(self, call, recv, f.attr, args, kwargs)
            if sp is not None:
                return sp
            return self.method_call(call, recv, f.attr, args, kwargs)
        if isinstance(f, ast.Name):
            if f.id in self.family.helper_functions:
                tgt = self.engine.helper(f.id)
                if tgt is not None:
                    return self.apply_summary(tgt, None, args, kwargs, call, f.id)
            return self.builtin_call(call, f.id, args, kwargs)
        self.unresolved += 1
        return Val.of([], [UNK])

    def method_call(self, e, recv, name, args, kwargs):
        fam = self.family
        kinds = recv.kinds
        is_family = fam.self_kind in kinds
        container = kinds & {"LIST", "DICT", "SET"}
        # numpy module functions: numpy.put(arr, ...), numpy.array(...)
        if isinstance(e.func, ast.Attribute) and isinstance(e.func.value, ast.Name) and e.func.value.id in ("numpy", "np"):
            if name in NUMPY_INPLACE_FUNCS and args:
                self.event(args[0], f"numpy.{name}({norm(e.args[0])}, ...)", e)
                return BOTTOM
            return Val.of(["ARRAY"], [self.fresh(e)])
        if isinstance(e.func, ast.Attribute) and norm(e.func.value) in ("numpy.random", "np.random", "random") and name == "shuffle" and args:
            self.event(args[0], f"{norm(e.func)}({norm(e.args[0])})", e)
            return BOTTOM
        if isinstance(e.func, ast.Attribute) and norm(e.func.value) in ("copy",) and name in ("copy", "deepcopy") and args:
            return self.builtin_call(e, name, args, kwargs)
        if is_family or (not kinds and name in fam.method_names and name not in fam.ambiguous):
            tgt = self.engine.resolve_method(self.owner, name)
            if tgt is not None:
                return self.apply_summary(tgt, recv, args, kwargs, e, f"{norm(e.func)}")
        if "ARRAY" in kinds:
            if name in ARRAY_INPLACE:
                self.event(recv, f"{norm(e.func)}(...) (in-place ndarray method)", e)
                return BOTTOM
            if name in ARRAY_ALIAS:
                return recv
            return Val.of(["ARRAY"], [self.fresh(e)])
        if container or (not kinds and name in CONTAINER_MUTATORS):
            if name in CONTAINER_MUTATORS:
                if container or recv.regs:
                    self.event(recv, f"{norm(e.func)}(...)", e)
                if name in CONTAINER_STORES:
                    for a in list(args) + list(kwargs.values()):
                        self.store_into(recv.regs, self.elems(a) if name in ("extend", "update") else a.regs, a.ek if name in ("extend", "update") else a.kinds)
                if name in CONTAINER_STORES:
                    add = set()
                    for a in list(args) + list(kwargs.values()):
                        add |= a.ek if name in ("extend", "update") else a.kinds
                    self.widen_ek(e.func.value, recv, add)
                if name in ("pop", "popitem", "popleft", "setdefault"):
                    return recv.elem(self.elems(recv))
                return BOTTOM
        if name in CONTAINER_PURE_FRESH and (container or not kinds):
            site = self.fresh(e)
            self.store_into({site}, self.elems(recv) - {site})
            return Val(kinds or frozenset(), frozenset([site]), recv.ek)
        if name in CONTAINER_PURE_ELEM:
            return recv.elem(self.elems(recv))
        if name in CONTAINER_PURE_SCALAR or (kinds and kinds <= {"STR", "SCALAR"}):
            return SCALAR
        self.unresolved += 1
        return Val.of([], [UNK])

    # -- summaries --------------------------------------------------------
    def apply_summary(self, tgt, recv, args, kwargs, node, label):
        owner, fn, is_method = tgt
        summ = self.engine.summary(owner, fn, is_method)
        ps = params_of(fn)
        pnames = ps[1:] if is_method else ps
        a = fn.args
        # map call arguments to parameter positions
        argvals = {}
        for i, v in enumerate(args):
            if i < len(pnames):
                argvals[i] = argvals.get(i, BOTTOM).join(v)
            elif a.vararg:
                vi = pnames.index(a.vararg.arg)
                argvals[vi] = argvals.get(vi, BOTTOM).join(v)
        for k, v in kwargs.items():
            if k in pnames:
                argvals[pnames.index(k)] = v
            elif a.kwarg and k != "**":
                ki = pnames.index(a.kwarg.arg)
                argvals[ki] = argvals.get(ki, BOTTOM).join(v)

        def mapped(tok):
            star = tok.endswith(".*")
            base = tok[:-2] if star else tok
            if base == SELF:
                regs = recv.regs if recv is not None else frozenset()
            elif base.startswith("ARG"):
                regs = argvals.get(int(base[3:]), BOTTOM).regs
            else:
                regs = frozenset([base])
            return self.contents(regs) - (regs if False else frozenset()) if star else regs

        for tok, (what, line, chain) in summ.mut.items():
            regs = mapped(tok)
            if tok.endswith(".*"):
                # contents only: for a fresh container the container itself is not what is mutated
                base_regs = mapped(tok[:-2])
                regs = frozenset(t for t in self.contents(base_regs) if t not in base_regs or not t.startswith("F"))
            if regs:
                self.events.append(Event(frozenset(regs), what, line, ((label, getattr(node, "lineno", 0)),) + tuple(chain)))
        out_regs = set()
        site = None
        for t in summ.ret.regs:
            if t == "FRESH":
                site = site or self.fresh(node)
                out_regs.add(site)
            else:
                out_regs |= mapped(t)
        if site is not None:
            for t in summ.ret_contains:
                self.store_into({site}, mapped(t), frozenset(summ.ret_kinds.get(t, ())))
        return Val(summ.ret.kinds, frozenset(out_regs), summ.ret.ek)

    # -- statements -------------------------------------------------------
    def bind(self, target, val):
        if isinstance(target, ast.Name):
            self.env[target.id] = val
        elif isinstance(target, (ast.Tuple, ast.List)):
            elem = val.elem(self.elems(val))
            for t in target.elts:
                self.bind(t.value if isinstance(t, ast.Starred) else t, elem)
        elif isinstance(target, ast.Attribute):
            owner = self.ev(target.value)
            if target.attr in self.family.allowed_attrs and (self.family.self_kind in owner.kinds or not owner.kinds):
                return
            if not self.family.special_attr_store(self, owner, target.attr, val, target):
                self.event(owner, f"{norm(target)} = ...", target)
            self.store_into(owner.regs, val.regs, val.kinds)
        elif isinstance(target, ast.Subscript):
            owner = self.ev(target.value)
            self.ev(target.slice) if not isinstance(target.slice, ast.Slice) else None
            if isinstance(target.value, ast.Attribute) and target.value.attr in self.family.allowed_attrs:
                return
            self.event(owner, f"{norm(target)} = ...", target)
            self.store_into(owner.regs, val.regs, val.kinds)

    def bind_iter(self, target, it, iter_expr):
        elem = it.elem(self.elems(it))
        if self.family.self_kind in it.kinds:
            # iterating a family object: __iter__
            tgt = self.engine.resolve_method(self.owner, "__iter__")
            if tgt is not None:
                r = self.apply_summary(tgt, it, [], {}, iter_expr, f"iter({norm(iter_expr)})")
                elem = r.elem(self.elems(r))
        if isinstance(target, ast.Name):
            self.bind(target, elem)
        else:
            # tuple target: elements of the element (e.g. for k, v in d.items())
            self.bind(target, Val(frozenset(["LIST"]), elem.regs, elem.kinds - {"LIST"}))

    def widen_ek(self, expr, recv, add):
        """remember element kinds appended to a local container"""
        if isinstance(expr, ast.Name) and expr.id in self.env and add:
            cur = self.env[expr.id]
            self.env[expr.id] = Val(cur.kinds, cur.regs, cur.ek | frozenset(add))

    def join_env(self, a, b):
        out = dict(a)
        for k, v in b.items():
            out[k] = out[k].join(v) if k in out else v
        return out

    def run_body(self, body):
        for st in body:
            self.stmt(st)

    def stmt(self, st):
        if isinstance(st, ast.Expr):
            self.ev(st.value)
        elif isinstance(st, ast.Assign):
            v = self.ev(st.value)
            for t in st.targets:
                self.bind(t, v)
        elif isinstance(st, ast.AnnAssign):
            if st.value is not None:
                self.bind(st.target, self.ev(st.value))
        elif isinstance(st, ast.AugAssign):
            v = self.ev(st.value)
            if isinstance(st.target, ast.Name):
                cur = self.env.get(st.target.id, BOTTOM)
                if cur.kinds & {"ARRAY", "LIST", "SET", "DICT"}:
                    self.event(cur, f"{norm(st.target)} {_op(st.op)}= ... (in place)", st)
                    self.store_into(cur.regs, self.contents(v.regs))
                elif cur.regs and not cur.kinds:
                    # unknown kind: rebinding for numbers/strings, in place for arrays/lists -- undecidable here
                    self.unresolved += 1
                    self.env[st.target.id] = cur.join(v)
            else:
                self.bind(st.target, v)
        elif isinstance(st, ast.Return):
            if st.value is not None:
                self.returns.append(("return", self.ev(st.value)))
        elif isinstance(st, ast.If):
            self.ev(st.test)
            saved = dict(self.env)
            self.run_body(st.body)
            a = self.env
            self.env = dict(saved)
            self.run_body(st.orelse)
            self.env = self.join_env(a, self.env)
        elif isinstance(st, (ast.For, ast.AsyncFor)):
            it = self.ev(st.iter)
            for _ in range(2):
                saved = dict(self.env)
                self.bind_iter(st.target, it, st.iter)
                self.run_body(st.body)
                self.env = self.join_env(saved, self.env)
            self.run_body(st.orelse)
        elif isinstance(st, ast.While):
            for _ in range(2):
                saved = dict(self.env)
                self.ev(st.test)
                self.run_body(st.body)
                self.env = self.join_env(saved, self.env)
            self.run_body(st.orelse)
        elif isinstance(st, ast.Try):
            saved = dict(self.env)
            self.run_body(st.body)
            after = self.env
            for h in st.handlers:
                self.env = self.join_env(saved, after)
                if h.name:
                    self.env[h.name] = BOTTOM
                self.run_body(h.body)
                after = self.join_env(after, self.env)
            self.env = after
            self.run_body(st.orelse)
            self.run_body(st.finalbody)
        elif isinstance(st, (ast.With, ast.AsyncWith)):
            for it in st.items:
                v = self.ev(it.context_expr)
                if it.optional_vars is not None:
                    self.bind(it.optional_vars, Val(frozenset(), v.regs | {UNK}))
            self.run_body(st.body)
        elif isinstance(st, ast.Delete):
            for t in st.targets:
                if isinstance(t, (ast.Attribute, ast.Subscript)):
                    owner = self.ev(t.value)
                    if isinstance(t, ast.Attribute) and t.attr in self.family.allowed_attrs:
                        continue
                    if isinstance(t, ast.Subscript) and isinstance(t.value, ast.Attribute) and t.value.attr in self.family.allowed_attrs:
                        continue
                    # `del node[i]` on a family object: __delitem__
                    if isinstance(t, ast.Subscript) and self.family.self_kind in owner.kinds:
                        tgt = self.engine.resolve_method(self.owner, "__delitem__")
                        if tgt is not None:
                            self.apply_summary(tgt, owner, [SCALAR], {}, t, f"del {norm(t)}")
                            continue
                    self.event(owner, f"del {norm(t)}", t)
                elif isinstance(t, ast.Name):
                    self.env.pop(t.id, None)
        elif isinstance(st, (ast.Assert,)):
            self.ev(st.test)
        elif isinstance(st, ast.Raise):
            self.ev(st.exc) if st.exc is not None else None
        elif isinstance(st, (ast.FunctionDef, ast.AsyncFunctionDef)):
            # nested function: analysed inline when called by name is out of reach; treat as a helper closed over env
            self.env[st.name] = BOTTOM
            self.engine.nested.append((self, st))
        elif hasattr(ast, "Match") and isinstance(st, ast.Match):
            self.ev(st.subject)
            saved = dict(self.env)
            out = dict(saved)
            for c in st.cases:
                self.env = dict(saved)
                self.run_body(c.body)
                out = self.join_env(out, self.env)
            self.env = out

    def run(self):
        self.run_body(self.fn.body)
        return self.summarise()

    def summarise(self):
        s = Summary(unresolved=self.unresolved)
        for ev in self.events:
            toks = ev.tokens
            named = {t for t in toks if t == SELF or t.startswith("ARG")}
            fresh_only = all(t.startswith("F") for t in toks)
            if fresh_only or not named:
                continue
            # definite only when every token is the same named region
            if len(named) == 1 and all(t in named or t.startswith("F") for t in toks) and not any(t == UNK for t in toks):
                if any(t.startswith("F") for t in toks):
                    continue  # may be the fresh object: not definite
                tok = next(iter(named))
                if tok not in s.mut:
                    s.mut[tok] = (ev.what, ev.line, ev.chain)
        ret = BOTTOM
        contains = set()
        for kind, v in self.returns:
            if kind == "yield":
                # a generator: a fresh iterable holding what is yielded
                ret = ret.join(Val.of(["LIST"], ["FRESH"], v.kinds))
                for c in self.contents(v.regs):
                    if c == SELF or c.startswith("ARG") or c == UNK:
                        contains.add(c)
                continue
            regs = set()
            for t in v.regs:
                if t.startswith("F"):
                    regs.add("FRESH")
                    for c in self.contents({t}):
                        if c == SELF or c.startswith("ARG") or c == UNK:
                            contains.add(c)
                else:
                    regs.add(t)
            ret = ret.join(Val(v.kinds, frozenset(regs), v.ek))
        s.ret = ret
        s.ret_contains = frozenset(contains)
        rk = {}
        for kind, v in self.returns:
            for w, ks in self.stored_kinds(v.regs).items():
                rk.setdefault(w, set()).update(ks)
        s.ret_kinds = rk
        return s


def _op(op):
    return {ast.Add: "+", ast.Sub: "-", ast.Mult: "*", ast.Div: "/", ast.BitOr: "|", ast.BitAnd: "&", ast.FloorDiv: "//", ast.Mod: "%", ast.Pow: "**", ast.MatMult: "@"}.get(type(op), "?")


class Engine:
    def __init__(self, family):
        self.family = family
        self.summaries = {}
        self.interps = {}
        self.nested = []
        self._changed = False

    # resolution -----------------------------------------------------------
    def resolve_method(self, owner, name):
        ci = owner or self.family.classes[0]
        r = ci.resolve(name)
        if r and isinstance(r[1], (ast.FunctionDef, ast.AsyncFunctionDef)):
            return (r[0], r[1], True)
        return None

    def resolve_super(self, owner, fn, name):
        if owner is None:
            return None
        # find the class defining fn in owner's MRO, then continue after it
        mro = owner.mro()
        start = 0
        for i, c in enumerate(mro):
            if fn in c.methods.values():
                start = i + 1
                break
        for c in mro[start:]:
            if name in c.methods:
                return (c, c.methods[name], True)
        return None

    def property_getter(self, owner, attr):
        ci = owner or self.family.classes[0]
        r = ci.resolve_property(attr)
        if r and r[1].get("get") is not None:
            return (r[0], r[1]["get"], True)
        return None

    def property_setter(self, owner, attr):
        ci = owner or self.family.classes[0]
        r = ci.resolve_property(attr)
        if r and r[1].get("set") is not None:
            return (r[0], r[1]["set"], True)
        return None

    def helper(self, name):
        fn = self.family.module.functions.get(name)
        if fn is not None:
            return (None, fn, False)
        return None

    # summaries ------------------------------------------------------------
    def summary(self, owner, fn, is_method=True):
        k = (id(fn), owner.fq if owner is not None else None)
        if k not in self.summaries:
            self.summaries[k] = Summary()
            self._todo.append((owner, fn, is_method))
        return self.summaries[k]

    def analyse(self, roots, max_iter=12):
        """roots: [(owner ClassInfo, fn, is_method)].
        Phase 1: returned regions / contents to their least fix-point (monotone, accumulated).
        Phase 2: with those fixed, mutation effects from bottom to their least fix-point -- a stale
        effect can then never justify itself through recursion."""
        self._todo = list(roots)
        for r in roots:
            k = (id(r[1]), r[0].fq if r[0] is not None else None)
            self.summaries.setdefault(k, Summary())
        known = {}
        self.iterations = 0
        for phase in (1, 2):
            if phase == 2:
                for summ in self.summaries.values():
                    summ.mut = {}
            for it in range(max_iter):
                self.iterations += 1
                changed = False
                for o, f, m in self._todo:
                    known[(o.fq if o else None, id(f))] = (o, f, m)
                self._todo = []
                for (o, f, m) in list(known.values()):
                    interp = Interp(self, o, f, m)
                    new = interp.run()
                    k = (id(f), o.fq if o is not None else None)
                    old = self.summaries.get(k) or Summary()
                    if phase == 1:
                        ret = new.ret.join(old.ret)
                        contains = new.ret_contains | old.ret_contains
                        if ret != old.ret or contains != old.ret_contains:
                            changed = True
                        old.ret, old.ret_contains = ret, contains
                        for w, ks in new.ret_kinds.items():
                            if not ks <= old.ret_kinds.get(w, set()):
                                changed = True
                            old.ret_kinds.setdefault(w, set()).update(ks)
                        old.mut = new.mut
                    else:
                        merged = dict(old.mut)
                        for t, w in new.mut.items():
                            merged.setdefault(t, w)
                        if set(merged) != set(old.mut):
                            changed = True
                        old.mut = merged
                    old.unresolved = new.unresolved
                    self.summaries[k] = old
                    self.interps[k] = interp
                if not changed and not self._todo:
                    break
        return self.summaries
