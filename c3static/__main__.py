"""CLI:  python -m c3static check <id> [--tier quick|thorough] [--root /repo]
         python -m c3static replay <file>
         python -m c3static selftest [<id> ...]
Exit status: 0 held (maybe with KNOWN-FINDING lines), 1 violation, 2 analysis error."""

from __future__ import annotations

import argparse
import importlib
import json
import os
import sys
import traceback

from .index import AnalysisError
from .report import Check

CLAIMED = ["C01", "C02", "C03", "C04", "C05", "C06", "C07", "C09", "C10", "C11", "C12", "C13", "C14", "C15", "C16", "C17", "C19", "C20"]


def run_check(pid: str, tier: str, root: str, write=True, quiet=False) -> int:
    seed = int(os.environ.get("VERIF_SEED", "0") or 0)
    try:
        mod = importlib.import_module(f"c3static.rules.{pid.lower()}")
    except ImportError as e:
        print(f"ANALYSIS-ERROR property={pid} no rule module: {e}")
        return 2
    chk = Check(pid, tier=tier, root=root, seed=seed, write=write)
    try:
        mod.run(chk)
    except AnalysisError as e:
        chk.errors.append(str(e))
    except Exception:  # a traceback is an analysis error, never a violation
        chk.errors.append("internal error: " + traceback.format_exc().replace("\n", " | "))
    st = 0
    if tier == "thorough" and os.environ.get("C3STATIC_NO_SELFTEST") != "1" and root == "/repo":
        # both-ways self-test of this property's rules (one-edit variants on a scratch overlay)
        from . import selftest

        st = selftest.run_selftest([pid])
        chk.extra["selftest"] = selftest.LAST_STATS
        chk.t0 -= 0  # wall time includes the self-test
    rc = chk.finish()
    if rc == 0 and st != 0:
        print(f"ANALYSIS-ERROR property={pid} checker self-test failed (a seeded one-edit variant was missed or a behaviour-preserving twin was flagged)")
        return 2
    return rc


def main(argv=None) -> int:
    ap = argparse.ArgumentParser(prog="c3static")
    sub = ap.add_subparsers(dest="cmd", required=True)
    c = sub.add_parser("check")
    c.add_argument("pid")
    c.add_argument("--tier", default=os.environ.get("VERIF_TIER", "quick"), choices=["quick", "thorough"])
    c.add_argument("--root", default="/repo")
    c.add_argument("--no-write", action="store_true")
    r = sub.add_parser("replay")
    r.add_argument("path")
    s = sub.add_parser("selftest")
    s.add_argument("pids", nargs="*")
    s.add_argument("-v", action="store_true")
    args = ap.parse_args(argv)
    if args.cmd == "check":
        return run_check(args.pid.upper(), args.tier, args.root, write=not args.no_write)
    if args.cmd == "replay":
        data = json.loads(open(args.path).read())
        print(f"replaying {data['property_id']} ({len(data['violations'])} recorded violation(s)); re-running the rule on {data['root']}")
        for v in data["violations"]:
            print(f"  recorded: {v['rule']} at {v['where']}: {v['detail']}")
        return run_check(data["property_id"], data.get("tier", "quick"), data["root"], write=False)
    if args.cmd == "selftest":
        from .selftest import run_selftest

        return run_selftest([p.upper() for p in args.pids] or None, verbose=args.v)
    return 2


if __name__ == "__main__":
    try:
        rc = main()
    except SystemExit:
        raise
    except Exception:
        print("ANALYSIS-ERROR " + traceback.format_exc().replace("\n", " | "))
        rc = 2
    sys.exit(rc)
