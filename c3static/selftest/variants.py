"""One-edit variants for the both-ways self-test.

kind "break": the edit breaks rule `expect` (and the behaviour behind it) while the
file still compiles; the report must contain `names`.
kind "twin": behaviour-preserving edit; the property's rules must stay silent."""

VARIANTS = []


def brk(pid, name, expect, edits, names=None, error_ok=False):
    VARIANTS.append({"pid": pid, "name": name, "kind": "break", "expect": expect, "edits": edits, "names": names, "error_ok": error_ok})


def twin(pid, name, edits):
    VARIANTS.append({"pid": pid, "name": name, "kind": "twin", "edits": edits})


# ---------------------------------------------------------------- C12
brk("C12", "old-table-transpose", "R12.1", [("core/genetic_code.py", '"FFLLSSSSYY**CCWWLLLLPPPPHHQQRRRRIIMMTTTTNNKKSSGGVVVVAAAADDEEGGGG"', '"FFLLSSSSYY**CCWWLLLLPPPPHHQQRRRRIIMMTTTTNNKKSSGGVVVVAAAAEDDEGGGG"')], names="id=13")
brk("C12", "both-tables-same-error", "R12.1", [
    ("core/genetic_code.py", '"FFLLSSSSYY**CCGWLLLLPPPPHHQQRRRRIIIMTTTTNNKKSSRRVVVVAAAADDEEGGGG"', '"FFLLSSSSYY**CCAWLLLLPPPPHHQQRRRRIIIMTTTTNNKKSSRRVVVVAAAADDEEGGGG"'),
    ("core/new_genetic_code.py", '"FFLLSSSSYY**CCGWLLLLPPPPHHQQRRRRIIIMTTTTNNKKSSRRVVVVAAAADDEEGGGG"', '"FFLLSSSSYY**CCAWLLLLPPPPHHQQRRRRIIIMTTTTNNKKSSRRVVVVAAAADDEEGGGG"'),
], names="id=25")
brk("C12", "bases-order", "R12.2", [("core/genetic_code.py", '_bases = "TCAG"', '_bases = "TCGA"')], names="_nt")
brk("C12", "new-chars-order", "R12.2", [("core/new_moltype.py", 'IUPAC_DNA_chars = "T", "C", "A", "G"', 'IUPAC_DNA_chars = "T", "C", "G", "A"')], names="IUPAC_DNA_chars")
brk("C12", "complement-swap", "R12.3", [("core/new_moltype.py", '    "V": "B",\n    "B": "V",\n    "H": "D",\n    "D": "H",\n    "?": "?",\n}\n\nIUPAC_DNA_complements', '    "V": "D",\n    "B": "H",\n    "H": "B",\n    "D": "V",\n    "?": "?",\n}\n\nIUPAC_DNA_complements')], names="symbol V")
brk("C12", "new-drop-trim-forward", "R12.6", [("core/new_alignment.py", "                include_stop=include_stop,\n                trim_stop=trim_stop,\n", "                include_stop=include_stop,\n")], names="forwards trim_stop")
brk("C12", "old-collection-guard", "R12.5", [("core/alignment.py", "        if trim_stop and not include_stop:\n            seqs = self.trim_stop_codons(gc=gc, strict=not incomplete_ok)", "        if trim_stop or not include_stop:\n            seqs = self.trim_stop_codons(gc=gc, strict=not incomplete_ok)")], names="_SequenceCollectionBase.get_translation")
brk("C12", "dead-strict", "R12.4", [("core/new_sequence.py", "        if not self.has_terminal_stop(gc=gc, strict=strict):\n            return self\n\n        gc = new_genetic_code.get_code(gc)", "        if not self.has_terminal_stop(gc=gc):\n            return self\n\n        gc = new_genetic_code.get_code(gc)")], names="option strict")
brk("C12", "stop-guard-inverted", "R12.7", [("core/new_sequence.py", 'if not include_stop and "*" in pep:', 'if include_stop and "*" in pep:')], names="stop guard")
twin("C12", "guard-respelled", [("core/alignment.py", "        if trim_stop and not include_stop:\n            seqs = self.trim_stop_codons(gc=gc, strict=not incomplete_ok)\n        else:\n            seqs = self", "        if include_stop or not trim_stop:\n            seqs = self\n        else:\n            seqs = self.trim_stop_codons(gc=gc, strict=not incomplete_ok)")])
twin("C12", "table-as-tuple", [("core/genetic_code.py", 'IUPAC_DNA_chars', 'IUPAC_DNA_chars')] if False else [("core/moltype.py", 'IUPAC_DNA_chars = ["T", "C", "A", "G"]', 'IUPAC_DNA_chars = list("TCAG")')])

# revert of the repo fix 63a159b8f
brk("C12", "aln-drop-trim-forward", "R12.6", [("core/alignment.py", "                include_stop=include_stop,\n                trim_stop=trim_stop,\n            )\n            translated.append((seqname, pep))\n        kwargs[\"moltype\"] = pep.moltype\n        return self.__class__(translated, info=self.info, **kwargs)\n\n\ndef _one_length", "                include_stop=include_stop,\n            )\n            translated.append((seqname, pep))\n        kwargs[\"moltype\"] = pep.moltype\n        return self.__class__(translated, info=self.info, **kwargs)\n\n\ndef _one_length")], names="AlignmentI.get_translation")

# ---------------------------------------------------------------- C17
brk("C17", "overlap-ge", "R17.1", [("core/annotation_db.py", 'f"(start <= {start} AND stop > {start})",  # straddles beginning', 'f"(start <= {start} AND stop >= {start})",  # straddles beginning')], names="partial")
brk("C17", "within-strict", "R17.1", [("core/annotation_db.py", 'cond = f"start >= {start} AND stop <= {stop}"', 'cond = f"start >= {start} AND stop < {stop}"')], names="within")
brk("C17", "drop-straddle-stop", "R17.1", [("core/annotation_db.py", '                f"(start < {stop} AND stop >= {stop})",  # straddles stop of segment\n', '')], names="partial")
brk("C17", "only-start-closed", "R17.1", [("core/annotation_db.py", 'cond = f"(start <= {start} AND {start} < stop)"', 'cond = f"(start <= {start} AND {start} <= stop)"')], names="only-start")
brk("C17", "empty-conds-revert", "R17.1", [("core/annotation_db.py", '        if conds:\n            sql.append(" AND ".join(conds))', '        sql.append(" AND ".join(conds))')], names="None-valued")
brk("C17", "allow-partial-dropped", "R17.2", [("core/annotation_db.py", "    where, vals = _matching_conditions(\n        conditions=conditions, allow_partial=allow_partial\n    )\n    columns =", "    where, vals = _matching_conditions(conditions=conditions)\n    columns =")], names="_select_records_sql")
brk("C17", "allow-partial-not-forwarded", "R17.2", [("core/annotation_db.py", "            columns=columns,\n            allow_partial=allow_partial,\n        )\n        yield from", "            columns=columns,\n        )\n        yield from")], names="_get_records_matching")
brk("C17", "update-spans-only", "R17.3", [("core/annotation_db.py", 'cmnd="UPDATE gff SET spans = ?, start = ?, stop = ? WHERE name = ?",\n            values=(old_spans, int(old_spans.min()), int(old_spans.max()), name),', 'cmnd="UPDATE gff SET spans = ? WHERE name = ?",\n            values=(old_spans, name),')], names="update_record_spans")
brk("C17", "gb-stop-from-min", "R17.3", [("core/annotation_db.py", 'store["stop"] = int(store["spans"].max())', 'store["stop"] = int(store["spans"].min())')], names="GenbankAnnotationDb.add_records")
brk("C17", "gff-start-dropped", "R17.3", [("core/annotation_db.py", '            record["start"] = int(spans.min())\n', '')], names="GffAnnotationDb.add_records")
brk("C17", "gff-off-by-one", "R17.4", [("parse/gff.py", "start, end = int(start) - 1, int(end)", "start, end = int(start), int(end)")], names="start offset")
brk("C17", "gb-stop-closed", "R17.4", [("parse/genbank.py", "return sorted((i.start, i.stop + 1) for i in self)", "return sorted((i.start, i.stop) for i in self)")], names="get_coordinates")
brk("C17", "gb-start-1based", "R17.4", [("parse/genbank.py", '        """Returns first base self could be."""\n        try:\n            return int(self._data) - 1', '        """Returns first base self could be."""\n        try:\n            return int(self._data)')], names="Location.start")
twin("C17", "overlap-canonical", [("core/annotation_db.py", '''            cond = [
                f"(start >= {start} AND stop <= {stop})",  # lies within the segment
                f"(start <= {start} AND stop > {start})",  # straddles beginning of segment
                f"(start < {stop} AND stop >= {stop})",  # straddles stop of segment
                f"(start <= {start} AND stop >= {stop})",  # includes segment
            ]
            cond = " OR ".join(cond)''', '''            cond = f"start < {stop} AND stop > {start}"''')])
twin("C17", "gff-offset-respelled", [("parse/gff.py", "start, end = int(start) - 1, int(end)", "start = int(start)\n        end = int(end)\n        start = start - 1")])

# ---------------------------------------------------------------- C19
brk("C19", "unlink-then-rename", "R19.1", [("util/io.py", "        src.replace(dest)\n        shutil.rmtree(src.parent)", "        try:\n            dest.unlink()\n        except FileNotFoundError:\n            pass\n        finally:\n            src.rename(dest)\n\n        shutil.rmtree(src.parent)")], names="dest.unlink()")
brk("C19", "missing-ok-unlink", "R19.1", [("util/io.py", "        src.replace(dest)\n        shutil.rmtree(src.parent)", "        dest.unlink(missing_ok=True)\n        src.rename(dest)\n        shutil.rmtree(src.parent)")], names="dest.unlink")
brk("C19", "tmpdir-not-removed", "R19.1", [("util/io.py", "        src.replace(dest)\n        shutil.rmtree(src.parent)", "        src.replace(dest)")], names="temp dir")
brk("C19", "handler-unlinks", "R19.2", [("format/alignment.py", "        write_alignment_to_file(f, alignment, format, **kw)\n", "        try:\n            write_alignment_to_file(f, alignment, format, **kw)\n        except Exception:\n            import os\n            os.remove(filename)\n            raise\n")], names="save_to_filename")
brk("C19", "tree-handler-unlinks", "R19.2", [("core/tree.py", "        with atomic_write(filename, mode=\"wt\") as outf:\n            outf.writelines(data)", "        try:\n            with atomic_write(filename, mode=\"wt\") as outf:\n                outf.writelines(data)\n        except OSError:\n            Path(filename).unlink(missing_ok=True)\n            raise")], names="TreeNode.write")
brk("C19", "table-bare-atomic-write", "R19.3", [("util/table.py", "        with atomic_write(filename, mode=mode) as outfile:\n            if writer:", "        outfile = atomic_write(filename, mode=mode)\n        if True:\n            if writer:")], names="Table.write")
brk("C19", "dictarray-bare", "R19.3", [("util/dict_array.py", "        with atomic_write(path, mode=\"wt\") as outfile:\n            outfile.write(data)", "        outfile = atomic_write(path, mode=\"wt\")\n        outfile.write(data)\n        outfile.close()")], names="DictArray.write")
brk("C19", "exit-commits-on-error", "R19.3", [("util/io.py", "        if exc_type is None:\n            self._close_func(self._tmppath)", "        if exc_type is None or True:\n            self._close_func(self._tmppath)")], names="commit only on success")
brk("C19", "exit-no-cleanup", "R19.3", [("util/io.py", "            self.succeeded = False\n            shutil.rmtree(self._tmppath.parent)", "            self.succeeded = False")], names="cleanup on failure")
brk("C19", "json-direct-open", "R19.4", [("core/tree.py", "            with atomic_write(filename, mode=\"wt\") as f:\n                f.write(self.to_json())\n            return\n\n        xml =", "            with open(filename, \"w\") as f:\n                f.write(self.to_json())\n            return\n\n        xml =")], names="TreeNode.write")
brk("C19", "resume-skip-removed", "R19.5", [("app/composable.py", "        if input_id in self.data_store:\n            # we are assuming that this query returns True only when\n            # an input_id is completed, we will not hit this if not_completed\n            continue\n", "")], names="resume skip")
brk("C19", "resume-skip-after-insert", "R19.5", [("app/composable.py", "        if input_id in self.data_store:\n            # we are assuming that this query returns True only when\n            # an input_id is completed, we will not hit this if not_completed\n            continue\n        inputs[input_id] = m", "        inputs[input_id] = m\n        if input_id in self.data_store:\n            continue")], names="resume skip")
brk("C19", "schedules-raw-input", "R19.5", [("app/composable.py", "    inputs = _proxy_input(inputs.values())\n    for result in self.as_completed(\n        inputs,", "    inputs = _proxy_input(inputs.values())\n    for result in self.as_completed(\n        dstore,")], names="schedules")
twin("C19", "bare-with-finally-exit", [("util/dict_array.py", "        with atomic_write(path, mode=\"wt\") as outfile:\n            outfile.write(data)", "        aw = atomic_write(path, mode=\"wt\")\n        with aw as outfile:\n            outfile.write(data)")])
twin("C19", "os-replace", [("util/io.py", "        src.replace(dest)\n", "        import os\n\n        os.replace(src, dest)\n")])
twin("C19", "exit-respelled", [("util/io.py", "        if exc_type is None:\n            self._close_func(self._tmppath)\n            self.succeeded = True\n        else:\n            self.succeeded = False\n            shutil.rmtree(self._tmppath.parent)", "        if exc_type is not None:\n            self.succeeded = False\n            shutil.rmtree(self._tmppath.parent)\n        else:\n            self._close_func(self._tmppath)\n            self.succeeded = True")])

# ---------------------------------------------------------------- C13
brk("C13", "drop-unguarded", "R13.1", [("app/data_store.py", '        if self.mode is READONLY:\n            raise IOError("datastore is readonly")\n        unique_id = unique_id.replace', "        unique_id = unique_id.replace")], names="drop_not_completed")
brk("C13", "mkdir-before-check", "R13.1", [("app/data_store.py", "        self._check_writable(unique_id)\n        (self.source / _LOG_TABLE).mkdir(parents=True, exist_ok=True)", "        (self.source / _LOG_TABLE).mkdir(parents=True, exist_ok=True)")], names="write_log")
brk("C13", "write-check-removed", "R13.1", [("app/data_store.py", "        super().write(unique_id=unique_id, data=data)\n        assert suffix", "        assert suffix")], names="open_(")
brk("C13", "check-writable-readonly-gone", "R13.1", [("app/data_store.py", '        if self.mode is READONLY:\n            raise IOError("datastore is readonly")\n        elif unique_id in self and self.mode is APPEND:', "        if unique_id in self and self.mode is APPEND:")], names="DataStoreDirectory")
brk("C13", "sqlite-always-rw", "R13.1", [("app/sqlite_data_store.py", "db_func = open_sqlite_db_ro if self.mode is READONLY else open_sqlite_db_rw", "db_func = open_sqlite_db_rw")], names="read-only handle")
brk("C13", "endswith-back", "R13.2", [("app/data_store.py", "if unique_id and Path(m.unique_id).name != unique_id:", "if unique_id and not m.unique_id.endswith(unique_id):")], names="endswith")
brk("C13", "contains-substring", "R13.2", [("app/data_store.py", '            has_suffix = not self.suffix or item.endswith(f".{self.suffix}")\n', '            has_suffix = self.suffix in item\n')], names="__contains__")
brk("C13", "md5-replace-back", "R13.2", [("app/data_store.py", '        unique_id = f"{unique_id.removesuffix(suffix)}txt"', '        unique_id = unique_id.replace(suffix, "txt")')], names="replace(suffix, 'txt')")
brk("C13", "sqlite-contains-prefix", "R13.2", [("app/sqlite_data_store.py", "        if unique_id in self and self.mode is not APPEND:", "        if any(m.unique_id.startswith(unique_id) for m in self) and self.mode is not APPEND:")], names="startswith")
brk("C13", "write-no-drop", "R13.3", [("app/data_store.py", "        self.drop_not_completed(unique_id=unique_id)\n        if member is not None:\n            self._completed.append(member)", "        if member is not None:\n            self._completed.append(member)")], names="DataStoreDirectory.write")
brk("C13", "sqlite-drop-conditional", "R13.3", [("app/sqlite_data_store.py", "        self.drop_not_completed(unique_id=unique_id)\n\n        member = self._write(", "        if self.mode is OVERWRITE:\n            self.drop_not_completed(unique_id=unique_id)\n\n        member = self._write(")], names="DataStoreSqlite.write")
brk("C13", "update-drops-is-completed", "R13.4", [("app/sqlite_data_store.py", 'SET data= ?, log_id=?, md5=?, is_completed=? WHERE record_id=?"\n            self.db.execute(cmnd, (data, self._log_id, md5, is_completed, unique_id))', 'SET data= ?, log_id=?, md5=? WHERE record_id=?"\n            self.db.execute(cmnd, (data, self._log_id, md5, unique_id))')], names="UPDATE vs INSERT")
brk("C13", "append-overwrite-allowed", "R13.5", [("app/data_store.py", "        elif unique_id in self and self.mode is APPEND:\n            raise IOError(\"cannot overwrite existing record in append mode\")\n", "")], names="APPEND")
brk("C13", "sqlite-write-before-check", "R13.5", [("app/sqlite_data_store.py", "        super().write_not_completed(unique_id=unique_id, data=data)\n        member = self._write(\n            table_name=_RESULT_TABLE, unique_id=unique_id, data=data, is_completed=False\n        )", "        member = self._write(\n            table_name=_RESULT_TABLE, unique_id=unique_id, data=data, is_completed=False\n        )\n        super().write_not_completed(unique_id=unique_id, data=data)")], names="DataStoreSqlite.write_not_completed")
twin("C13", "guard-inline", [("app/data_store.py", '        self._check_writable(unique_id)\n        (self.source / _LOG_TABLE).mkdir(parents=True, exist_ok=True)', '        if self.mode is READONLY:\n            raise IOError("datastore is readonly")\n        (self.source / _LOG_TABLE).mkdir(parents=True, exist_ok=True)')])
twin("C13", "exact-match-respelled", [("app/data_store.py", "if unique_id and Path(m.unique_id).name != unique_id:", "if unique_id and not (Path(m.unique_id).name == unique_id):")])
twin("C13", "suffix-test-via-path", [("app/data_store.py", '            has_suffix = not self.suffix or item.endswith(f".{self.suffix}")\n', '            has_suffix = not self.suffix or Path(item).suffix == f".{self.suffix}"\n')])
