"""One-edit variants for the both-ways self-test.

kind "break": the edit breaks rule `expect` (and the behaviour behind it) while the
file still compiles; the report must contain `names`.
kind "twin": behaviour-preserving edit; the property's rules must stay silent."""

VARIANTS = []


def brk(pid, name, expect, edits, names=None, error_ok=False):
    VARIANTS.append({"pid": pid, "name": name, "kind": "break", "expect": expect, "edits": edits, "names": names, "error_ok": error_ok})


def twin(pid, name, edits):
    VARIANTS.append({"pid": pid, "name": name, "kind": "twin", "edits": edits})


# ---------------------------------------------------------------- C12
brk("C12", "old-table-transpose", "R12.1", [("core/genetic_code.py", '"FFLLSSSSYY**CCWWLLLLPPPPHHQQRRRRIIMMTTTTNNKKSSGGVVVVAAAADDEEGGGG"', '"FFLLSSSSYY**CCWWLLLLPPPPHHQQRRRRIIMMTTTTNNKKSSGGVVVVAAAAEDDEGGGG"')], names="id=13")
brk("C12", "both-tables-same-error", "R12.1", [
    ("core/genetic_code.py", '"FFLLSSSSYY**CCGWLLLLPPPPHHQQRRRRIIIMTTTTNNKKSSRRVVVVAAAADDEEGGGG"', '"FFLLSSSSYY**CCAWLLLLPPPPHHQQRRRRIIIMTTTTNNKKSSRRVVVVAAAADDEEGGGG"'),
    ("core/new_genetic_code.py", '"FFLLSSSSYY**CCGWLLLLPPPPHHQQRRRRIIIMTTTTNNKKSSRRVVVVAAAADDEEGGGG"', '"FFLLSSSSYY**CCAWLLLLPPPPHHQQRRRRIIIMTTTTNNKKSSRRVVVVAAAADDEEGGGG"'),
], names="id=25")
brk("C12", "bases-order", "R12.2", [("core/genetic_code.py", '_bases = "TCAG"', '_bases = "TCGA"')], names="_nt")
brk("C12", "new-chars-order", "R12.2", [("core/new_moltype.py", 'IUPAC_DNA_chars = "T", "C", "A", "G"', 'IUPAC_DNA_chars = "T", "C", "G", "A"')], names="IUPAC_DNA_chars")
brk("C12", "complement-swap", "R12.3", [("core/new_moltype.py", '    "V": "B",\n    "B": "V",\n    "H": "D",\n    "D": "H",\n    "?": "?",\n}\n\nIUPAC_DNA_complements', '    "V": "D",\n    "B": "H",\n    "H": "B",\n    "D": "V",\n    "?": "?",\n}\n\nIUPAC_DNA_complements')], names="symbol V")
brk("C12", "new-drop-trim-forward", "R12.6", [("core/new_alignment.py", "                include_stop=include_stop,\n                trim_stop=trim_stop,\n", "                include_stop=include_stop,\n")], names="forwards trim_stop")
brk("C12", "old-collection-guard", "R12.5", [("core/alignment.py", "        if trim_stop and not include_stop:\n            seqs = self.trim_stop_codons(gc=gc, strict=not incomplete_ok)", "        if trim_stop or not include_stop:\n            seqs = self.trim_stop_codons(gc=gc, strict=not incomplete_ok)")], names="_SequenceCollectionBase.get_translation")
brk("C12", "dead-strict", "R12.4", [("core/new_sequence.py", "        if not self.has_terminal_stop(gc=gc, strict=strict):\n            return self\n\n        gc = new_genetic_code.get_code(gc)", "        if not self.has_terminal_stop(gc=gc):\n            return self\n\n        gc = new_genetic_code.get_code(gc)")], names="option strict")
brk("C12", "stop-guard-inverted", "R12.7", [("core/new_sequence.py", 'if not include_stop and "*" in pep:', 'if include_stop and "*" in pep:')], names="stop guard")
twin("C12", "guard-respelled", [("core/alignment.py", "        if trim_stop and not include_stop:\n            seqs = self.trim_stop_codons(gc=gc, strict=not incomplete_ok)\n        else:\n            seqs = self", "        if include_stop or not trim_stop:\n            seqs = self\n        else:\n            seqs = self.trim_stop_codons(gc=gc, strict=not incomplete_ok)")])
twin("C12", "table-as-tuple", [("core/genetic_code.py", 'IUPAC_DNA_chars', 'IUPAC_DNA_chars')] if False else [("core/moltype.py", 'IUPAC_DNA_chars = ["T", "C", "A", "G"]', 'IUPAC_DNA_chars = list("TCAG")')])
