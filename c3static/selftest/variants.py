"""One-edit variants for the both-ways self-test.

kind "break": the edit breaks rule `expect` (and the behaviour behind it) while the
file still compiles; the report must contain `names`.
kind "twin": behaviour-preserving edit; the property's rules must stay silent."""

VARIANTS = []


def brk(pid, name, expect, edits, names=None, error_ok=False):
    VARIANTS.append({"pid": pid, "name": name, "kind": "break", "expect": expect, "edits": edits, "names": names, "error_ok": error_ok})


def twin(pid, name, edits):
    VARIANTS.append({"pid": pid, "name": name, "kind": "twin", "edits": edits})


# ---------------------------------------------------------------- C12
brk("C12", "old-table-transpose", "R12.1", [("core/genetic_code.py", '"FFLLSSSSYY**CCWWLLLLPPPPHHQQRRRRIIMMTTTTNNKKSSGGVVVVAAAADDEEGGGG"', '"FFLLSSSSYY**CCWWLLLLPPPPHHQQRRRRIIMMTTTTNNKKSSGGVVVVAAAAEDDEGGGG"')], names="id=13")
brk("C12", "both-tables-same-error", "R12.1", [
    ("core/genetic_code.py", '"FFLLSSSSYY**CCGWLLLLPPPPHHQQRRRRIIIMTTTTNNKKSSRRVVVVAAAADDEEGGGG"', '"FFLLSSSSYY**CCAWLLLLPPPPHHQQRRRRIIIMTTTTNNKKSSRRVVVVAAAADDEEGGGG"'),
    ("core/new_genetic_code.py", '"FFLLSSSSYY**CCGWLLLLPPPPHHQQRRRRIIIMTTTTNNKKSSRRVVVVAAAADDEEGGGG"', '"FFLLSSSSYY**CCAWLLLLPPPPHHQQRRRRIIIMTTTTNNKKSSRRVVVVAAAADDEEGGGG"'),
], names="id=25")
brk("C12", "bases-order", "R12.2", [("core/genetic_code.py", '_bases = "TCAG"', '_bases = "TCGA"')], names="_nt")
brk("C12", "new-chars-order", "R12.2", [("core/new_moltype.py", 'IUPAC_DNA_chars = "T", "C", "A", "G"', 'IUPAC_DNA_chars = "T", "C", "G", "A"')], names="IUPAC_DNA_chars")
brk("C12", "complement-swap", "R12.3", [("core/new_moltype.py", '    "V": "B",\n    "B": "V",\n    "H": "D",\n    "D": "H",\n    "?": "?",\n}\n\nIUPAC_DNA_complements', '    "V": "D",\n    "B": "H",\n    "H": "B",\n    "D": "V",\n    "?": "?",\n}\n\nIUPAC_DNA_complements')], names="symbol V")
brk("C12", "new-drop-trim-forward", "R12.6", [("core/new_alignment.py", "                include_stop=include_stop,\n                trim_stop=trim_stop,\n", "                include_stop=include_stop,\n")], names="forwards trim_stop")
brk("C12", "old-collection-guard", "R12.5", [("core/alignment.py", "        if trim_stop and not include_stop:\n            seqs = self.trim_stop_codons(gc=gc, strict=not incomplete_ok)", "        if trim_stop or not include_stop:\n            seqs = self.trim_stop_codons(gc=gc, strict=not incomplete_ok)")], names="_SequenceCollectionBase.get_translation")
brk("C12", "dead-strict", "R12.4", [("core/new_sequence.py", "        if not self.has_terminal_stop(gc=gc, strict=strict):\n            return self\n\n        gc = new_genetic_code.get_code(gc)", "        if not self.has_terminal_stop(gc=gc):\n            return self\n\n        gc = new_genetic_code.get_code(gc)")], names="option strict")
brk("C12", "stop-guard-inverted", "R12.7", [("core/new_sequence.py", 'if not include_stop and "*" in pep:', 'if include_stop and "*" in pep:')], names="stop guard")
twin("C12", "guard-respelled", [("core/alignment.py", "        if trim_stop and not include_stop:\n            seqs = self.trim_stop_codons(gc=gc, strict=not incomplete_ok)\n        else:\n            seqs = self", "        if include_stop or not trim_stop:\n            seqs = self\n        else:\n            seqs = self.trim_stop_codons(gc=gc, strict=not incomplete_ok)")])
twin("C12", "table-as-tuple", [("core/genetic_code.py", 'IUPAC_DNA_chars', 'IUPAC_DNA_chars')] if False else [("core/moltype.py", 'IUPAC_DNA_chars = ["T", "C", "A", "G"]', 'IUPAC_DNA_chars = list("TCAG")')])

# revert of the repo fix 63a159b8f
brk("C12", "aln-drop-trim-forward", "R12.6", [("core/alignment.py", "                include_stop=include_stop,\n                trim_stop=trim_stop,\n            )\n            translated.append((seqname, pep))\n        kwargs[\"moltype\"] = pep.moltype\n        return self.__class__(translated, info=self.info, **kwargs)\n\n\ndef _one_length", "                include_stop=include_stop,\n            )\n            translated.append((seqname, pep))\n        kwargs[\"moltype\"] = pep.moltype\n        return self.__class__(translated, info=self.info, **kwargs)\n\n\ndef _one_length")], names="AlignmentI.get_translation")

# ---------------------------------------------------------------- C17
brk("C17", "overlap-ge", "R17.1", [("core/annotation_db.py", 'f"(start <= {start} AND stop > {start})",  # straddles beginning', 'f"(start <= {start} AND stop >= {start})",  # straddles beginning')], names="partial")
brk("C17", "within-strict", "R17.1", [("core/annotation_db.py", 'cond = f"start >= {start} AND stop <= {stop}"', 'cond = f"start >= {start} AND stop < {stop}"')], names="within")
brk("C17", "drop-straddle-stop", "R17.1", [("core/annotation_db.py", '                f"(start < {stop} AND stop >= {stop})",  # straddles stop of segment\n', '')], names="partial")
brk("C17", "only-start-closed", "R17.1", [("core/annotation_db.py", 'cond = f"(start <= {start} AND {start} < stop)"', 'cond = f"(start <= {start} AND {start} <= stop)"')], names="only-start")
brk("C17", "empty-conds-revert", "R17.1", [("core/annotation_db.py", '        if conds:\n            sql.append(" AND ".join(conds))', '        sql.append(" AND ".join(conds))')], names="None-valued")
brk("C17", "allow-partial-dropped", "R17.2", [("core/annotation_db.py", "    where, vals = _matching_conditions(\n        conditions=conditions, allow_partial=allow_partial\n    )\n    columns =", "    where, vals = _matching_conditions(conditions=conditions)\n    columns =")], names="_select_records_sql")
brk("C17", "allow-partial-not-forwarded", "R17.2", [("core/annotation_db.py", "            columns=columns,\n            allow_partial=allow_partial,\n        )\n        yield from", "            columns=columns,\n        )\n        yield from")], names="_get_records_matching")
brk("C17", "update-spans-only", "R17.3", [("core/annotation_db.py", 'cmnd="UPDATE gff SET spans = ?, start = ?, stop = ? WHERE name = ?",\n            values=(old_spans, int(old_spans.min()), int(old_spans.max()), name),', 'cmnd="UPDATE gff SET spans = ? WHERE name = ?",\n            values=(old_spans, name),')], names="update_record_spans")
brk("C17", "gb-stop-from-min", "R17.3", [("core/annotation_db.py", 'store["stop"] = int(store["spans"].max())', 'store["stop"] = int(store["spans"].min())')], names="GenbankAnnotationDb.add_records")
brk("C17", "gff-start-dropped", "R17.3", [("core/annotation_db.py", '            record["start"] = int(spans.min())\n', '')], names="GffAnnotationDb.add_records")
brk("C17", "gff-off-by-one", "R17.4", [("parse/gff.py", "start, end = int(start) - 1, int(end)", "start, end = int(start), int(end)")], names="start offset")
brk("C17", "gb-stop-closed", "R17.4", [("parse/genbank.py", "return sorted((i.start, i.stop + 1) for i in self)", "return sorted((i.start, i.stop) for i in self)")], names="get_coordinates")
brk("C17", "gb-start-1based", "R17.4", [("parse/genbank.py", '        """Returns first base self could be."""\n        try:\n            return int(self._data) - 1', '        """Returns first base self could be."""\n        try:\n            return int(self._data)')], names="Location.start")
twin("C17", "overlap-canonical", [("core/annotation_db.py", '''            cond = [
                f"(start >= {start} AND stop <= {stop})",  # lies within the segment
                f"(start <= {start} AND stop > {start})",  # straddles beginning of segment
                f"(start < {stop} AND stop >= {stop})",  # straddles stop of segment
                f"(start <= {start} AND stop >= {stop})",  # includes segment
            ]
            cond = " OR ".join(cond)''', '''            cond = f"start < {stop} AND stop > {start}"''')])
twin("C17", "gff-offset-respelled", [("parse/gff.py", "start, end = int(start) - 1, int(end)", "start = int(start)\n        end = int(end)\n        start = start - 1")])
