"""Both-ways self-test of the checkers.

Every variant is a one-edit change of a scratch overlay of the repository (never
/repo itself): `break` variants must make the named rule report a *new* violation
that names the edited construct; `twin` variants are behaviour-preserving edits on
which every rule of the property must stay silent.  The overlay is a symlink farm
under tempfile.mkdtemp() (outside /repo and /verif) with only the edited files
copied; it is removed in a finally."""

from __future__ import annotations

import importlib
import os
import shutil
import sys
import tempfile
import traceback
from multiprocessing import Pool
from pathlib import Path

from ..index import AnalysisError
from ..report import VIOLATION, Check

REPO = "/repo"


def make_overlay(root: str, edits: dict) -> str:
    """edits: rel path under src/cogent3 -> new text"""
    tmp = tempfile.mkdtemp(prefix="c3static-overlay-")
    src = Path(root) / "src" / "cogent3"
    dst = Path(tmp) / "src" / "cogent3"
    for dirpath, dirnames, filenames in os.walk(src):
        dirnames[:] = [d for d in dirnames if d != "__pycache__"]
        rel = Path(dirpath).relative_to(src)
        (dst / rel).mkdir(parents=True, exist_ok=True)
        for fn in filenames:
            if not fn.endswith(".py"):
                continue
            r = str(rel / fn) if str(rel) != "." else fn
            if r in edits:
                (dst / rel / fn).write_text(edits[r])
            else:
                os.symlink(Path(dirpath) / fn, dst / rel / fn)
    return tmp


def run_rules(pid: str, root: str):
    mod = importlib.import_module(f"c3static.rules.{pid.lower()}")
    chk = Check(pid, tier="quick", root=root, write=False)
    err = None
    try:
        mod.run(chk)
    except AnalysisError as e:
        err = str(e)
    except Exception:
        err = traceback.format_exc()
    for rule, (n, reason) in chk.floors.items():
        if chk.count(rule) < n:
            err = (err or "") + f" floor {rule}: {chk.count(rule)}<{n}"
    viol = {i.key: i for i in chk.instances if i.verdict == VIOLATION}
    return viol, err


def apply_edits(root: str, v) -> dict | None:
    edits = {}
    for ed in v["edits"]:
        rel, old, new = ed[:3]
        nth = ed[3] if len(ed) > 3 else None
        p = Path(root) / "src" / "cogent3" / rel
        text = edits.get(rel) or p.read_text()
        if nth is None:
            if text.count(old) != 1:
                return None  # stale: the source no longer has exactly this fragment
            edits[rel] = text.replace(old, new)
        else:
            # the nth (0-based) of several identical fragments
            pos = -1
            for _ in range(nth + 1):
                pos = text.find(old, pos + 1)
                if pos < 0:
                    return None
            edits[rel] = text[:pos] + new + text[pos + len(old):]
    for rel, text in edits.items():
        try:
            compile(text, rel, "exec")
        except SyntaxError:
            return None
    return edits


def _one(args):
    v, clean_keys = args
    name = f"{v['pid']}/{v['name']}"
    edits = apply_edits(REPO, v)
    if edits is None:
        return name, "stale", "fragment not found exactly once in the current source (or no longer compiles)"
    tmp = make_overlay(REPO, edits)
    try:
        viol, err = run_rules(v["pid"], tmp)
    finally:
        shutil.rmtree(tmp, ignore_errors=True)
    new = {k: i for k, i in viol.items() if k not in clean_keys}
    if v["kind"] == "break":
        want = v["expect"]
        hits = [i for k, i in new.items() if i.rule == want and (not v.get("names") or v["names"] in (i.key + " " + i.detail + " " + i.where))]
        if hits:
            return name, "pass", f"{want} fired: {hits[0].where}: {hits[0].detail[:100]}"
        if err and v.get("error_ok"):
            return name, "pass", f"analysis error (anchor vanished, fail-closed): {err[:100]}"
        return name, "FAIL", f"expected new {want} violation naming {v.get('names')!r}; new={[i.key for i in new.values()][:4]} err={err}"
    else:
        if new or err:
            return name, "FAIL", f"behaviour-preserving twin flagged: {[i.key + ': ' + i.detail for i in new.values()][:3]} err={err}"
        return name, "pass", "silent"


def run_selftest(pids=None, verbose=False) -> int:
    from .variants import VARIANTS

    todo = [v for v in VARIANTS if pids is None or v["pid"] in pids]
    clean = {}
    for pid in sorted({v["pid"] for v in todo}):
        viol, err = run_rules(pid, REPO)
        clean[pid] = set(viol)
    jobs = [(v, clean[v["pid"]]) for v in todo]
    with Pool(min(16, max(1, len(jobs)))) as pool:
        results = pool.map(_one, jobs)
    n_fail = sum(1 for _, s, _ in results if s == "FAIL")
    n_stale = sum(1 for _, s, _ in results if s == "stale")
    for name, status, detail in results:
        if verbose or status != "pass":
            print(f"  selftest {status:5s} {name}: {detail}")
    print(f"selftest: {len(results)} variants, {len(results) - n_fail - n_stale} pass, {n_stale} stale, {n_fail} FAIL")
    global LAST_STATS
    LAST_STATS = {
        "variants": len(results),
        "pass": len(results) - n_fail - n_stale,
        "stale": n_stale,
        "fail": n_fail,
        "break_variants": sum(1 for v in todo if v["kind"] == "break"),
        "twin_variants": sum(1 for v in todo if v["kind"] == "twin"),
        "results": [{"variant": n, "status": st, "detail": d[:160]} for n, st, d in results],
    }
    return 1 if n_fail else 0


LAST_STATS = {}
