"""C19 -- file writes are all-or-nothing; interrupted runs resume to the same result.

Crash points are decided as a typestate over the file-system effects extracted from
the code (no fault is injected):
R19.1 the commit of atomic_write is one atomic replace: after every prefix of its
      effect sequence (= every kill point) the destination is old or new.
R19.2 no writer deletes the user's destination in an exception handler.
R19.3 every atomic_write(...) is released on all paths, exceptional ones included;
      __exit__ commits only on success and removes the temp dir on failure.
R19.4 writer functions never open the destination for writing directly.
R19.5 apply_to skips inputs already in the output store before scheduling.
R19.7 no atomic_write call site selects the in-place zip commit.
R19.8 a write is committed once: explicit closes of the with-bound object require an idempotent atomic_write.close().
R19.9 a failed open of the temporary file removes the temp dir.
"""

from __future__ import annotations

import ast

from ..cfg import build, is_with_exit, own_exprs
from ..defuse import derived_names, expr_derives
from ..index import AnalysisError, call_name, norm, params_of, walk_no_nested
from ..report import key
from .. import tables as T

IO = "util/io.py"

# functions that write a user-visible destination through atomic_write
WRITERS = [
    ("core/alignment.py", "_SequenceCollectionBase.write"),
    ("core/new_alignment.py", "SequenceCollection.write"),
    ("core/tree.py", "TreeNode.write"),
    ("util/table.py", "Table.write"),
    ("util/dict_array.py", "DictArray.write"),
    ("phylo/tree_collection.py", "ScoredTreeCollection.write"),
    ("format/alignment.py", "save_to_filename"),
    ("format/alignment.py", "write_alignment_to_file"),
]

REMOVERS = {"unlink", "remove", "rmtree", "rmdir", "removedirs"}
MOVERS = {"rename", "replace"}


def _effect(call, dest_names, dest_exprs):
    """classify a call as an effect on the destination: 'absent' | 'new' | 'partial' | None"""
    if not isinstance(call, ast.Call):
        return None
    f = call.func
    name = f.attr if isinstance(f, ast.Attribute) else f.id if isinstance(f, ast.Name) else None
    if name is None:
        return None
    is_dest = lambda e: expr_derives(e, dest_names, dest_exprs)  # noqa: E731
    recv = f.value if isinstance(f, ast.Attribute) else None
    recv_is_mod = isinstance(recv, ast.Name) and recv.id in ("os", "shutil")
    if name in REMOVERS:
        if recv is not None and not recv_is_mod and is_dest(recv):
            return "absent"
        if (recv is None or recv_is_mod) and call.args and is_dest(call.args[0]):
            return "absent"
    if name in ("move", "copy", "copy2", "copyfile", "copyfileobj", "copytree") and (recv is None or recv_is_mod) and len(call.args) >= 2 and is_dest(call.args[1]):
        # shutil.move falls back to copy-then-unlink across file systems (and moves INTO an existing directory):
        # the destination is truncated and filled incrementally, i.e. partial until the call returns
        return "partial"
    if name in MOVERS:
        if recv is not None and not recv_is_mod and call.args and is_dest(call.args[0]):
            return "new"
        if (recv is None or recv_is_mod) and len(call.args) >= 2 and is_dest(call.args[1]):
            return "new"
    if name in ("open", "open_") and call.args and is_dest(call.args[0]):
        mode = call.args[1] if len(call.args) > 1 else next((kw.value for kw in call.keywords if kw.arg == "mode"), None)
        if isinstance(mode, ast.Constant) and isinstance(mode.value, str) and any(c in mode.value for c in "wax+"):
            return "partial"
    if name in ("write_text", "write_bytes", "touch") and recv is not None and is_dest(recv):
        return "partial"
    return None


def r19_1(chk):
    chk.rule("R19.1", "typestate of the destination through the commit function of atomic_write: after every prefix of the effect sequence the destination is still the old or already the new content (never absent/partial); on normal exit it is new and the temp dir is removed")
    m = chk.repo.module(IO)
    ci = m.cls("atomic_write")
    init = m.func("atomic_write.__init__")
    # commit functions: what self._close_func may be bound to
    commits = set()
    for st in walk_no_nested(init):
        if isinstance(st, ast.Assign) and norm(st.targets[0]) == "self._close_func":
            for n in ast.walk(st.value):
                if isinstance(n, ast.Attribute) and isinstance(n.value, ast.Name) and n.value.id == "self" and n.attr in ci.methods:
                    commits.add(n.attr)
    if not commits:
        raise AnalysisError("atomic_write.__init__: no commit function bound to self._close_func")
    for name in sorted(commits):
        fn = ci.methods[name]
        q = f"atomic_write.{name}"
        dest_names = derived_names(fn, set(), {"self._path"})
        if any(isinstance(c, ast.Call) and call_name(c) == "ZipFile" for c in ast.walk(fn)):
            chk.unresolved("R19.1", key(m, q, "commit"), m.loc(fn), "commit appends a member to a zip archive: not a replace of the destination, outside the typestate model")
            continue
        g = build(fn)
        # forward dataflow of the set of possible destination states
        state_in = {n.id: set() for n in g.nodes}
        state_in[g.entry.id] = {"old"}
        effects = {}
        for n in g.nodes:
            for e in own_exprs(n):
                for c in ast.walk(e):
                    ef = _effect(c, dest_names, {"self._path"})
                    if ef:
                        effects[n.id] = (ef, c)
        work = [g.entry]
        out_state = {}
        while work:
            n = work.pop()
            sin = state_in[n.id]
            for s, k in n.succ:
                if n.id in effects and k == "n":
                    sout = {effects[n.id][0]}
                elif n.id in effects and k == "x":
                    # the effect may or may not have happened when the call raises
                    sout = sin | ({effects[n.id][0]} if effects[n.id][0] != "new" else set())
                else:
                    sout = sin
                if not sout <= state_in[s.id]:
                    state_in[s.id] |= sout
                    work.append(s)
        n_eff = 0
        for nid, (ef, call) in effects.items():
            n_eff += 1
            node = g.nodes[nid]
            k = key(m, q, f"effect {norm(call)}")
            if ef in ("absent", "partial"):
                chk.violation("R19.1", k, m.loc(call), f"{norm(call)} leaves the destination {ef} until a later step: a crash (or a failing later step) at this point loses the previous content")
            else:
                bad = state_in[nid] - {"old"}
                chk.decide(not bad, "R19.1", k, m.loc(call), "single atomic replace of old by new", f"destination may already be {sorted(bad)} when the replacement happens")
        if not n_eff:
            chk.violation("R19.1", key(m, q, "commit"), m.loc(fn), "commit function performs no rename/replace onto the destination")
        final = state_in[g.exit.id]
        chk.decide(final == {"new"}, "R19.1", key(m, q, "exit state"), m.loc(fn), "every normal exit leaves the new content in place", f"normal exit possible with destination in state {sorted(final)}")
        # temp dir removed after the replace on every normal path
        rm = g.nodes_containing(lambda x: isinstance(x, ast.Call) and (call_name(x) or "").endswith("rmtree"))
        movers = [g.nodes[nid] for nid, (ef, _) in effects.items() if ef == "new"]
        for mv in movers:
            ok, path = g.always_followed_by(mv, rm, exceptional=False)
            chk.decide(ok, "R19.1", key(m, q, "temp dir removed"), m.loc(mv.ast), "rmtree of the temp dir follows the replace", f"temp dir survives a successful commit: {g.show_path(path) if path else ''}")
    chk.floor("R19.1", 3, "replace effect, exit state, temp dir removal in the standard commit")


def r19_2(chk):
    chk.rule("R19.2", "no exception handler of a writer deletes a path derived from the writer's parameters (the user's destination)")
    n = 0
    for rel, q in WRITERS:
        m = chk.repo.module(rel)
        fn = m.func(q)
        user = derived_names(fn, set(p for p in params_of(fn) if p not in ("self", "cls")))
        handlers = [h for h in walk_no_nested(fn) if isinstance(h, ast.ExceptHandler)]
        for h in handlers:
            for c in ast.walk(h):
                if isinstance(c, ast.Call):
                    ef = _effect(c, user, set())
                    if ef == "absent":
                        chk.violation("R19.2", key(m, q, f"handler {norm(c)}"), m.loc(c), f"`{norm(c)}` in an exception handler removes the destination: a failed overwrite destroys the previous content")
                        n += 1
        chk.ok("R19.2", key(m, q, "handlers"), m.loc(fn), f"{len(handlers)} handler(s) examined", nontrivial=bool(handlers))
    chk.floor("R19.2", len(WRITERS), "one instance per writer function")
    # the rule's matcher must still recognise the idiom (expected count on a clean tree is zero)
    probe = ast.parse("def w(path):\n    try:\n        f(path)\n    except Exception:\n        os.unlink(path)\n        raise\n").body[0]
    hit = [c for h in ast.walk(probe) if isinstance(h, ast.ExceptHandler) for c in ast.walk(h) if isinstance(c, ast.Call) and _effect(c, {"path"}, set()) == "absent"]
    if not hit:
        raise AnalysisError("R19.2 self-probe: matcher no longer recognises os.unlink(path) in a handler")


def r19_3(chk):
    chk.rule("R19.3", "every atomic_write(...) is the context expression of a `with`, or every path from it to a function exit (exceptional edges included) passes .close()/__exit__ on it; atomic_write.__exit__ commits only when no exception is in flight and removes the temp dir otherwise")
    sites = 0
    for mod in chk.repo.all_modules():
        if "atomic_write" not in mod.source or mod.rel.endswith("util/io.py"):
            continue
        for q, fn in mod.all_functions():
            calls = [c for c in walk_no_nested(fn) if isinstance(c, ast.Call) and call_name(c) == "atomic_write"]
            if not calls:
                continue
            g = None
            with_exprs = {id(it.context_expr) for w in walk_no_nested(fn) if isinstance(w, (ast.With, ast.AsyncWith)) for it in w.items}
            for c in calls:
                sites += 1
                k = key(mod, q, f"{norm(c)}")
                if id(c) in with_exprs:
                    chk.ok("R19.3", k, mod.loc(c), "context expression of a with block")
                    continue
                g = g or build(fn)
                holders = [n for n in g.nodes if any(c is x for e in own_exprs(n) for x in ast.walk(e))]
                if not holders:
                    chk.unresolved("R19.3", k, mod.loc(c), "call not found in the CFG")
                    continue
                node = holders[0]
                bound = set()
                if isinstance(node.ast, ast.Assign):
                    for t in node.ast.targets:
                        if isinstance(t, ast.Name):
                            bound.add(t.id)
                if isinstance(node.ast, ast.Return):
                    chk.ok("R19.3", k, mod.loc(c), "returned to the caller (ownership transferred)", nontrivial=False)
                    continue
                rel = g.nodes_containing(lambda x: isinstance(x, ast.Call) and isinstance(x.func, ast.Attribute) and x.func.attr in ("close", "__exit__") and isinstance(x.func.value, ast.Name) and x.func.value.id in bound)
                # a `with <bound>:` also releases
                # (entering the with block hands the object to the context-manager protocol, exactly as `with atomic_write(...)` does)
                rel += [n for n in g.nodes if n.kind == "with-enter" and any(isinstance(it.context_expr, ast.Name) and it.context_expr.id in bound for it in n.ast.items)]
                ok, path = g.always_followed_by(node, rel, exceptional=True)
                chk.decide(ok, "R19.3", k, mod.loc(c), "released on every path", f"temporary directory/file leaks on the path {g.show_path(path) if path else ''} (no close()/__exit__): a handled failure leaves temp files behind, and nothing rolls the partial write back")
    chk.floor("R19.3", 8, "9 atomic_write sites outside util/io.py on the pinned tree")
    # __exit__ discipline
    m = chk.repo.module(IO)
    fn = m.func("atomic_write.__exit__")
    opts = {"exc_type"}
    commit = T.reach_conditions(fn, lambda n: isinstance(n, ast.Call) and norm(n.func) == "self._close_func", opts)
    cleanup = T.reach_conditions(fn, lambda n: isinstance(n, ast.Call) and (call_name(n) or "").endswith("rmtree"), opts)
    if not cleanup:
        # cleanup moved into a helper method: it counts when the helper removes the directory unconditionally
        ci_aw = m.cls("atomic_write")
        for node, cond in T.reach_conditions(fn, lambda n: isinstance(n, ast.Call) and isinstance(n.func, ast.Attribute) and norm(n.func.value) == "self" and n.func.attr in ci_aw.methods, opts):
            helper = ci_aw.methods[node.func.attr]
            inner = T.reach_conditions(helper, lambda n: isinstance(n, ast.Call) and (call_name(n) or "").endswith("rmtree"), set())
            if inner and all(c == T.TRUE for _, c in inner):
                cleanup.append((node, cond))
    if not commit:
        raise AnalysisError("atomic_write.__exit__: call of self._close_func not found")

    def only_when(found, want_none):
        # conditions are over the opaque atom `exc_type is None`
        for _, cond in found:
            names = T.atoms(cond)
            for a in names:
                if "exc_type" not in a:
                    return False
            for val in (False, True):
                env = {a: val for a in names}
                reach = T.evaluate(cond, env)
                # atom text is '?exc_type is None' (or 'is not None')
                for a in names:
                    is_none = val if "is None" in a else (not val) if "is not None" in a else None
                    if is_none is None:
                        return False
                    if reach and is_none != want_none:
                        return False
            if not names:
                return False
        return True

    chk.decide(only_when(commit, True), "R19.3", key(m, "atomic_write.__exit__", "commit only on success"), m.loc(fn), "self._close_func runs only when exc_type is None", "the commit runs although an exception is in flight: a failed write replaces the destination with partial content")
    def reached_on_failure(found):
        # some cleanup call is reached whenever an exception is in flight (exc_type is not None); an unconditional
        # cleanup (in a finally) qualifies, one that needs any other condition does not
        for _, cond in found:
            names = T.atoms(cond)
            if any("exc_type" not in a for a in names):
                continue
            env = {}
            for a in names:
                env[a] = False if "is None" in a and "is not None" not in a else True
            if T.evaluate(cond, env):
                return True
        return False

    chk.decide(bool(cleanup) and reached_on_failure(cleanup), "R19.3", key(m, "atomic_write.__exit__", "cleanup on failure"), m.loc(fn), "temp dir removed when an exception is in flight", "the failure branch does not remove the temporary directory")
    # the temporary file is closed (flushed) before it is moved into place
    g2 = build(fn)
    closes = g2.nodes_containing(lambda x: isinstance(x, ast.Call) and norm(x.func) == "self._file.close")
    commits = g2.nodes_containing(lambda x: isinstance(x, ast.Call) and norm(x.func) == "self._close_func")
    chk.decide(bool(closes) and all(g2.dominated_by(c_, closes)[0] for c_ in commits), "R19.3", key(m, "atomic_write.__exit__", "file closed before commit"), m.loc(fn), "self._file.close() dominates the commit", "the temporary file can be moved into place before it is closed: buffered content is missing from the committed file")
    # a commit (or close) that raises must not leave the temporary directory behind either
    ci_aw2 = m.cls("atomic_write")

    def _removes(x):
        if not isinstance(x, ast.Call):
            return False
        if (call_name(x) or "").endswith("rmtree"):
            return True
        if isinstance(x.func, ast.Attribute) and norm(x.func.value) == "self" and isinstance(ci_aw2.methods.get(x.func.attr), ast.FunctionDef):
            inner = T.reach_conditions(ci_aw2.methods[x.func.attr], lambda n: isinstance(n, ast.Call) and (call_name(n) or "").endswith("rmtree"), set())
            return bool(inner) and all(c == T.TRUE for _, c in inner)
        return False

    rm_nodes = g2.nodes_containing(_removes)
    for c_ in commits + closes:
        has_x = any(k_ == "x" for _, k_ in c_.succ)
        okx = bool(rm_nodes) and (not has_x or g2.always_followed_by(c_, rm_nodes, exceptional=True, from_kinds=("x",))[0])
        what = "commit" if c_ in commits else "close"
        chk.decide(okx, "R19.3", key(m, "atomic_write.__exit__", f"temp dir removed when the {what} raises"), m.loc(c_.ast), "every exceptional path from it passes the cleanup", f"when `{norm(c_.ast)[:50]}` raises (the destination is a directory, the disk is full) __exit__ is left without removing the temporary directory")
    close = m.func("atomic_write.close")
    good = any(isinstance(c, ast.Call) and norm(c.func) == "self.__exit__" and all(isinstance(a, ast.Constant) and a.value is None for a in c.args) for c in walk_no_nested(close))
    chk.decide(good, "R19.3", key(m, "atomic_write.close", "close == successful exit"), m.loc(close), "close() is __exit__(None, None, None)", "close() no longer delegates to __exit__(None, None, None)")


def _write_open(c):
    """a direct open-for-write / write_text on anything"""
    if not isinstance(c, ast.Call):
        return False
    f = c.func
    last = f.attr if isinstance(f, ast.Attribute) else f.id if isinstance(f, ast.Name) else ""
    if last in ("open", "open_", "gzip_open", "bzip_open"):
        mode = c.args[1] if len(c.args) > 1 else next((kw.value for kw in c.keywords if kw.arg == "mode"), None)
        return isinstance(mode, ast.Constant) and isinstance(mode.value, str) and any(ch in mode.value for ch in "wax+")
    return last in ("write_text", "write_bytes")


def r19_4(chk):
    chk.rule("R19.4", "writer functions of the listed types reach the file system only through atomic_write: no direct open(..., 'w'), open_(..., 'w'), Path.write_text/bytes")
    for rel, q in WRITERS:
        m = chk.repo.module(rel)
        fn = m.func(q)
        bad = [c for c in walk_no_nested(fn) if _write_open(c)]
        uses = any(isinstance(c, ast.Call) and call_name(c) in ("atomic_write", "save_to_filename", "write_alignment_to_file") for c in walk_no_nested(fn)) or q == "write_alignment_to_file"
        k = key(m, q, "only atomic_write")
        if bad:
            chk.violation("R19.4", k, m.loc(bad[0]), f"`{norm(bad[0])}` writes the destination in place: a failure part-way leaves a truncated file where the old content was")
        else:
            chk.decide(uses, "R19.4", k, m.loc(fn), "writes only through atomic_write", "no longer writes through atomic_write (nor through save_to_filename)")
    probe = ast.parse("open(filename, 'w')").body[0].value
    probe2 = ast.parse("pathlib.Path(p).write_text(s)").body[0].value
    if not (_write_open(probe) and _write_open(probe2)):
        raise AnalysisError("R19.4 self-probe failed")
    chk.floor("R19.4", len(WRITERS), "one instance per writer function")


def r19_5(chk):
    chk.rule("R19.5", "apply_to: the membership test of the input identifier against the output store precedes, and can skip, insertion into the work list; the work list (not the raw input) is what gets scheduled")
    m = chk.repo.module("app/composable.py")
    fn = m.func("_apply_to")
    g = build(fn)
    tests = [n for n in g.nodes if n.kind == "if" and isinstance(n.ast.test, ast.Compare) and isinstance(n.ast.test.ops[0], ast.In) and norm(n.ast.test.comparators[0]) == "self.data_store"]
    if not tests:
        chk.violation("R19.5", key(m, "_apply_to", "resume skip"), m.loc(fn), "no `<id> in self.data_store` test: completed inputs are processed again on a re-run")
        return
    t = tests[0]
    idname = norm(t.ast.test.left)
    inserts = [n for n in g.nodes if n.kind == "stmt" and isinstance(n.ast, ast.Assign) and isinstance(n.ast.targets[0], ast.Subscript) and norm(n.ast.targets[0].slice) == idname]
    if not inserts:
        # the work list is keyed by something else than what the store is asked about
        other = [n for n in g.nodes if n.kind == "stmt" and isinstance(n.ast, ast.Assign) and isinstance(n.ast.targets[0], ast.Subscript) and norm(n.ast.targets[0].value) == "inputs"]
        if other:
            chk.violation("R19.5", key(m, "_apply_to", "resume skip"), m.loc(t.ast), f"the store is asked about `{idname}` but the input is filed (and its result later written) under `{norm(other[0].ast.targets[0].slice)}`: whenever the two differ (a custom id_from_source) nothing already written is recognised on a re-run -- every input is processed again, or the first overwrite raises in append mode")
            return
        raise AnalysisError("_apply_to: insertion into the work list keyed by the identifier not found")
    ins = inserts[0]
    skips = T._always_exits(t.ast.body) and isinstance(t.ast.body[-1], ast.Continue)
    dom, path = g.dominated_by(ins, [t])
    chk.decide(skips and dom, "R19.5", key(m, "_apply_to", "resume skip"), m.loc(t.ast), f"`{norm(t.ast.test)}` -> continue dominates `{norm(ins.ast)}`", "the skip of already-completed inputs no longer guards insertion into the work list" + (f": {g.show_path(path)}" if path else ""))
    work = norm(ins.ast.targets[0].value)
    sched = [c for c in walk_no_nested(fn) if isinstance(c, ast.Call) and isinstance(c.func, ast.Attribute) and c.func.attr == "as_completed"]
    if not sched:
        raise AnalysisError("_apply_to: call of self.as_completed not found")
    arg = sched[0].args[0] if sched[0].args else None
    d = derived_names(fn, {work})
    # the scheduled collection must derive from the work list and be (re)bound from it after the loop
    chk.decide(arg is not None and expr_derives(arg, d - {"dstore"}) and not (isinstance(arg, ast.Name) and arg.id == "dstore"), "R19.5", key(m, "_apply_to", "schedules the work list"), m.loc(sched[0]), f"as_completed({norm(arg) if arg is not None else ''}) derives from `{work}`", "as_completed is given the raw input, not the filtered work list")
    chk.floor("R19.5", 2, "skip test and scheduling call")


def r19_5b(chk):
    # the resume skip of apply_to is `input_id in self.data_store`: it stands for "already completed" only while the
    # store's membership is one exact comparison on the full identifier (a looser match also "finds" not-completed
    # records, and the append-mode write of the re-run result is then refused)
    from . import c13

    c13.base_membership(chk, "R19.5")
    c13.override_membership(chk, "R19.5")
    c13.check_identifier_form(chk, "R19.5")


def r19_6(chk):
    chk.rule("R19.6", "atomic_write removes only what it created: the directory it deletes afterwards (the parent of its temporary file) is, on every path through _make_tmppath, the result of mkdtemp() -- never a directory the caller supplied through `tmpdir`, whose other contents (possibly the destination itself) would be deleted with it")
    from ..slicing import Slicer

    m = chk.repo.module(IO)
    fn = m.func("atomic_write._make_tmppath")
    rets = [r for r in walk_no_nested(fn) if isinstance(r, ast.Return) and r.value is not None]
    if not rets:
        raise AnalysisError("atomic_write._make_tmppath: no return")
    sl = Slicer(m)
    # mkdtemp() returns a fresh directory wherever it is asked to make it: do not slice into its arguments
    sl.stop = lambda e: isinstance(e, ast.Call) and (call_name(e) or "").split(".")[-1] == "mkdtemp"
    ps = [p for p in params_of(fn) if p != "self"]
    for r in rets:
        node = sl.node_of(fn, r.value)
        origins = []
        sl.origins(fn, node, r.value, lambda e, f, origins=origins: origins.append(e))
        # the directory part: left operand of `<dir> / <name>` somewhere in the slice
        dirs = [e.left for e in origins if isinstance(e, ast.BinOp) and isinstance(e.op, ast.Div)]
        if not dirs:
            chk.unresolved("R19.6", key(m, "atomic_write._make_tmppath", "temporary directory is its own"), m.loc(r), "the returned path is not of the form <dir> / <name>")
            continue
        bad = []
        made = False
        for dexpr in dirs:
            dn = sl.node_of(fn, dexpr)
            dor = []
            sl.origins(fn, dn, dexpr, lambda e, f, dor=dor: dor.append(e))
            if any(isinstance(e, ast.Call) and (call_name(e) or "").split(".")[-1] == "mkdtemp" for e in dor):
                made = True
            # a branch in which the directory IS the parameter (not merely the place mkdtemp works in)
            for e in dor:
                if isinstance(e, ast.IfExp):
                    for arm in (e.body, e.orelse):
                        if not any(isinstance(x, ast.Call) and (call_name(x) or "").split(".")[-1] == "mkdtemp" for x in ast.walk(arm)) and any(isinstance(x, ast.Name) and x.id in ps for x in ast.walk(arm)):
                            bad.append(arm)
        chk.decide(made and not bad, "R19.6", key(m, "atomic_write._make_tmppath", "temporary directory is its own"), m.loc(bad[0] if bad else r), "the directory of the temporary file always comes from mkdtemp()", f"`{norm(bad[0]) if bad else norm(r.value)}` makes the caller's directory the 'temporary directory': the commit and the failure path then rmtree it, deleting everything the caller keeps there (with tmpdir=path.parent: the file just written)")
    chk.floor("R19.6", 1, "one temp-path constructor")


def r19_7(chk):
    chk.rule("R19.7", "the writers commit by rename, never by the in-zip commit: atomic_write chooses `_close_rename_zip` when `in_zip` is given, and that function opens the DESTINATION archive in append mode (ZipFile(self._in_zip, 'a')) -- a second write adds a duplicate member instead of leaving exactly the new content, and a kill during the append damages the previous archive; so no atomic_write(...) call site of the library passes in_zip (zip targets go through the temp file + rename path, where open_ builds the whole archive in the temp dir)")
    io = chk.repo.module(IO)
    zc = io.func("atomic_write._close_rename_zip")
    in_place = [c for c in walk_no_nested(zc) if isinstance(c, ast.Call) and (call_name(c) or "").split(".")[-1] == "ZipFile" and c.args and "_in_zip" in norm(c.args[0]) and (len(c.args) < 2 or not (isinstance(c.args[1], ast.Constant) and c.args[1].value == "r"))]
    init = io.func("atomic_write.__init__")
    sel = [st for st in walk_no_nested(init) if isinstance(st, ast.Assign) and norm(st.targets[0]) == "self._close_func"]
    if not sel:
        raise AnalysisError("atomic_write.__init__: the commit function selection was not found")
    selects_on_in_zip = isinstance(sel[0].value, ast.IfExp) and "in_zip" in norm(sel[0].value.test)
    sites = 0
    for mod in chk.repo.all_modules():
        if "atomic_write" not in mod.source or mod.rel.endswith("util/io.py"):
            continue
        for q, fn in mod.all_functions():
            for c in walk_no_nested(fn):
                if not (isinstance(c, ast.Call) and call_name(c) == "atomic_write"):
                    continue
                sites += 1
                kw = next((k_.value for k_ in c.keywords if k_.arg == "in_zip"), c.args[2] if len(c.args) > 2 else None)
                star = any(k_.arg is None for k_ in c.keywords)
                k = key(mod, q, "commit path selected by the atomic_write call")
                falsy = kw is None or (isinstance(kw, ast.Constant) and not kw.value)
                if not (in_place and selects_on_in_zip):
                    chk.ok("R19.7", k, mod.loc(c), "the in-zip commit no longer writes into the destination in place", nontrivial=False)
                elif star:
                    chk.unresolved("R19.7", k, mod.loc(c), "**kwargs forwarded to atomic_write")
                else:
                    chk.decide(falsy, "R19.7", k, mod.loc(c), "no in_zip: temp file + rename", f"`{norm(c)}` passes in_zip={norm(kw) if kw is not None else ''}: the write is committed by appending to the existing archive in place (atomic_write._close_rename_zip), not by renaming a complete new file over it")
    # the in-place zip commit is chosen by the CALLER only: __init__ never turns in_zip on from the path's suffix
    if in_place and selects_on_in_zip:
        from .c09 import _enclosing_tests

        turns_on = []
        for st in walk_no_nested(init):
            if isinstance(st, ast.Assign) and any(isinstance(t, ast.Name) and t.id == "in_zip" for t in st.targets):
                tests = _enclosing_tests(init, st)
                caller_chose = any(("in_zip" in t.split(" and ")[0] or t.startswith("in_zip") or "isinstance(in_zip" in t) and not t.startswith("not (") and "in_zip is None" not in t for t in tests)
                truthy_value = not (isinstance(st.value, ast.Constant) and not st.value.value)
                if truthy_value and not caller_chose and "in_zip" not in {x.id for x in ast.walk(st.value) if isinstance(x, ast.Name)}:
                    turns_on.append((st, tests))
        chk.decide(not turns_on, "R19.7", key(io, "atomic_write.__init__", "in_zip is never switched on from the path"), io.loc(turns_on[0][0] if turns_on else init), "in_zip becomes truthy only when the caller passed it", f"`{norm(turns_on[0][0]) if turns_on else ''}` under {turns_on[0][1] if turns_on else ''} makes every *.zip destination use the in-place archive commit, although no caller asked for it: Table.write('x.tsv.zip') then truncates / appends to the existing archive instead of renaming a complete new one over it")
    chk.floor("R19.7", 8, "9 atomic_write sites outside util/io.py on the pinned tree")


def _explicit_closes(repo, mod, fn, probe_helpers=None):
    """(call node, description) for every explicit .close() of the object bound by
    `with atomic_write(...) as f` inside that block, directly or in a function that f is passed to"""
    out = []
    for w in walk_no_nested(fn):
        if not isinstance(w, (ast.With, ast.AsyncWith)):
            continue
        for it in w.items:
            if not (isinstance(it.context_expr, ast.Call) and call_name(it.context_expr) == "atomic_write" and isinstance(it.optional_vars, ast.Name)):
                continue
            f = it.optional_vars.id
            for st in w.body:
                for c in ast.walk(st):
                    if not isinstance(c, ast.Call):
                        continue
                    if isinstance(c.func, ast.Attribute) and c.func.attr == "close" and norm(c.func.value) == f:
                        out.append((c, f"`{norm(c)}` inside the with block"))
                        continue
                    # f handed to a helper that closes its parameter
                    pos = [i for i, a in enumerate(c.args) if isinstance(a, ast.Name) and a.id == f]
                    if not pos:
                        continue
                    cn = (call_name(c) or "").split(".")[-1]
                    helper = (probe_helpers or {}).get(cn)
                    if helper is None:
                        for m2 in [mod] + [x for x in repo.all_modules() if x is not mod and f"def {cn}(" in x.source]:
                            try:
                                helper = m2.func(cn)
                                break
                            except Exception:
                                continue
                    if helper is None:
                        continue
                    ps = params_of(helper)
                    for i in pos:
                        if i < len(ps) and any(isinstance(x, ast.Call) and isinstance(x.func, ast.Attribute) and x.func.attr == "close" and norm(x.func.value) == ps[i] for x in walk_no_nested(helper)):
                            out.append((c, f"`{norm(c)[:60]}` closes its argument `{ps[i]}`"))
    return out


def r19_8(chk):
    chk.rule("R19.8", "a write is committed once: the object a writer gets from `with atomic_write(...) as f` is closed again by the context exit, and for a *.zip target that object is itself a committing writer (open_zip returns an atomic_write) -- so wherever a writer closes it explicitly (directly or in a helper it hands it to), atomic_write.close() must be idempotent (guarded by the completion state); otherwise the second close commits a temporary file that is already gone and the write of every zip target raises")
    io = chk.repo.module(IO)
    cl = io.func("atomic_write.close")
    guarded = False
    for st in walk_no_nested(cl):
        if isinstance(st, ast.If) and any(a in norm(st.test) for a in ("self.succeeded", "self._file.closed", "self._closed")):
            guarded = True
    ex = io.func("atomic_write.__exit__")
    for st in ex.body:
        if isinstance(st, ast.If) and any(a in norm(st.test) for a in ("self.succeeded", "self._closed")) and any(isinstance(x, ast.Return) for x in st.body):
            guarded = True
    n = 0
    for mod in chk.repo.all_modules():
        if "atomic_write" not in mod.source or mod.rel.endswith("util/io.py"):
            continue
        for q, fn in mod.all_functions():
            for c, what in _explicit_closes(chk.repo, mod, fn):
                n += 1
                chk.decide(guarded, "R19.8", key(mod, q, "explicit close of the atomic_write file object"), mod.loc(c), f"{what}; atomic_write.close() is guarded by the completion state", f"{what}, and the with statement closes it again: atomic_write.close() runs __exit__ unconditionally, so for a zip target (where the object is an atomic_write in in_zip mode) the archive is committed twice and the second commit raises FileNotFoundError -- aln.write('x.fasta.zip') always fails")
    if n == 0:
        chk.ok("R19.8", key(io, "atomic_write.close", "no explicit close in any writer"), io.loc(cl), "no writer closes the with-bound object explicitly", nontrivial=False)
    # probe: the matcher must see a close performed by a helper
    pm = ast.parse("def helper(out, data):\n    out.write(data)\n    out.close()\n\ndef W(path, data):\n    with atomic_write(path, mode='wt') as f:\n        helper(f, data)\n")
    got = _explicit_closes(chk.repo, io, pm.body[1], probe_helpers={"helper": pm.body[0]})
    if not got:
        raise AnalysisError("R19.8 self-probe failed: a close inside a helper was not seen")


def r19_9(chk):
    chk.rule("R19.9", "the temporary directory exists from atomic_write.__init__ on, but __exit__ (the only cleanup) runs only once the with block has been ENTERED: when opening the temporary file raises (EMFILE, EACCES, ENOSPC, an unknown encoding, a read mode) the failure is handled by the caller and nothing would remove the directory -- so every exceptional path from the open of self._tmppath passes a removal of that directory")
    m = chk.repo.module(IO)
    ci = m.cls("atomic_write")
    n = 0
    for name, fn in ci.methods.items():
        if name in ("__exit__",) or not isinstance(fn, ast.FunctionDef):
            continue
        g = build(fn)
        opens = g.nodes_containing(lambda x: isinstance(x, ast.Call) and (call_name(x) or "").split(".")[-1] in ("open_", "open") and x.args and "_tmppath" in norm(x.args[0]))
        if not opens:
            continue
        rms = g.nodes_containing(lambda x: isinstance(x, ast.Call) and (call_name(x) or "").endswith("rmtree") and x.args and "_tmppath" in norm(x.args[0]))
        for o in opens:
            n += 1
            has_x = any(k_ == "x" for _, k_ in o.succ)
            okx = bool(rms) and has_x and g.always_followed_by(o, rms, exceptional=True, from_kinds=("x",))[0]
            chk.decide(okx, "R19.9", key(m, f"atomic_write.{name}", "temp dir removed when opening the temp file fails"), m.loc(o.ast), "every exceptional path from the open passes rmtree(self._tmppath.parent)", f"`{norm(o.ast)[:70]}` can raise before the with block is entered, __exit__ is then never called and the directory made by mkdtemp stays next to the destination (e.g. table.write(path, mode='r') or any OSError at open)")
    chk.floor("R19.9", 1, "the open of the temporary file in _get_fileobj")


def r19_10(chk):
    chk.rule("R19.10", "retiring a record tolerates what a kill can leave: DataStoreDirectory._write stores the record first and its checksum afterwards, so a record without a checksum file is a state every interruption point between the two produces -- the removal of the checksum file in drop_not_completed therefore does not insist that it exists (unlink(missing_ok=True) / an existence test); otherwise the resumed run crashes with FileNotFoundError when it completes that input")
    m = chk.repo.module("app/data_store.py")
    w = m.func("DataStoreDirectory._write")
    # order of the two writes in _write: record before checksum
    opens = [c for c in walk_no_nested(w) if isinstance(c, ast.Call) and (call_name(c) or "").split(".")[-1] == "open_" and c.args]
    md5_pos = [c.lineno for c in opens if "_MD5_TABLE" in norm(c.args[0])]
    rec_pos = [c.lineno for c in opens if "_MD5_TABLE" not in norm(c.args[0])]
    if not md5_pos or not rec_pos:
        raise AnalysisError("DataStoreDirectory._write: record / checksum writes not found")
    record_first = min(rec_pos) < min(md5_pos)
    fn = m.func("DataStoreDirectory.drop_not_completed")
    md5_names = {st.targets[0].id for st in walk_no_nested(fn) if isinstance(st, ast.Assign) and isinstance(st.targets[0], ast.Name) and ("md5" in norm(st.value).lower())}
    # close over derivations (md5_file = md5_dir / ...)
    changed = True
    while changed:
        changed = False
        for st in walk_no_nested(fn):
            if isinstance(st, ast.Assign) and isinstance(st.targets[0], ast.Name) and st.targets[0].id not in md5_names and any(isinstance(x, ast.Name) and x.id in md5_names for x in ast.walk(st.value)):
                md5_names.add(st.targets[0].id)
                changed = True
    unl = [c for c in walk_no_nested(fn) if isinstance(c, ast.Call) and isinstance(c.func, ast.Attribute) and c.func.attr == "unlink" and any(isinstance(x, ast.Name) and x.id in md5_names for x in ast.walk(c.func.value))]
    if not unl:
        raise AnalysisError("drop_not_completed: removal of the checksum file not found")
    from .c09 import _enclosing_tests

    for c in unl:
        tolerant = any(kw.arg == "missing_ok" and isinstance(kw.value, ast.Constant) and kw.value.value is True for kw in c.keywords)
        st = next(s_ for s_ in walk_no_nested(fn) if isinstance(s_, ast.stmt) and any(x is c for x in ast.walk(s_)) and not isinstance(s_, (ast.For, ast.If, ast.While, ast.With, ast.Try)))
        guarded = any("exists()" in t and not t.startswith("not (") for t in _enclosing_tests(fn, st))
        chk.decide(tolerant or guarded or not record_first, "R19.10", key(m, "DataStoreDirectory.drop_not_completed", "checksum removal tolerates a missing file"), m.loc(c), "missing_ok=True (or guarded by an existence test)", f"`{norm(c)}` raises FileNotFoundError when the checksum file is absent, which is the state left by a kill between the two writes of _write (record line {min(rec_pos)}, checksum line {min(md5_pos)}): a resumed apply_to that completes this input crashes")
    chk.floor("R19.10", 1, "drop_not_completed")


def run(chk):
    r19_10(chk)
    # a resumed run ends with the same store only if completing an input retires the not-completed record an
    # interrupted run left for it -- in every mode: C13's R13.3 (the retirement is on every path of a completed write)
    from . import c13

    c13.r13_3(chk)
    r19_9(chk)
    r19_8(chk)
    r19_7(chk)
    r19_6(chk)
    r19_5b(chk)
    r19_1(chk)
    r19_2(chk)
    r19_3(chk)
    r19_4(chk)
    r19_5(chk)
    chk.assume("Path.rename/replace/os.replace onto an existing file is atomic (POSIX rename semantics)")
    chk.assume("the zip commit (append to an archive) is outside the typestate model")
    chk.assume("with-statement __exit__ does not swallow exceptions")
