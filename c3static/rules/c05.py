"""C05 -- substitution processes are valid, calibrated Markov processes.

Numerical identities are not decided.  Decided: the shape that makes them hold by
construction.
R05.1 calcQ template (def-use on the returned matrix): row totals after all
      element-wise scaling, diagonal = -row totals, calibration by
      1/(word_probs * row_totals).sum() last, nothing writes Q afterwards
R05.2 stationarity by MRO: classes with StationaryQ resolve calcQ to it; the
      time-reversible check stays on every path of TimeReversible.__init__
R05.3 rate classes average to one: calc returns X / sum(weights * X)
R05.4 exponentiator option table is exhaustive

Added in build round 2 (see DESIGN.md section 3, round-2 table):
R05.5 P(t) is a function of t alone: in every exponentiator class, __call__ and the self-methods it calls assign no instance attribute (state computed in ...

Added later in build rounds 2-3 (see DESIGN.md section 3, round-2/3 table):
R05.6 GeneralStationary keeps pi stationary by construction: each last-in-column rate is SOLVED from the balance equation (row_total - col_total) / pi_i ...
"""

from __future__ import annotations

import ast

from ..cfg import build
from ..index import AnalysisError, call_name, norm, params_of, strip_docstring, walk_no_nested
from ..literals import try_fold
from ..report import key

SM = "evolve/substitution_model.py"
MODEL_MODULES = ("evolve/substitution_model.py", "evolve/ns_substitution_model.py", "evolve/solved_models.py")


def _names(e):
    return {n.id for n in ast.walk(e) if isinstance(n, ast.Name)}


def _is_sum_axis1(e, q):
    return isinstance(e, ast.Call) and isinstance(e.func, ast.Attribute) and e.func.attr == "sum" and norm(e.func.value) == q and any(kw.arg == "axis" and isinstance(kw.value, ast.Constant) and kw.value.value == 1 for kw in e.keywords) or (
        isinstance(e, ast.Call) and norm(e.func) in ("numpy.sum", "np.sum") and e.args and norm(e.args[0]) == q and any(kw.arg == "axis" and isinstance(kw.value, ast.Constant) and kw.value.value == 1 for kw in e.keywords)
    )


def _is_weighted_total(e, w, rt):
    """(w * rt).sum() or numpy.sum(w * rt) or numpy.dot(w, rt)"""
    if isinstance(e, ast.Call) and isinstance(e.func, ast.Attribute) and e.func.attr == "sum" and not e.args:
        inner = e.func.value
    elif isinstance(e, ast.Call) and norm(e.func) in ("numpy.sum", "np.sum", "sum") and len(e.args) == 1:
        inner = e.args[0]
    elif isinstance(e, ast.Call) and norm(e.func) in ("numpy.dot", "np.dot") and len(e.args) == 2:
        return {norm(e.args[0]), norm(e.args[1])} == {w, rt}
    else:
        return False
    return isinstance(inner, ast.BinOp) and isinstance(inner.op, ast.Mult) and {norm(inner.left), norm(inner.right)} == {w, rt}


def check_calcq(chk, m, q, fn):
    body = strip_docstring(fn.body)
    ps = [p for p in params_of(fn) if p != "self"]
    if len(ps) < 2:
        raise AnalysisError(f"{q}: unexpected signature")
    wp, mp = ps[0], ps[1]
    rets = [s for s in body if isinstance(s, ast.Return)]
    k = key(m, q, "calcQ template")
    if len(rets) != 1 or not isinstance(rets[0].value, ast.Name) or body[-1] is not rets[0] or any(not isinstance(s, (ast.Assign, ast.AugAssign, ast.Expr, ast.Return, ast.Assert)) for s in body):
        chk.unresolved("R05.1", k, m.loc(fn), "calcQ is not a straight-line function returning a name; template not applicable")
        return
    Q = rets[0].value.id
    events = []  # (kind, stmt, extra)
    rt = None
    for s in body[:-1]:
        if isinstance(s, ast.Assign) and len(s.targets) == 1 and isinstance(s.targets[0], ast.Name):
            t = s.targets[0].id
            if t == Q:
                if isinstance(s.value, ast.BinOp) and isinstance(s.value.op, (ast.Mult, ast.Div)) and norm(s.value.left) == Q:
                    events.append(("scale", s, s.value.right if isinstance(s.value.op, ast.Mult) else ast.BinOp(left=ast.Constant(1.0), op=ast.Div(), right=s.value.right)))
                elif isinstance(s.value, ast.BinOp) and isinstance(s.value.op, ast.Sub) and norm(s.value.left) == Q:
                    events.append(("sub", s, s.value.right))
                elif not events:
                    events.append(("init", s, s.value))
                else:
                    events.append(("rebind", s, s.value))
            elif _is_sum_axis1(s.value, Q):
                rt = t
                events.append(("rowsum", s, t))
            elif Q in _names(s.value) and isinstance(s.value, ast.Call) and isinstance(s.value.func, ast.Attribute) and s.value.func.attr == "sum":
                events.append(("othersum", s, t))
        elif isinstance(s, ast.AugAssign) and norm(s.target) == Q:
            if isinstance(s.op, ast.Mult):
                events.append(("scale", s, s.value))
            elif isinstance(s.op, ast.Div):
                events.append(("scale", s, ast.BinOp(left=ast.Constant(1.0), op=ast.Div(), right=s.value)))
            elif isinstance(s.op, ast.Sub):
                events.append(("sub", s, s.value))
            else:
                events.append(("rebind", s, s.value))
        elif isinstance(s, ast.Assign) and isinstance(s.targets[0], ast.Subscript) and norm(s.targets[0].value) == Q:
            events.append(("setitem", s, s.value))
        elif isinstance(s, ast.Expr) and isinstance(s.value, ast.Call) and norm(s.value.func) in ("numpy.fill_diagonal", "np.fill_diagonal") and s.value.args and norm(s.value.args[0]) == Q:
            events.append(("filldiag", s, s.value.args[1]))
        elif isinstance(s, ast.Expr) and isinstance(s.value, ast.Call) and Q in _names(s.value):
            events.append(("call", s, s.value))
    kinds = [e[0] for e in events]
    problems = []
    if not kinds or kinds[0] != "init" or "calc_exchangeability_matrix" not in norm(events[0][2]):
        problems.append("Q is not initialised from calc_exchangeability_matrix(word_probs, *params)")
    if "rowsum" not in kinds:
        problems.append("row totals are not taken as Q.sum(axis=1)" + (" (a sum over another axis/whole matrix is used)" if "othersum" in kinds else ""))
    else:
        i_rs = kinds.index("rowsum")
        # diagonal
        diag_i = None
        for i, (kd, s, x) in enumerate(events):
            if i <= i_rs:
                continue
            if kd == "sub" and isinstance(x, ast.Call) and norm(x.func) in ("numpy.diag", "np.diag") and x.args and norm(x.args[0]) == rt:
                diag_i = i
            if kd == "filldiag" and norm(x) == f"-{rt}":
                diag_i = i
            if kd == "setitem" and norm(x) == f"-{rt}" and "diag" in norm(s.targets[0].slice):
                diag_i = i
        if diag_i is None:
            problems.append(f"the diagonal is not set to minus the row totals `{rt}` after they are computed (rows would not sum to zero)")
        # calibration is the last event and has the right factor
        last = events[-1]
        calib_ok = False
        if last[0] == "scale":
            f = last[2]
            if isinstance(f, ast.BinOp) and isinstance(f.op, ast.Div) and isinstance(f.left, ast.Constant) and float(f.left.value) == 1.0 and _is_weighted_total(f.right, wp, rt):
                calib_ok = True
        if not calib_ok:
            problems.append(f"the last update of Q is not the calibration Q *= 1 / ({wp} * {rt}).sum() (expected rate at the motif probabilities would not be one)")
        elif diag_i is not None and diag_i != len(events) - 2:
            problems.append("something writes Q between fixing the diagonal and the calibration")
        # scaling before the row sums only (besides the calibration)
        for i, (kd, s, x) in enumerate(events[:-1]):
            if kd in ("scale", "rebind", "setitem", "call") and i > i_rs and i != diag_i:
                problems.append(f"`{norm(s)}` changes Q after the row totals were taken")
            if kd == "sub" and i != diag_i:
                problems.append(f"`{norm(s)}` subtracts something other than diag(row totals)")
    return Q, wp, mp, events, problems


def r05_1(chk):
    chk.rule("R05.1", "every calcQ implementation in the continuous-model hierarchy: Q from calc_exchangeability_matrix; element-wise scaling only before row_totals = Q.sum(axis=1); diagonal := -row_totals; last update multiplies by 1/(word_probs*row_totals).sum(); the stationary implementation scales by the motif-probability matrix, the general one does not")
    m = chk.repo.module(SM)
    impls = []
    for rel in MODEL_MODULES:
        mod = chk.repo.module(rel)
        for ci in mod.classes.values():
            if "calcQ" in ci.methods:
                impls.append((mod, ci, ci.methods["calcQ"]))
    for mod, ci, fn in impls:
        q = f"{ci.name}.calcQ"
        res = check_calcq(chk, mod, q, fn)
        if res is None:
            continue
        Q, wp, mp, events, problems = res
        scales_mprobs = any(kd == "scale" and norm(x) == mp for kd, s, x in events)
        stationary = ci.name == "StationaryQ" or any(b.name == "StationaryQ" for b in ci.mro())
        if stationary and not scales_mprobs:
            problems.append(f"the stationary calcQ does not scale the exchangeabilities by `{mp}`: the motif probabilities would not be stationary")
        if not stationary and scales_mprobs:
            problems.append(f"the general calcQ scales by `{mp}`")
        if problems:
            chk.violation("R05.1", key(mod, q, "calcQ template"), mod.loc(fn), "; ".join(problems))
        else:
            chk.ok("R05.1", key(mod, q, "calcQ template"), mod.loc(fn), "init -> " + ("mprobs scaling -> " if scales_mprobs else "") + "row totals(axis=1) -> diagonal -> calibration")
    chk.floor("R05.1", 2, "general and stationary calcQ")


def r05_2(chk):
    chk.rule("R05.2", "every model class with StationaryQ in its linearisation resolves calcQ to StationaryQ.calcQ, every other continuous model to the general one; classes named *Reversible*/Stationary* are stationary and NonReversible*/General are not; TimeReversible.__init__ refuses asymmetric exchangeabilities on every path")
    m = chk.repo.module(SM)
    base = m.cls("_ContinuousSubstitutionModel")
    sq = m.cls("StationaryQ")
    for rel in MODEL_MODULES:
        chk.repo.module(rel)
    n_stat = n_gen = 0
    for ci in chk.repo.subclasses_of(base, strict=False):
        r = ci.resolve("calcQ")
        if r is None:
            chk.violation("R05.2", key(ci.module, ci.name, "calcQ resolution"), ci.module.loc(ci.node), "no calcQ in the MRO")
            continue
        owner = r[0]
        has_sq = sq in ci.mro()
        want = sq if has_sq else None
        k = key(ci.module, ci.name, "calcQ resolution")
        if has_sq:
            n_stat += 1
            ok = owner is sq or (owner is ci and "calcQ" in ci.methods)
            chk.decide(owner is sq or owner is ci, "R05.2", k, ci.module.loc(ci.node), f"calcQ -> {owner.name}.calcQ", f"StationaryQ is a base but calcQ resolves to {owner.name}.calcQ (base order): the motif-probability scaling is silently skipped, which shows only with unequal base frequencies")
        else:
            n_gen += 1
            chk.decide(owner is not sq, "R05.2", k, ci.module.loc(ci.node), f"calcQ -> {owner.name}.calcQ", "resolves to the stationary calcQ without declaring StationaryQ")
        nm = ci.name
        must_stat = (nm.startswith("TimeReversible") or nm.startswith("_TimeReversible") or nm.startswith("Stationary") or nm == "GeneralStationary" or nm == "Empirical" or nm == "PredefinedNucleotide")
        must_not = nm.startswith("NonReversible") or nm in ("General", "StrandSymmetric", "Parametric")
        if must_stat or must_not:
            chk.decide(has_sq == must_stat, "R05.2", key(ci.module, ci.name, "stationarity matches the class's contract"), ci.module.loc(ci.node), "stationary" if has_sq else "general", f"{nm} {'lost' if must_stat else 'gained'} StationaryQ in its bases")
    chk.extra["stationary_classes"] = n_stat
    chk.extra["general_classes"] = n_gen
    chk.floor("R05.2", 30, "21 model classes x (resolution + contract) on the pinned tree")
    # TimeReversible.__init__
    tr = m.func("TimeReversible.__init__")
    g = build(tr)
    tests = [n for n in g.nodes if n.kind == "if" and norm(n.ast.test) == "not self.symmetric" and any(isinstance(s, ast.Raise) for s in n.ast.body)]
    seen = g.reachable([g.entry], blocked=tests, kinds=("n",))
    chk.decide(bool(tests) and id(g.exit) not in seen, "R05.2", key(m, "TimeReversible.__init__", "symmetry enforced"), m.loc(tr), "`if not self.symmetric: raise` on every path", "a TimeReversible model can be built with asymmetric exchangeabilities (detailed balance would not hold)")
    par = m.func("Parametric.__init__")
    sym = [s for s in walk_no_nested(par) if isinstance(s, ast.Assign) and norm(s.targets[0]) == "self.symmetric"]
    chk.decide(any("_isSymmetrical" in norm(s.value) for s in sym), "R05.2", key(m, "Parametric.__init__", "symmetric computed"), m.loc(par), "self.symmetric = _isSymmetrical(mask)", "self.symmetric is no longer computed from the instantaneous mask")


def r05_3(chk):
    chk.rule("R05.3", "every calc of the rate-class (WeightedPartitionDefn) family returns X / S with S = sum(weights * X) for the same X, so that the weighted mean of the rate multipliers is one")
    m = chk.repo.module("recalculation/definition.py")
    base = m.cls("WeightedPartitionDefn")
    n = 0
    for ci in chk.repo.subclasses_of(base, strict=False):
        fn = ci.methods.get("calc")
        if fn is None:
            continue
        n += 1
        q = f"{ci.name}.calc"
        k = key(ci.module, q, "weighted mean one")
        rets = [r for r in walk_no_nested(fn) if isinstance(r, ast.Return)]
        wname = [p for p in params_of(fn) if p != "self"][0]
        ok = False
        detail = "return is not X / scale"
        if len(rets) == 1 and isinstance(rets[0].value, ast.BinOp) and isinstance(rets[0].value.op, ast.Div):
            X, S = norm(rets[0].value.left), norm(rets[0].value.right)
            defs = [s for s in walk_no_nested(fn) if isinstance(s, ast.Assign) and norm(s.targets[0]) == S]
            if defs:
                v = defs[-1].value
                if _is_weighted_total(v, wname, X):
                    ok = True
                    detail = f"return {X} / {S}, {S} = sum({wname} * {X})"
                else:
                    detail = f"{S} = {norm(v)} is not sum({wname} * {X}) for the returned {X}"
        chk.decide(ok, "R05.3", k, ci.module.loc(fn), detail, detail + ": rate-class multipliers would not average to one")
    chk.floor("R05.3", 3, "WeightedPartitionDefn, MonotonicDefn, GammaDefn")


class _PE(Exception):
    pass


class _Raises(Exception):
    pass


def _peval(fn, env):
    """partial evaluation of a small straight-line/if function for known constant arguments.
    Unknown names evaluate to ('sym', name); a call of one to ('call', name, ((kw, value), ...)).
    Returns the returned value, or ('raises',) when every path for these arguments raises."""

    def ev(e):
        if isinstance(e, ast.Constant):
            return e.value
        if isinstance(e, ast.Name):
            return env[e.id] if e.id in env else ("sym", e.id)
        if isinstance(e, ast.Tuple):
            return tuple(ev(x) for x in e.elts)
        if isinstance(e, ast.Dict):
            return {"__dict__": [(ev(k), v) for k, v in zip(e.keys, e.values)]}
        if isinstance(e, ast.Subscript):
            base, idx = ev(e.value), ev(e.slice)
            if isinstance(base, dict) and "__dict__" in base:
                for k, v in base["__dict__"]:
                    if k == idx:
                        return ev(v)
                raise _Raises("KeyError")
            if isinstance(base, tuple) and base[:1] != ("sym",) and isinstance(idx, int):
                return base[idx]
            raise _PE(norm(e))
        if isinstance(e, ast.Call):
            cn = call_name(e)
            if cn == "str" and len(e.args) == 1:
                v = ev(e.args[0])
                if isinstance(v, str):
                    return v
                raise _PE(norm(e))
            if isinstance(e.func, ast.Attribute) and e.func.attr in ("lower", "strip") and not e.args:
                v = ev(e.func.value)
                if isinstance(v, str):
                    return getattr(v, e.func.attr)()
            f = ev(e.func)
            if isinstance(f, tuple) and f[:1] == ("sym",):
                return ("call", f[1], tuple(ev(a) for a in e.args), tuple(sorted((kw.arg, ev(kw.value)) for kw in e.keywords)))
            raise _PE(norm(e))
        if isinstance(e, ast.UnaryOp) and isinstance(e.op, ast.Not):
            return not truth(ev(e.operand))
        if isinstance(e, ast.BoolOp):
            r = None
            for x in e.values:
                r = ev(x)
                t = truth(r)
                if (isinstance(e.op, ast.And) and not t) or (isinstance(e.op, ast.Or) and t):
                    break
            return r
        if isinstance(e, ast.Compare) and len(e.ops) == 1:
            a, b = ev(e.left), ev(e.comparators[0])
            for x in (a, b):
                if isinstance(x, tuple) and x[:1] in (("sym",), ("call",)):
                    raise _PE(norm(e))
            op = e.ops[0]
            if isinstance(op, ast.Eq):
                return a == b
            if isinstance(op, ast.NotEq):
                return a != b
            if isinstance(op, ast.In):
                return a in b
            if isinstance(op, ast.NotIn):
                return a not in b
            if isinstance(op, ast.Is):
                return a is b
            if isinstance(op, ast.IsNot):
                return a is not b
        if isinstance(e, ast.IfExp):
            return ev(e.body) if truth(ev(e.test)) else ev(e.orelse)
        raise _PE(norm(e))

    def truth(v):
        if isinstance(v, tuple) and v[:1] in (("sym",), ("call",)):
            raise _PE("truth value of a symbol")
        if isinstance(v, dict):
            raise _PE("truth value of a table")
        return bool(v)

    class _Ret(Exception):
        def __init__(self, v):
            self.v = v

    def bind(t, v):
        if isinstance(t, ast.Name):
            env[t.id] = v
        elif isinstance(t, (ast.Tuple, ast.List)) and isinstance(v, tuple) and len(v) == len(t.elts):
            for a, b in zip(t.elts, v):
                bind(a, b)
        else:
            raise _PE(f"target {norm(t)}")

    def run(stmts):
        for st in stmts:
            if isinstance(st, ast.Expr) and isinstance(st.value, ast.Constant):
                continue
            if isinstance(st, ast.Assign):
                v = ev(st.value)
                for t in st.targets:
                    bind(t, v)
            elif isinstance(st, ast.If):
                run(st.body if truth(ev(st.test)) else st.orelse)
            elif isinstance(st, ast.Return):
                raise _Ret(ev(st.value) if st.value is not None else None)
            elif isinstance(st, ast.Raise):
                raise _Raises(norm(st))
            elif isinstance(st, ast.Assert):
                if not truth(ev(st.test)):
                    raise _Raises("assert")
            else:
                raise _PE(f"statement {norm(st)[:50]}")

    try:
        run(fn.body)
    except _Ret as r:
        return r.v
    except _Raises:
        return ("raises",)
    return None


def r05_4(chk):
    chk.rule("R05.4", "ExpDefn.calc gives each documented exponentiator setting its documented meaning: evaluating the method for the four option strings (partial evaluation with the string known, class names symbolic) yields eigen -> FastExponentiator, checked -> CheckedExponentiator, pade -> PadeExponentiator, either -> _EigenPade(eigen=CheckedExponentiator) -- the 'either' setting (the default) falls back to Pade only if the eigen route is the CHECKED one; every setting returns an exponentiator; the default setting is one of the four")
    m = chk.repo.module("evolve/substitution_calculation.py")
    fn = m.func("ExpDefn.calc")
    par = [p for p in params_of(fn) if p != "self"][0]
    want = {
        "eigen": ("sym", "FastExponentiator"),
        "checked": ("sym", "CheckedExponentiator"),
        "pade": ("sym", "PadeExponentiator"),
        "either": ("call", "_EigenPade", (), (("eigen", ("sym", "CheckedExponentiator")),)),
    }

    def show(v):
        if isinstance(v, tuple) and v[:1] == ("sym",):
            return v[1]
        if isinstance(v, tuple) and v[:1] == ("call",):
            return f"{v[1]}({', '.join([show(a) for a in v[2]] + [f'{k}={show(x)}' for k, x in v[3]])})"
        return repr(v)

    for opt in sorted(want):
        k = key(m, "ExpDefn.calc", f"option {opt}")
        try:
            got = _peval(fn, {par: opt})
        except (_PE, KeyError) as e:
            chk.unresolved("R05.4", k, m.loc(fn), f"calc uses a construct the partial evaluator does not model: {e}")
            continue
        # positional spelling of the wrapper's argument is the same thing
        if isinstance(got, tuple) and got[:1] == ("call",) and got[1] == "_EigenPade" and len(got[2]) == 1 and not got[3]:
            got = ("call", "_EigenPade", (), (("eigen", got[2][0]),))
        if got == ("raises",) or got is None:
            chk.violation("R05.4", key(m, "ExpDefn.calc", "option table"), m.loc(fn), f"the documented setting {opt!r} " + ("is refused" if got else "returns nothing") + ": models asking for it cannot compute a transition matrix")
        else:
            chk.decide(got == want[opt], "R05.4", k, m.loc(fn), f"{opt} -> {show(got)}", f"expm={opt!r} selects {show(got)}, documented meaning is {show(want[opt])}" + (": the eigen-decomposition result is returned unchecked, so a (nearly) defective rate matrix gives a wrong P instead of falling back to Pade" if opt == "either" else ""))
    # every path returns something
    g = build(fn)
    rets = [n for n in g.nodes if n.kind == "return"]
    seen = g.reachable([g.entry], blocked=rets + [n for n in g.nodes if n.kind == "raise"], kinds=("n",))
    chk.decide(id(g.exit) not in seen and all(r.ast.value is not None for r in rets), "R05.4", key(m, "ExpDefn.calc", "always returns an exponentiator"), m.loc(fn), f"{len(rets)} returns cover every path", "a flag combination falls off the end (returns None)")
    # default setting is one of the keys
    sm = chk.repo.module(SM)
    d = sm.cls("_ContinuousSubstitutionModel").assigns.get("_default_expm_setting")
    okd, dv = try_fold(d, sm) if d is not None else (False, None)
    chk.decide(okd and dv in want, "R05.4", key(sm, "_ContinuousSubstitutionModel", "_default_expm_setting"), sm.loc(d) if d is not None else sm.loc(sm.cls("_ContinuousSubstitutionModel").node), f"default {dv!r} is a documented setting", f"default {dv!r} is not one of the documented settings")
    chk.floor("R05.4", 6, "4 options, returns, default")


EXP_STATE_ALLOWED = {("TaylorExponentiator", "q"): "series-length hint only: the loop still iterates to convergence, so the result does not depend on it; not selectable through ExpDefn"}


def r05_5(chk):
    chk.rule("R05.5", "P(t) is a function of t alone: in every exponentiator class, __call__ and the self-methods it calls assign no instance attribute (state computed in one call and reused in the next makes the result depend on the order in which branch lengths are evaluated)")
    m = chk.repo.module("maths/matrix_exponentiation.py")
    base = m.cls("_Exponentiator")
    n = 0
    for ci in chk.repo.subclasses_of(base, strict=True):
        r = ci.resolve("__call__")
        if not r or not isinstance(r[1], ast.FunctionDef):
            continue
        n += 1
        seen, todo, writes = set(), [r[1]], []
        while todo:
            fn = todo.pop()
            if id(fn) in seen:
                continue
            seen.add(id(fn))
            for x in walk_no_nested(fn):
                if isinstance(x, ast.Attribute) and isinstance(x.ctx, (ast.Store, ast.Del)) and isinstance(x.value, ast.Name) and x.value.id == "self":
                    writes.append((fn, x))
                if isinstance(x, ast.Subscript) and isinstance(x.ctx, (ast.Store, ast.Del)) and isinstance(x.value, ast.Attribute) and norm(x.value.value) == "self":
                    writes.append((fn, x.value))
                if isinstance(x, ast.Call) and isinstance(x.func, ast.Attribute) and isinstance(x.func.value, ast.Name) and x.func.value.id == "self":
                    rr = ci.resolve(x.func.attr)
                    if rr and isinstance(rr[1], ast.FunctionDef) and rr[1].name != "__init__":
                        todo.append(rr[1])
        bad = [(fn, a) for fn, a in writes if (ci.name, a.attr) not in EXP_STATE_ALLOWED]
        k = key(ci.module, f"{ci.name}.__call__", "stateless evaluation")
        if bad:
            fn, a = bad[0]
            chk.violation("R05.5", key(ci.module, f"{ci.name}.{fn.name}", f"stores self.{a.attr} during evaluation"), ci.module.loc(a), f"`self.{a.attr}` is assigned while evaluating P(t): a value worked out for one branch length is reused for the next, so P(t) depends on the call history and the back-ends stop agreeing")
        else:
            chk.ok("R05.5", k, ci.module.loc(r[1]), "no instance state written during evaluation" + (" (allow-listed: " + ", ".join(a.attr for _, a in writes) + ")" if writes else ""))
    chk.floor("R05.5", 3, "Eigen, Taylor, Pade exponentiators")


def r05_7(chk):
    chk.rule("R05.7", "which exponentiator serves a rate matrix depends on that matrix alone: in the selector `_EigenPade.__call__` (expm='either') no attribute that the call itself assigns decides what is returned -- a flag written by one call may only guard the one-off warning; 'eigen was fine for the first Q' says nothing about the next Q (a non-reversible model can move to a defective Q, for which the unchecked eigen path returns matrices whose rows do not sum to one)")
    m = chk.repo.module("evolve/substitution_calculation.py")
    q = "_EigenPade.__call__"
    fn = m.func(q)
    written = {x.attr for x in walk_no_nested(fn) if isinstance(x, ast.Attribute) and isinstance(x.ctx, ast.Store) and isinstance(x.value, ast.Name) and x.value.id == "self"}
    bad = None
    n = 0
    for st in walk_no_nested(fn):
        if not isinstance(st, (ast.If, ast.IfExp, ast.While)):
            continue
        reads = {x.attr for x in ast.walk(st.test) if isinstance(x, ast.Attribute) and isinstance(x.value, ast.Name) and x.value.id == "self"} & written
        if not reads:
            continue
        n += 1
        arms = (st.body + st.orelse) if isinstance(st, (ast.If, ast.While)) else [st.body, st.orelse]
        for a in arms:
            for x in ast.walk(a):
                if isinstance(x, (ast.Return, ast.Yield)) or (isinstance(x, ast.Assign) and not all(isinstance(t, ast.Attribute) and t.attr in written for t in x.targets)):
                    bad = (st, sorted(reads))
    k = key(m, q, "selection independent of earlier calls")
    if bad:
        chk.violation("R05.7", k, m.loc(bad[0]), f"`if {norm(bad[0].test)}` reads {bad[1]}, which an earlier call of the same selector wrote, and decides what is returned: the exponentiator used for Q depends on the matrices seen before")
    else:
        chk.ok("R05.7", k, m.loc(fn), f"state written by the call ({sorted(written)}) guards only the warning", nontrivial=bool(written))
    # the checked path is tried on every call
    from ..cfg import build

    g = build(fn)
    tries = g.nodes_containing(lambda x: isinstance(x, ast.Call) and norm(x.func) == "self.eigen")
    rets = [nd for nd in g.nodes if isinstance(getattr(nd, "ast", None), ast.Return) and not any(isinstance(h, ast.ExceptHandler) and any(nd.ast is y for y in ast.walk(h)) for h in walk_no_nested(fn))]
    okp = bool(tries) and all(g.dominated_by(r_, tries, kinds=("n",))[0] for r_ in rets)
    chk.decide(okp, "R05.7", key(m, q, "checked eigen attempted for every Q"), m.loc(fn), "every non-handler return is dominated by self.eigen(Q)", "a return outside the exception handler is reachable without calling self.eigen(Q): that Q is exponentiated without the check")
    chk.floor("R05.7", 2, "_EigenPade.__call__")


def r05_8(chk):
    chk.rule("R05.8", "rate-class multipliers average to one only when `rate` is a partitioned parameter: _make_bin_param_defn returns a plain per-bin ParamDefn (free, unnormalised) for a name that is not in partitioned_params, and make_distance_defn asks it for 'rate' whenever with_rate is set -- so the constructor must put 'rate' among the partitioned parameters whenever with_rate is true (it does the converse: 'rate' partitioned => with_rate)")
    m = chk.repo.module("evolve/substitution_model.py")
    mk = m.func("_ContinuousSubstitutionModel._make_bin_param_defn")
    free = [st for st in walk_no_nested(mk) if isinstance(st, ast.If) and "not in self.partitioned_params" in norm(st.test) and any(isinstance(r, ast.Return) and isinstance(r.value, ast.Call) and call_name(r.value) == "ParamDefn" for r in st.body)]
    dist = m.func("_ContinuousSubstitutionModel.make_distance_defn")
    asks = [c for c in walk_no_nested(dist) if isinstance(c, ast.Call) and norm(c.func) == "self._make_bin_param_defn" and c.args and isinstance(c.args[0], ast.Constant) and c.args[0].value == "rate"]
    init = m.func("_ContinuousSubstitutionModel.__init__")
    k = key(m, "_ContinuousSubstitutionModel.__init__", "with_rate implies rate is partitioned")
    if not free or not asks:
        chk.ok("R05.8", k, m.loc(init), "no unnormalised per-bin branch reachable for 'rate'", nontrivial=False)
    else:
        ensures = False
        for st in walk_no_nested(init):
            if isinstance(st, ast.If) and "with_rate" in norm(st.test):
                for x in ast.walk(st):
                    if isinstance(x, (ast.Assign, ast.AugAssign)) and "partitioned_params" in norm(x.targets[0] if isinstance(x, ast.Assign) else x.target) and any(isinstance(c_, ast.Constant) and c_.value == "rate" for c_ in ast.walk(x.value)):
                        ensures = True
        chk.decide(ensures, "R05.8", k, m.loc(asks[0]) if not ensures else m.loc(init), "'rate' is added to partitioned_params under with_rate", "with_rate=True without 'rate' among the partitioned parameters (e.g. get_model('HKY85', with_rate=True), or ordered_param='kappa') makes the per-bin rate a free, unnormalised parameter: lf.set_param_rule('rate', bin='bin0', value=3.0) and bin1=2.0 with bprobs [0.5, 0.5] is accepted -- mean rate 2.5, so a branch length is no longer the expected number of substitutions per site")
    chk.floor("R05.8", 1, "constructor")


def r05_9(chk):
    chk.rule("R05.9", "word probabilities are a distribution over the model's words: every calc_word_probs that forms them as products of monomer probabilities (numpy.prod) divides the products by their sum before returning -- the tuple alphabet can be a proper subset of all words (sense codons, user-given motifs), so the raw products sum to less than one and Q would no longer be scaled to one expected substitution at the model's motif probabilities")
    m = chk.repo.module("evolve/motif_prob_model.py")
    n = 0
    for cname, ci in sorted(m.classes.items()):
        fn = ci.methods.get("calc_word_probs")
        if not isinstance(fn, ast.FunctionDef):
            continue
        prods = [c for c in walk_no_nested(fn) if isinstance(c, ast.Call) and (call_name(c) or "").split(".")[-1] == "prod"]
        if not prods:
            continue
        n += 1
        rets = [r for r in walk_no_nested(fn) if isinstance(r, ast.Return) and r.value is not None]
        normalised = set()
        for st in walk_no_nested(fn):
            if isinstance(st, ast.AugAssign) and isinstance(st.op, ast.Div) and isinstance(st.target, ast.Name) and norm(st.value) in (f"{st.target.id}.sum()", f"numpy.sum({st.target.id})", f"sum({st.target.id})"):
                normalised.add(st.target.id)
            if isinstance(st, ast.Assign) and isinstance(st.value, ast.BinOp) and isinstance(st.value.op, ast.Div) and ".sum()" in norm(st.value.right) and isinstance(st.targets[0], ast.Name):
                normalised.add(st.targets[0].id)
        okr = bool(rets) and all((isinstance(r.value, ast.Name) and r.value.id in normalised) or (isinstance(r.value, ast.BinOp) and isinstance(r.value.op, ast.Div) and "sum" in norm(r.value.right)) for r in rets)
        chk.decide(okr, "R05.9", key(m, f"{cname}.calc_word_probs", "products renormalised"), m.loc(rets[0] if rets else fn), "returned value was divided by its sum", f"{cname}.calc_word_probs returns `{norm(rets[0].value)[:60] if rets else ''}` without dividing the products by their sum: for a codon model with per-position nucleotide frequencies the word probabilities sum to 0.93 and a branch of length 0.3 carries 0.32 expected substitutions")
    chk.floor("R05.9", 2, "MonomerProbModel and PosnSpecificMonomerProbModel")


def r05_10(chk):
    chk.rule("R05.10", "a model is reversible only if EVERY rate parameter multiplies a symmetric set of exchanges: Parametric.__init__ tests each predicate's own mask with _isSymmetrical and clears the flag if any one fails -- the parameters vary independently, so two one-directional predicates whose masks merely add up to a symmetric coverage (A>G and G>A) do not satisfy detailed balance")
    m = chk.repo.module("evolve/substitution_model.py")
    q = "Parametric.__init__"
    fn = m.func(q)
    loops = [lp for lp in walk_no_nested(fn) if isinstance(lp, ast.For) and "predicate" in norm(lp.iter)]
    ok_ = False
    where = fn
    for lp in loops:
        masks = {st.targets[0].id for st in ast.walk(lp) if isinstance(st, ast.Assign) and isinstance(st.targets[0], ast.Name) and isinstance(st.value, ast.Subscript) and "predicate_masks" in norm(st.value.value)}
        for c in ast.walk(lp):
            if isinstance(c, ast.Call) and (call_name(c) or "") == "_isSymmetrical" and c.args and ((isinstance(c.args[0], ast.Name) and c.args[0].id in masks) or "predicate_masks[" in norm(c.args[0])):
                clears = any(isinstance(st, ast.Assign) and norm(st.targets[0]) == "self.symmetric" and isinstance(st.value, ast.Constant) and st.value.value is False for st in ast.walk(lp)) or any(isinstance(st, ast.Assign) and norm(st.targets[0]) == "self.symmetric" and any(x is c for x in ast.walk(st.value)) for st in ast.walk(lp))
                if clears:
                    ok_ = True
                    where = c
    chk.decide(ok_, "R05.10", key(m, q, "each predicate mask tested for symmetry"), m.loc(where), "_isSymmetrical(mask) inside the loop over the predicates clears self.symmetric", "no per-predicate symmetry test: a set of predicates whose masks only add up to a symmetric coverage is accepted as time reversible (MotifChange('A','G',forward_only=True) + MotifChange('G','A',forward_only=True) with different values break detailed balance)")
    chk.floor("R05.10", 1, "Parametric.__init__")


def r05_6(chk):
    chk.rule("R05.6", "GeneralStationary keeps pi stationary by construction: each last-in-column rate is SOLVED from the balance equation (row_total - col_total) / pi_i and used as solved -- it may be replaced by its absolute value only when it is numerically zero (allclose), and a negative solution means the free rates admit no stationary process at this pi, which is refused with ParameterOutOfBoundsError; clamping it (max(..., 0), clip, unconditional abs) returns a Q for which pi Q != 0 while the model still declares itself stationary")
    m = chk.repo.module("evolve/ns_substitution_model.py")
    fn = m.func("GeneralStationary.calc_exchangeability_matrix")
    stores = [st for st in walk_no_nested(fn) if isinstance(st, ast.Assign) and isinstance(st.targets[0], ast.Subscript) and isinstance(st.value, ast.BinOp) and isinstance(st.value.op, ast.Div) and isinstance(st.value.left, ast.Name)]
    if not stores:
        raise AnalysisError("GeneralStationary.calc_exchangeability_matrix: the solved-rate store `R[i, j] = required / mprobs[i]` was not found")
    x = stores[0].value.left.id
    defs = [st for st in walk_no_nested(fn) if isinstance(st, ast.Assign) and any(isinstance(t, ast.Name) and t.id == x for t in st.targets)]
    solved = [d for d in defs if isinstance(d.value, ast.BinOp) and isinstance(d.value.op, ast.Sub)]
    bad = []
    for d in defs:
        if d in solved:
            continue
        v = d.value
        okv = isinstance(v, ast.IfExp) and "allclose" in norm(v.test) and norm(v.orelse) == x and norm(v.body) in (f"abs({x})", "0.0", "0")
        if not okv:
            bad.append(d)
    k1 = key(m, "GeneralStationary.calc_exchangeability_matrix", "solved rate used as solved")
    chk.decide(bool(solved) and not bad, "R05.6", k1, m.loc(bad[0] if bad else stores[0]), f"`{x}` = row_total - col_total, |.| only when allclose to zero", f"`{norm(bad[0]) if bad else x}` alters the solution of the balance equation: a negative value is silently replaced, the returned matrix has zero row sums and passes calibration but pi is not its stationary distribution")
    raises = [i for i in walk_no_nested(fn) if isinstance(i, ast.If) and any(isinstance(r, ast.Raise) and "ParameterOutOfBoundsError" in norm(r) for r in i.body) and x in {n.id for n in ast.walk(i.test) if isinstance(n, ast.Name)} and any(isinstance(o, ast.Lt) for c in ast.walk(i.test) if isinstance(c, ast.Compare) for o in c.ops)]
    chk.decide(bool(raises), "R05.6", key(m, "GeneralStationary.calc_exchangeability_matrix", "infeasible point refused"), m.loc(raises[0] if raises else fn), f"`if {x} < 0: raise ParameterOutOfBoundsError`", "a negative solved rate is no longer refused with ParameterOutOfBoundsError: the optimiser is handed a non-stationary process as if it were in bounds")
    chk.floor("R05.6", 2, "solution used as solved; infeasible point refused")


def r05_11(chk):
    chk.rule("R05.11", "the uncalibrated rate matrix a likelihood function reports is the one behind the transition matrix: every LikelihoodFunction method with a `calibrated` option that, when it is off, scales Q by the edge's `length` also scales by the bin's `rate` multiplier (rate-heterogeneity models) -- the documented contract is expm(Q) == get_psub_for_edge(...), and the sibling getters must agree")
    m = chk.repo.module("evolve/likelihood_function.py")
    ci = m.cls("LikelihoodFunction")
    n = 0
    for name, fn in ci.methods.items():
        if not isinstance(fn, ast.FunctionDef) or "calibrated" not in params_of(fn):
            continue
        guards = [i for i in ast.walk(fn) if isinstance(i, ast.If) and norm(i.test) in ("not calibrated", "calibrated is False", "calibrated == False")]
        scaled = [i for i in guards if any(isinstance(c, ast.Call) and isinstance(c.func, ast.Attribute) and c.func.attr == "get_param_value" and c.args and norm(c.args[0]) == "'length'" for c in ast.walk(i))]
        if not scaled:
            continue
        n += 1
        uses_rate = any(
            (isinstance(c, ast.Call) and isinstance(c.func, ast.Attribute) and c.func.attr == "get_param_value" and c.args and norm(c.args[0]) == "'rate'")
            or (isinstance(c, ast.Name) and c.id in _rate_names(fn))
            for i in scaled for c in ast.walk(i)
        )
        chk.decide(uses_rate, "R05.11", key(m, f"LikelihoodFunction.{name}", "uncalibrated Q scaled by length and bin rate"), m.loc(scaled[0]), "length and the bin's rate both enter the scale", "with calibrated=False Q is multiplied by the edge length only: for a rate-heterogeneity model expm(Q) is not the bin's transition matrix (get_psub_for_edge) -- it differs by the bin's rate multiplier")
    chk.floor("R05.11", 2, "get_all_rate_matrices and get_rate_matrix_for_edge")


def _rate_names(fn):
    """locals bound from the model's 'rate' definition (self.defn_for.get('rate' ...) / defn_for['rate']) or derived from them"""
    names = set()
    changed = True
    while changed:
        changed = False
        for st in walk_no_nested(fn):
            if isinstance(st, ast.Assign) and len(st.targets) == 1 and isinstance(st.targets[0], ast.Name) and st.targets[0].id not in names:
                v = norm(st.value)
                if "defn_for.get('rate'" in v or "defn_for['rate']" in v or any(isinstance(x, ast.Name) and x.id in names for x in ast.walk(st.value)):
                    # only values, not index bookkeeping: require the word rate in the target or a .values access
                    if "rate" in st.targets[0].id:
                        names.add(st.targets[0].id)
                        changed = True
    return names


def run(chk):
    r05_11(chk)
    r05_10(chk)
    r05_9(chk)
    r05_8(chk)
    r05_7(chk)
    r05_6(chk)
    r05_5(chk)
    r05_1(chk)
    r05_2(chk)
    r05_3(chk)
    r05_4(chk)
    chk.assume("calc_exchangeability_matrix returns non-negative off-diagonals with a zero diagonal (mask construction is not analysed)")
