"""C16 -- nested-model initialisation and optimisation never lose likelihood.

Decided (the optimisation half): the returned point is the best point ever
evaluated, the start included, it is in bounds, and the model state is written back
on every exit.  Projection exactness of initialise_from_nested is not decided.
R16.1 best-so-far is what maximise returns (reaching definitions + finally)
R16.2 every evaluation is tracked, the start included (wrapper-chain order)
R16.3 bounds: order of the wrappers and of the (lower, upper) pair end to end
R16.4 the controller state is written back in a finally

Added in build round 2 (see DESIGN.md section 3, round-2 table):
R16.5 nested-model initialisation: the projection (_ParamProjection.update_param_rules) writes the projected value of every rule under one key; the ...

Added later in build rounds 2-3 (see DESIGN.md section 3, round-2/3 table):
R16.6 the app-level initialiser hands initialise_from_nested ONE likelihood function: model_result.lf is a mapping {identifier: lf} when the result holds ...
"""

from __future__ import annotations

import ast

from ..cfg import build, own_exprs
from ..defuse import reaching_definitions
from ..index import AnalysisError, call_name, norm, params_of, walk_no_nested
from ..report import key

OPT = "maths/optimisers.py"


def _call_in(node, name):
    for e in own_exprs(node):
        for c in ast.walk(e):
            if isinstance(c, ast.Call) and (call_name(c) or "").split(".")[-1] == name:
                return c
    return None


def r16_1(chk):
    chk.rule("R16.1", "in maximise every definition of x that reaches a return derives from the unpacking of get_best(), and get_best() runs on every path (normal or exceptional) that leaves the optimiser calls")
    m = chk.repo.module(OPT)
    fn = m.func("maximise")
    g = build(fn)
    # the tracker: (get_best, f) = limited_use(f, ...)
    tracker = None
    for st in walk_no_nested(fn):
        if isinstance(st, ast.Assign) and isinstance(st.value, ast.Call) and call_name(st.value) == "limited_use" and isinstance(st.targets[0], ast.Tuple):
            tracker = st
    if tracker is None:
        raise AnalysisError("maximise: `(get_best, f) = limited_use(f, ...)` not found")
    gb_name = tracker.targets[0].elts[0].id
    best_nodes = [n for n in g.nodes if n.kind == "stmt" and isinstance(n.ast, ast.Assign) and isinstance(n.ast.value, ast.Call) and call_name(n.ast.value) == gb_name]
    if not best_nodes:
        chk.violation("R16.1", key(m, "maximise", "get_best() unpacked"), m.loc(fn), f"{gb_name}() is never called: the best point seen is discarded")
        return
    # which unpack position is x?  get_best returns (best_fval, best_x, evals)
    lu = m.func("limited_use")
    gbf = [f for f in ast.walk(lu) if isinstance(f, ast.FunctionDef) and f.name == "get_best"]
    if not gbf:
        raise AnalysisError("limited_use.get_best not found")
    ret = [r for r in ast.walk(gbf[0]) if isinstance(r, ast.Return) and isinstance(r.value, ast.Tuple)]
    if not ret:
        raise AnalysisError("limited_use.get_best: tuple return not found")
    pos_x = [i for i, e in enumerate(ret[0].value.elts) if norm(e).startswith("best_x")]
    tgt = best_nodes[0].ast.targets[0]
    xvar = None
    if isinstance(tgt, ast.Tuple) and pos_x and pos_x[0] < len(tgt.elts) and isinstance(tgt.elts[pos_x[0]], ast.Name):
        xvar = tgt.elts[pos_x[0]].id
    chk.decide(xvar is not None, "R16.1", key(m, "maximise", "best_x position"), m.loc(best_nodes[0].ast), f"get_best() returns {norm(ret[0].value)}; position {pos_x[0] if pos_x else '?'} is unpacked into `{xvar}`", "the unpacking of get_best() does not bind the best point (tuple positions of get_best and its caller disagree)")
    if xvar is None:
        return
    IN, OUT = reaching_definitions(g)
    best_ids = {n.id for n in best_nodes}

    xinit = params_of(fn)[1]

    def derived(def_id, seen):
        """the value bound at def_id comes from the best-tracker: it is the unpacking of get_best(), or an
        assignment whose value uses a best-derived local, does not use the start point, and, when it uses
        the point variable itself, only sees best-derived definitions of it"""
        if def_id in best_ids:
            return True
        if def_id in seen:
            return True
        seen = seen | {def_id}
        node = g.nodes[def_id]
        if node.kind != "stmt" or not isinstance(node.ast, ast.Assign):
            return False
        used = {n.id for n in ast.walk(node.ast.value) if isinstance(n, ast.Name)}
        if xinit in used:
            return False
        local = {v: IN[def_id][v] for v in used if v in IN[def_id]}
        if xvar in local and not all(derived(d, seen) for d in local[xvar]):
            return False
        return any(ds and all(derived(d, seen) for d in ds) for ds in local.values())

    for r in [n for n in g.nodes if n.kind == "return"]:
        names = {n.id for n in ast.walk(r.ast) if isinstance(n, ast.Name)} if r.ast.value is not None else set()
        if xvar not in names:
            chk.violation("R16.1", key(m, "maximise", f"return {norm(r.ast.value) if r.ast.value else ''}"), m.loc(r.ast), f"returns something other than the best point `{xvar}`")
            continue
        defs = IN[r.id].get(xvar, set())
        bad = [d for d in defs if not derived(d, frozenset())]
        chk.decide(not bad and bool(defs), "R16.1", key(m, "maximise", f"return {norm(r.ast.value)}"), m.loc(r.ast), f"every definition of `{xvar}` reaching this return derives from {gb_name}()", "a definition of the returned point that does not come from the best-tracker reaches this return: " + ", ".join(f"L{g.nodes[d].lineno}" for d in bad))
    opts = g.nodes_containing(lambda x: isinstance(x, ast.Call) and isinstance(x.func, ast.Attribute) and x.func.attr == "maximise")
    if len(opts) < 2:
        raise AnalysisError("maximise: the two optimiser calls were not found")
    for o in opts:
        ok, path = g.always_followed_by(o, best_nodes, exceptional=True, from_kinds=("n", "x"))
        chk.decide(ok, "R16.1", key(m, "maximise", f"get_best after {norm(_call_in(o, 'maximise').func.value)}.maximise L{'G' if o is opts[0] else 'L'}"), m.loc(o.ast), f"{gb_name}() on every path leaving the optimiser call (finally)", f"an exit path skips {gb_name}(): {g.show_path(path) if path else ''} -- the calculator is left at the last, not the best, point")
    chk.floor("R16.1", 4, "position, >=1 return, 2 optimiser calls")


def r16_2(chk):
    chk.rule("R16.2", "the tracker limited_use is the innermost wrapper: it is applied first, the start point is evaluated through it, both optimisers receive the wrapped f; wrapped_f updates the best only on improvement and stores a copy of x")
    m = chk.repo.module(OPT)
    fn = m.func("maximise")
    g = build(fn)
    wraps = []
    for n in g.nodes:
        if n.kind == "stmt" and isinstance(n.ast, ast.Assign) and isinstance(n.ast.value, ast.Call):
            cn = call_name(n.ast.value)
            if cn in ("limited_use", "bounded_function", "bounds_exception_catching_function"):
                wraps.append((cn, n))
    names = {cn: n for cn, n in wraps}
    if "limited_use" not in names:
        raise AnalysisError("maximise: limited_use wrapper not found")
    lu = names["limited_use"]
    fparam = params_of(fn)[0]
    arg0 = lu.ast.value.args[0] if lu.ast.value.args else None
    chk.decide(isinstance(arg0, ast.Name) and arg0.id == fparam, "R16.2", key(m, "maximise", "limited_use wraps the raw function"), m.loc(lu.ast), f"limited_use({fparam}, ...)", "limited_use does not wrap the raw objective")
    for cn in ("bounded_function", "bounds_exception_catching_function"):
        if cn in names:
            ok, _ = g.dominated_by(names[cn], [lu])
            chk.decide(ok, "R16.2", key(m, "maximise", f"{cn} outside limited_use"), m.loc(names[cn].ast), f"{cn} is applied after (outside) limited_use", f"{cn} is applied before limited_use: evaluations it rejects or converts would be recorded as best")
    # initial evaluation through the tracker
    fvar = lu.ast.targets[0].elts[1].id if isinstance(lu.ast.targets[0], ast.Tuple) else None
    first_eval = [n for n in g.nodes if n.kind == "stmt" and isinstance(n.ast, ast.Assign) and isinstance(n.ast.value, ast.Call) and isinstance(n.ast.value.func, ast.Name) and n.ast.value.func.id == fvar]
    if not first_eval:
        chk.violation("R16.2", key(m, "maximise", "start point evaluated"), m.loc(fn), "the start point is not evaluated before optimisation: an optimiser that only finds worse points returns a lower likelihood than it started from")
    else:
        ok, _ = g.dominated_by(first_eval[0], [lu])
        opts = g.nodes_containing(lambda x: isinstance(x, ast.Call) and isinstance(x.func, ast.Attribute) and x.func.attr == "maximise")
        before = all(g.dominated_by(o, first_eval)[0] for o in opts)
        chk.decide(ok and before, "R16.2", key(m, "maximise", "start point evaluated"), m.loc(first_eval[0].ast), "f(xinit) is evaluated through the tracker before any optimiser runs", "the start point is evaluated outside the tracker or after an optimiser")
    for c in [c for c in walk_no_nested(fn) if isinstance(c, ast.Call) and isinstance(c.func, ast.Attribute) and c.func.attr == "maximise"]:
        chk.decide(bool(c.args) and isinstance(c.args[0], ast.Name) and c.args[0].id == fvar, "R16.2", key(m, "maximise", f"{norm(c.func)} receives wrapped f"), m.loc(c), f"{norm(c.func)}({fvar}, ...)", "the optimiser is handed a function that bypasses the tracker")
    # wrapped_f
    lufn = m.func("limited_use")
    wf = [f for f in ast.walk(lufn) if isinstance(f, ast.FunctionDef) and f.name == "wrapped_f"]
    if not wf:
        raise AnalysisError("limited_use.wrapped_f not found")
    wf = wf[0]
    ifs = [i for i in walk_no_nested(wf) if isinstance(i, ast.If) and isinstance(i.test, ast.Compare) and "best_fval" in norm(i.test)]
    good = False
    detail = "no comparison against best_fval"
    if ifs:
        t = ifs[0].test
        left, op, right = norm(t.left), t.ops[0], norm(t.comparators[0])
        improving = (left == "fval" and isinstance(op, (ast.Gt, ast.GtE)) and right.startswith("best_fval")) or (right == "fval" and isinstance(op, (ast.Lt, ast.LtE)) and left.startswith("best_fval"))
        stores = {norm(s.targets[0]): norm(s.value) for s in ifs[0].body if isinstance(s, ast.Assign)}
        copy_ok = any(k_.startswith("best_x") and v in ("x.copy()", "numpy.array(x)", "numpy.copy(x)", "x.copy(order='C')") for k_, v in stores.items())
        val_ok = any(k_.startswith("best_fval") and v == "fval" for k_, v in stores.items())
        good = improving and copy_ok and val_ok
        detail = f"test `{norm(t)}`, stores {stores}"
    chk.decide(good, "R16.2", key(m, "limited_use.wrapped_f", "best updated on improvement with a copy"), m.loc(ifs[0] if ifs else wf), detail, "best-so-far bookkeeping wrong: " + detail + " (must update only when fval improves, keep fval and a copy of x)")
    evalcall = [s for s in wf.body if isinstance(s, ast.Assign) and isinstance(s.value, ast.Call) and norm(s.value.func) == "f"]
    chk.decide(bool(evalcall) and norm(evalcall[0].targets[0]) == "fval", "R16.2", key(m, "limited_use.wrapped_f", "evaluates f"), m.loc(wf), "fval = f(x)", "wrapped_f does not evaluate f(x) into fval")
    chk.floor("R16.2", 7, "wrapper order, start evaluation, 2 optimiser calls, tracker bookkeeping")


def r16_3(chk):
    chk.rule("R16.3", "bounds travel in (lower, upper) order end to end: get_bounds_vectors -> Calculator.optimise -> maximise(bounds) -> bounded_function(lower_bounds, upper_bounds), whose test is lower <= x <= upper")
    m = chk.repo.module(OPT)
    bf = m.func("bounded_function")
    ps = params_of(bf)
    w = [f for f in ast.walk(bf) if isinstance(f, ast.FunctionDef) and f.name == "_wrapper"]
    if not w:
        raise AnalysisError("bounded_function._wrapper not found")
    tests = [i for i in walk_no_nested(w[0]) if isinstance(i, ast.If)]
    cmps = [c for c in ast.walk(tests[0].test) if isinstance(c, ast.Compare)] if tests else []
    txt = sorted(norm(c) for c in cmps)
    good = txt == sorted([f"{ps[1]} <= x", f"x <= {ps[2]}"]) and any(isinstance(c, ast.Call) and norm(c.func).endswith("logical_and") for c in ast.walk(tests[0].test)) and any(isinstance(c, ast.Call) and norm(c.func).endswith("all") for c in ast.walk(tests[0].test))
    chk.decide(good, "R16.3", key(m, "bounded_function._wrapper", "in-bounds test"), m.loc(tests[0] if tests else bf), f"all({ps[1]} <= x and x <= {ps[2]}) -> f(x), else raise", f"in-bounds test is {txt}: out-of-bounds points can be evaluated (and recorded as best)")
    raises_else = bool(tests) and any(isinstance(r, ast.Raise) for s in tests[0].orelse for r in ast.walk(s)) and any(isinstance(r, ast.Return) for s in tests[0].body for r in ast.walk(s))
    chk.decide(raises_else, "R16.3", key(m, "bounded_function._wrapper", "raises when out of bounds"), m.loc(bf), "out-of-bounds raises ParameterOutOfBoundsError", "out-of-bounds input no longer raises")
    # maximise: a, b = bounds ; bounded_function(f, a, b)
    fn = m.func("maximise")
    unpack = [st for st in walk_no_nested(fn) if isinstance(st, ast.Assign) and norm(st.value) == "bounds" and isinstance(st.targets[0], ast.Tuple) and len(st.targets[0].elts) == 2]
    calls = [c for c in walk_no_nested(fn) if isinstance(c, ast.Call) and call_name(c) == "bounded_function"]
    if not unpack or not calls:
        raise AnalysisError("maximise: bounds unpacking / bounded_function call not found")
    a, b = (e.id for e in unpack[0].targets[0].elts)
    args = [norm(x) for x in calls[0].args[1:3]]
    chk.decide(args == [a, b], "R16.3", key(m, "maximise", "bounds order into bounded_function"), m.loc(calls[0]), f"bounds[0]->{ps[1]}, bounds[1]->{ps[2]}", f"bounded_function receives {args} for ({ps[1]}, {ps[2]}) but bounds unpacks as ({a}, {b})")
    # the defaults applied to a missing side must keep the side's meaning: first -> -inf? (names are swapped in source; check by position)
    fills = {}
    for i in walk_no_nested(fn):
        if isinstance(i, ast.If) and isinstance(i.test, ast.Compare) and isinstance(i.test.ops[0], ast.Is) and norm(i.test.comparators[0]) == "None" and len(i.body) == 1 and isinstance(i.body[0], ast.Assign):
            fills[norm(i.test.left)] = norm(i.body[0].value)
    if fills:
        # on the pinned tree the first of the pair (the lower bound) defaults to +inf: an inverted default.  Only reachable when
        # a caller passes None for one side; Calculator.optimise never does.
        lo_default, hi_default = fills.get(a), fills.get(b)
        if lo_default is not None and hi_default is not None:
            okd = lo_default.startswith("-") and not hi_default.startswith("-")
            if okd:
                chk.ok("R16.3", key(m, "maximise", "one-sided bound defaults"), m.loc(fn), f"missing lower -> {lo_default}, missing upper -> {hi_default}")
            else:
                chk.advisory("R16.3", key(m, "maximise", "one-sided bound defaults"), m.loc(fn), f"missing lower bound defaults to {lo_default} and missing upper to {hi_default} (inverted); no caller in the package passes a None side")
    # Calculator.optimise
    c = chk.repo.module("recalculation/calculation.py")
    co = c.func("Calculator.optimise")
    un = [st for st in walk_no_nested(co) if isinstance(st, ast.Assign) and isinstance(st.value, ast.Call) and norm(st.value.func) == "self.get_bounds_vectors" and isinstance(st.targets[0], ast.Tuple)]
    mx = [x for x in walk_no_nested(co) if isinstance(x, ast.Call) and call_name(x) == "maximise"]
    if not un or not mx:
        raise AnalysisError("Calculator.optimise: get_bounds_vectors unpack / maximise call not found")
    lo, hi = (e.id for e in un[0].targets[0].elts)
    mparams = params_of(fn)
    barg = None
    if len(mx[0].args) > mparams.index("bounds"):
        barg = mx[0].args[mparams.index("bounds")]
    for kw in mx[0].keywords:
        if kw.arg == "bounds":
            barg = kw.value
    chk.decide(barg is not None and norm(barg) == f"({lo}, {hi})", "R16.3", key(c, "Calculator.optimise", "passes (low, high)"), c.loc(mx[0]), f"maximise(..., ({lo}, {hi}))", f"bounds argument is {norm(barg) if barg is not None else None}, expected ({lo}, {hi})")
    chk.decide(mx[0].args and norm(mx[0].args[0]) == "self", "R16.3", key(c, "Calculator.optimise", "optimises the calculator itself"), c.loc(mx[0]), "maximise(self, x, ...)", "maximise is not given the calculator as objective")
    gb = c.func("Calculator.get_bounds_vectors")
    r = [x for x in walk_no_nested(gb) if isinstance(x, ast.Return)]
    stores = {}
    for st in walk_no_nested(gb):
        if isinstance(st, ast.Assign) and isinstance(st.targets[0], ast.Subscript):
            stores[norm(st.targets[0].value)] = norm(st.value)
    pair = [st for st in walk_no_nested(gb) if isinstance(st, ast.Assign) and isinstance(st.value, ast.Call) and norm(st.value.func).endswith("get_optimiser_bounds") and isinstance(st.targets[0], ast.Tuple)]
    good = bool(r and pair) and isinstance(r[0].value, ast.Tuple)
    if good:
        rl, ru = (norm(e) for e in r[0].value.elts)
        pl, pu = (norm(e) for e in pair[0].targets[0].elts)
        good = stores.get(rl) == pl and stores.get(ru) == pu
    chk.decide(good, "R16.3", key(c, "Calculator.get_bounds_vectors", "(lower, upper) order"), c.loc(gb), "returns (lower, upper) filled from (lb, ub)", "the returned pair is not (lower, upper) filled from get_optimiser_bounds() in that order")
    chk.floor("R16.3", 6, "six obligations along the bounds chain")


def r16_4(chk):
    chk.rule("R16.4", "ParameterController.optimise writes the calculator's values back (update_from_calculator) on every path leaving lc.optimise(), exceptional ones included")
    m = chk.repo.module("recalculation/scope.py")
    fn = m.func("ParameterController.optimise")
    g = build(fn)
    opt = g.nodes_containing(lambda x: isinstance(x, ast.Call) and isinstance(x.func, ast.Attribute) and x.func.attr == "optimise" and norm(x.func.value) != "self")
    if not opt:
        raise AnalysisError("ParameterController.optimise: lc.optimise(...) not found")
    lc = norm(_call_in(opt[0], "optimise").func.value)
    upd = g.nodes_containing(lambda x: isinstance(x, ast.Call) and norm(x.func) == "self.update_from_calculator" and x.args and norm(x.args[0]) == lc)
    ok, path = g.always_followed_by(opt[0], upd, exceptional=True, from_kinds=("n", "x"))
    chk.decide(bool(upd) and ok, "R16.4", key(m, "ParameterController.optimise", "state written back"), m.loc(opt[0].ast), f"self.update_from_calculator({lc}) in a finally", f"an exit path skips update_from_calculator: {g.show_path(path) if path else 'call missing'} -- the model keeps its pre-optimisation values")
    # ... and what is written back is every leaf definition (the hidden partition definitions of free rate
    # classes are leaf definitions with user_param False): the only guard allowed is the type test
    ufc = m.func("ParameterController.update_from_calculator")
    from .. import tables as T

    found = T.reach_conditions(ufc, lambda n: isinstance(n, ast.Call) and isinstance(n.func, ast.Attribute) and n.func.attr == "update_from_calculator" and norm(n.func.value) != "self", set())
    if not found:
        raise AnalysisError("ParameterController.update_from_calculator: per-definition call not found")
    atoms = set()
    for _, cond in found:
        atoms |= T.atoms(cond)
    extra = {a for a in atoms if "isinstance(" not in a or "_LeafDefn" not in a}
    chk.decide(not extra, "R16.4", key(m, "ParameterController.update_from_calculator", "every leaf definition written back"), m.loc(ufc), "guarded only by isinstance(defn, _LeafDefn)", f"the write-back is additionally guarded by {sorted(a.lstrip('?') for a in extra)}: optimised values of the excluded definitions stay in the calculator, and the likelihood function reports a value the optimiser never chose")
    made = [st for st in walk_no_nested(fn) if isinstance(st, ast.Assign) and norm(st.targets[0]) == lc and isinstance(st.value, ast.Call) and norm(st.value.func) == "self.make_calculator"]
    chk.decide(bool(made), "R16.4", key(m, "ParameterController.optimise", "calculator from self"), m.loc(fn), f"{lc} = self.make_calculator()", "the optimised calculator is not built from this controller")
    chk.floor("R16.4", 3, "three obligations")


def _const_values(fn, name):
    """constant strings a local name can hold (assigned constants / conditional expressions of constants), or None"""
    if fn is None:
        return None
    out = set()
    for st in walk_no_nested(fn):
        if isinstance(st, ast.Assign) and any(isinstance(t, ast.Name) and t.id == name for t in st.targets):
            vals = [st.value.body, st.value.orelse] if isinstance(st.value, ast.IfExp) else [st.value]
            for v in vals:
                if isinstance(v, ast.Constant) and isinstance(v.value, str):
                    out.add(v.value)
                else:
                    return None
    return out or None


def _primary_keys(expr, param, module, depth=2, fn=None):
    """keys of the rule dict `param` that the expression can take its value from first"""
    if isinstance(expr, ast.Call) and isinstance(expr.func, ast.Attribute) and expr.func.attr == "get" and norm(expr.func.value) == param and expr.args and isinstance(expr.args[0], ast.Constant):
        return {expr.args[0].value}
    if isinstance(expr, ast.Call) and isinstance(expr.func, ast.Attribute) and expr.func.attr == "get" and norm(expr.func.value) == param and expr.args and isinstance(expr.args[0], ast.Name):
        return _const_values(fn, expr.args[0].id)
    if isinstance(expr, ast.Subscript) and norm(expr.value) == param and isinstance(expr.slice, ast.Name):
        return _const_values(fn, expr.slice.id)
    if isinstance(expr, ast.Subscript) and norm(expr.value) == param and isinstance(expr.slice, ast.Constant):
        return {expr.slice.value}
    if isinstance(expr, ast.IfExp):
        a, b = _primary_keys(expr.body, param, module, depth), _primary_keys(expr.orelse, param, module, depth)
        return None if a is None or b is None else a | b
    if isinstance(expr, ast.Call) and isinstance(expr.func, ast.Name) and depth > 0 and len(expr.args) == 1 and norm(expr.args[0]) == param:
        fn = module.functions.get(expr.func.id)
        if fn is not None:
            p2 = params_of(fn)[0]
            out = set()
            for r in walk_no_nested(fn):
                if isinstance(r, ast.Return) and r.value is not None:
                    k = _primary_keys(r.value, p2, module, depth - 1)
                    if k is None:
                        return None
                    out |= k
            return out or None
    return None


def r16_5(chk):
    chk.rule("R16.5", "nested-model initialisation: the projection (_ParamProjection.update_param_rules) writes the projected value of every rule under one key; the functions that copy a value from a null rule into a rich rule take it from that key first -- reading another key (e.g. 'value' for constant rules) picks up the un-projected number and the rich model does not start at the nested likelihood")
    m = chk.repo.module("evolve/likelihood_function.py")
    w = m.func("_ParamProjection.update_param_rules")
    written = set()
    for st in walk_no_nested(w):
        if isinstance(st, ast.Assign) and isinstance(st.targets[0], ast.Subscript) and isinstance(st.targets[0].slice, ast.Constant) and isinstance(st.targets[0].slice.value, str) and st.targets[0].slice.value not in ("par_name",):
            written.add(st.targets[0].slice.value)
    if not written:
        raise AnalysisError("update_param_rules: no key written with the projected value")
    for q in ("update_rule_value", "extend_rule_value"):
        fn = m.func(q)
        reads = []
        for st in walk_no_nested(fn):
            if isinstance(st, ast.Assign) and isinstance(st.targets[0], ast.Subscript) and norm(st.targets[0].slice) == "val_key":
                reads.append(st)
        if not reads:
            raise AnalysisError(f"{q}: assignment of the copied value not found")
        for st in reads:
            keys = _primary_keys(st.value, "null", m, fn=fn)
            k = key(m, q, "value taken from the projected key")
            if keys is None:
                chk.unresolved("R16.5", k, m.loc(st), f"cannot tell which key `{norm(st.value)}` reads")
            else:
                chk.decide(keys <= written, "R16.5", k, m.loc(st), f"reads {sorted(keys)}; the projection writes {sorted(written)}", f"the value is taken from key(s) {sorted(keys - written)} but the projection stores the projected value under {sorted(written)}: for those rules the un-projected value of the nested model is used")
    chk.floor("R16.5", 2, "two readers")


def r16_6(chk):
    chk.rule("R16.6", "the app-level initialiser hands initialise_from_nested ONE likelihood function: model_result.lf is a mapping {identifier: lf} when the result holds several functions (split codons), the fitting code calls the initialiser with the identifier of the function being fitted, and _InitFrom.__call__ uses that identifier to select from the mapping -- otherwise the (swallowed) failure leaves every alternate un-initialised and likelihood ratios under an evaluation limit go negative")
    em = chk.repo.module("app/evo.py")
    rm = chk.repo.module("app/result.py")
    # fact 1: model_result.lf can return a mapping
    lfp = rm.cls("model_result").properties.get("lf", {}).get("get")
    if lfp is None:
        raise AnalysisError("model_result.lf property not found")
    mapping = any(isinstance(st, ast.Assign) and isinstance(st.value, ast.Call) and call_name(st.value) in ("OrderedDict", "dict") for st in ast.walk(lfp))
    # fact 2: the fitting code passes the identifier
    cfg_fn = em.func("model._configure_lf")
    passes = [c for c in walk_no_nested(cfg_fn) if isinstance(c, ast.Call) and norm(c.func) == "initialise" and len(c.args) >= 2 and norm(c.args[1]) == "identifier"]
    if not passes:
        raise AnalysisError("model._configure_lf: initialise(lf, identifier) not found")
    call = em.func("_InitFrom.__call__")
    ps = [p for p in params_of(call) if p != "self"]
    ident = ps[1] if len(ps) > 1 else None
    inits = [c for c in walk_no_nested(call) if isinstance(c, ast.Call) and isinstance(c.func, ast.Attribute) and c.func.attr == "initialise_from_nested"]
    if not inits:
        raise AnalysisError("_InitFrom.__call__: initialise_from_nested call not found")
    from ..defuse import derived_names

    used = ident is not None and ident in derived_names(call, {ident}) and any(expr_uses(call, inits[0].args[0], ident) for _ in [0])
    chk.decide((not mapping) or bool(used), "R16.6", key(em, "_InitFrom.__call__", "selects the nested function by identifier"), em.loc(inits[0]), f"argument `{norm(inits[0].args[0])}` depends on `{ident}`", f"model_result.lf is a mapping for results with several functions, and _configure_lf passes the identifier, but `{norm(inits[0].args[0])}` does not depend on it: initialise_from_nested receives the whole mapping, fails, the failure is swallowed, and the alternate starts from defaults")
    chk.floor("R16.6", 1, "one initialiser")


def expr_uses(fn, expr, name):
    """does the value of expr depend (through locals) on parameter `name`?"""
    from ..defuse import derived_names, names_in

    return bool(names_in(expr) & derived_names(fn, {name}))


def r16_7(chk):
    chk.rule("R16.7", "a sequential model collection is a chain: in _ModelCollectionBase._initialised_alt each alternate is initialised from the fit of the model BEFORE it -- the `_InitFrom(<prev>)` initialiser is built inside the loop over the alternates and `<prev>` is re-bound in that loop from the result of fitting the current alternate; built once from the null, every later alternate restarts from the null's fit, and with a limited optimiser its lnL can fall below that of the model nested in it (a negative LR for the pair alt1/alt2)")
    from ..defuse import derived_names, expr_derives

    m = chk.repo.module("app/evo.py")
    q = "_ModelCollectionBase._initialised_alt"
    fn = m.func(q)
    loops = [lp for lp in walk_no_nested(fn) if isinstance(lp, ast.For) and "_alts" in norm(lp.iter)]
    if not loops:
        raise AnalysisError(f"{q}: loop over the alternates not found")
    lp = loops[0]
    inits = [c for c in walk_no_nested(fn) if isinstance(c, ast.Call) and call_name(c) == "_InitFrom" and c.args]
    if not inits:
        raise AnalysisError(f"{q}: _InitFrom(...) not found")
    k = key(m, q, "each alternate starts from the previous fit")
    inside = [c for c in inits if any(c is x for x in ast.walk(lp))]
    if not inside:
        chk.violation("R16.7", k, m.loc(inits[0]), f"`{norm(inits[0])}` is built once, outside the loop over the alternates: with sequential=True every alternate is initialised from the null's fit, not from the model before it")
    else:
        c = inside[0]
        prev = c.args[0]
        fits = [st for st in ast.walk(lp) if isinstance(st, ast.Assign) and isinstance(st.value, ast.Call) and norm(st.value.func) == norm(lp.target)]
        fitted = {t.id for st in fits for t in st.targets if isinstance(t, ast.Name)}
        rebinds = [st for st in ast.walk(lp) if isinstance(st, ast.Assign) and any(norm(t) == norm(prev) for t in st.targets) and any(isinstance(x, ast.Name) and x.id in fitted for x in ast.walk(st.value))]
        chk.decide(bool(rebinds), "R16.7", k, m.loc(c), f"`{norm(prev)}` is re-bound from the current fit in the loop", f"`{norm(c)}` is built in the loop but `{norm(prev)}` is never re-bound from the fitted alternate: every alternate is initialised from the same (null) fit")
    chk.floor("R16.7", 1, "_initialised_alt")


def r16_8(chk):
    chk.rule("R16.8", "the function is initialised from the nested fit AFTER its parameter scopes have their final shape: in app.evo.model._configure_lf no scope-changing call (set_time_heterogeneity, apply_param_rules, set_param_rule) is reachable after `initialise(lf, identifier)` -- initialise_from_nested refuses (asserts nfp is larger) a function that has not yet been given its extra scopes, _InitFrom swallows the error, and the alternate then starts from defaults and can finish below the null")
    from ..cfg import build

    m = chk.repo.module("app/evo.py")
    q = "model._configure_lf"
    fn = m.func(q)
    g = build(fn)
    inits = g.nodes_containing(lambda x: isinstance(x, ast.Call) and isinstance(x.func, ast.Name) and x.func.id == "initialise")
    scopers = g.nodes_containing(lambda x: isinstance(x, ast.Call) and isinstance(x.func, ast.Attribute) and x.func.attr in ("set_time_heterogeneity", "apply_param_rules", "set_param_rule"))
    if not inits or not scopers:
        raise AnalysisError(f"{q}: initialise(...) / scope-changing calls not found")
    bad = None
    for i_ in inits:
        seen = g.reachable([b for b, kd in i_.succ if kd == "n"], kinds=("n",))
        for sc in scopers:
            if id(sc) in seen:
                bad = (i_, sc)
    chk.decide(bad is None, "R16.8", key(m, q, "initialised after the scopes are final"), m.loc(bad[0].ast if bad else inits[0].ast), "no scope-changing call is reachable after initialise(...)", f"`{norm(bad[1].ast)[:60] if bad else ''}` runs after `{norm(bad[0].ast)[:40] if bad else ''}`: for a time-heterogeneous alternate of the same model the nested initialisation is refused and silently skipped (hypothesis(HKY85, HKY85 time_het='max', max_evaluations=10) gives a negative LR)")
    chk.floor("R16.8", 1, "_configure_lf")


def r16_9(chk):
    chk.rule("R16.9", "a richer model may have a scoped rate term the nested model lacks altogether (kappa per edge over F81, GTR's extra exchangeabilities per edge over HKY85): in update_scoped_rules the list of nested rules matching a rich rule can be EMPTY, so its first element is read only after an emptiness test -- an unguarded `matches[0]` raises IndexError, evo._InitFrom swallows it, the alternate starts from its defaults and under an evaluation limit hypothesis(HKY85, GTR time_het='max') reports a negative LR")
    from ..cfg import build

    m = chk.repo.module("evolve/likelihood_function.py")
    fn = m.func("update_scoped_rules")
    g = build(fn)
    firsts = g.nodes_containing(lambda x: isinstance(x, ast.Subscript) and isinstance(x.ctx, ast.Load) and isinstance(x.value, ast.Name) and isinstance(x.slice, ast.Constant) and x.slice.value in (0, -1))
    if not firsts:
        chk.ok("R16.9", key(m, "update_scoped_rules", "no first-element read"), m.loc(fn), "no subscript [0] on a collected list", nontrivial=False)
        chk.floor("R16.9", 0, "")
        return
    for f in firsts:
        sub = next(x for x in ast.walk(f.ast) if isinstance(x, ast.Subscript) and isinstance(x.value, ast.Name) and isinstance(x.slice, ast.Constant) and x.slice.value in (0, -1))
        lst = sub.value.id
        # guards: `if not lst: continue/raise/return`  or an enclosing `if lst:` / `if len(lst) ...`
        guards = [nd for nd in g.nodes if nd.kind == "if" and norm(nd.ast.test) in (f"not {lst}", f"len({lst}) == 0", f"not len({lst})") and any(isinstance(x, (ast.Continue, ast.Raise, ast.Return, ast.Break)) for x in nd.ast.body)]
        from .c09 import _enclosing_tests

        stmt = f.ast
        enclosing = [t for t in _enclosing_tests(fn, stmt) if t in (lst, f"len({lst}) == 1", f"len({lst}) > 0", f"len({lst}) >= 1")]
        dominated = bool(guards) and all(g.dominated_by(f, [gd])[0] for gd in guards[:1])
        chk.decide(dominated or bool(enclosing), "R16.9", key(m, "update_scoped_rules", f"{lst}[0] read after an emptiness test"), m.loc(sub), "guarded", f"`{norm(sub)}` is read although `{lst}` can be empty (no nested rule for that parameter): a.set_param_rule('kappa', is_independent=True); a.initialise_from_nested(<fitted F81>) raises IndexError")
    chk.floor("R16.9", 1, "update_scoped_rules")


def r16_10(chk):
    chk.rule("R16.10", "a nested start is what keeps LR >= 0 under an evaluation limit, so the app-level initialiser does not carry on in silence when it could not give one: in _InitFrom.__call__ the handler around initialise_from_nested does something (re-raises, records, falls back to another way of starting at least as high) -- `except Exception: pass` lets the alternate start from its defaults whenever the nested initialisation is refused (NotImplementedError('Too many bins') for every rate-heterogeneity model, 'Too many loci', a mismatching tree) and an evaluation-limited fit then ends below the null")
    m = chk.repo.module("app/evo.py")
    fn = m.func("_InitFrom.__call__")
    tries = [t for t in walk_no_nested(fn) if isinstance(t, ast.Try) and any(isinstance(c, ast.Call) and isinstance(c.func, ast.Attribute) and c.func.attr == "initialise_from_nested" for b_ in t.body for c in ast.walk(b_))]
    k = key(m, "_InitFrom.__call__", "a refused nested initialisation is not swallowed")
    if not tries:
        chk.ok("R16.10", k, m.loc(fn), "initialise_from_nested is not wrapped in a try", nontrivial=True)
    else:
        silent = [h for t in tries for h in t.handlers if all(isinstance(st, ast.Pass) or (isinstance(st, ast.Expr) and isinstance(st.value, ast.Constant)) for st in h.body)]
        chk.decide(not silent, "R16.10", k, m.loc(silent[0] if silent else tries[0]), "the handler acts on the failure", "`except ...: pass` around other.initialise_from_nested(nested): hypothesis(HKY85+Gamma(2 bins), GTR+Gamma(2 bins), max_evaluations=10) returns LR = -42 on a 3-taxon alignment because 'Too many bins' is swallowed and GTR+G starts from its defaults")
    chk.floor("R16.10", 1, "_InitFrom.__call__")


def r16_11(chk):
    chk.rule("R16.11", "_ParamProjection.update_param_rules projects EVERY exchangeability rule of the nested model onto the richer model's parameter names: the only rules handed on unchanged are those the two models share by name (mprobs, length) -- the pass-through test looks at the rule's par_name alone, against a literal tuple within {mprobs, length}; a rule exempted for another reason (is_constant, a scope) keeps the nested model's name, matches nothing in a richer model with other names (HKY85 kappa -> GTR) and is silently dropped, so the richer model no longer starts at the nested likelihood")
    m = chk.repo.module("evolve/likelihood_function.py")
    q = "_ParamProjection.update_param_rules"
    fn = m.func(q)
    loops = [lp for lp in walk_no_nested(fn) if isinstance(lp, ast.For) and isinstance(lp.target, ast.Name)]
    if not loops:
        raise AnalysisError(f"{q}: loop over the rules not found")
    lp = loops[-1]
    r = lp.target.id
    names = {st.targets[0].id for st in lp.body if isinstance(st, ast.Assign) and isinstance(st.targets[0], ast.Name) and norm(st.value) in (f"{r}['par_name']", f"{r}.get('par_name')")}
    passes = [i for i in lp.body if isinstance(i, ast.If) and any(isinstance(x, ast.Continue) for x in i.body) and any(isinstance(c, ast.Call) and isinstance(c.func, ast.Attribute) and c.func.attr == "append" and c.args and norm(c.args[0]) == r for st in i.body for c in ast.walk(st))]
    k = key(m, q, "only shared-name rules pass unprojected")
    if not passes:
        chk.ok("R16.11", k, m.loc(lp), "no rule is handed on unprojected", nontrivial=False)
        chk.floor("R16.11", 0, "")
        return
    for i in passes:
        t = i.test
        good = isinstance(t, ast.Compare) and len(t.ops) == 1 and isinstance(t.ops[0], ast.In) and (norm(t.left) in names or norm(t.left) in (f"{r}['par_name']",)) and isinstance(t.comparators[0], (ast.Tuple, ast.List, ast.Set)) and all(isinstance(e, ast.Constant) and e.value in ("mprobs", "length") for e in t.comparators[0].elts)
        chk.decide(good, "R16.11", k, m.loc(i), f"pass-through under `{norm(t)}`", f"rules are handed on unprojected under `{norm(t)}`: a rule that is not mprobs / length keeps the nested model's parameter name; where the richer model names its parameters differently the rule applies to nothing and the nested value (e.g. a constant kappa) is lost")
    chk.floor("R16.11", 1, "update_param_rules")


def run(chk):
    r16_11(chk)
    r16_10(chk)
    r16_9(chk)
    r16_8(chk)
    r16_7(chk)
    r16_6(chk)
    r16_5(chk)
    r16_1(chk)
    r16_2(chk)
    r16_3(chk)
    r16_4(chk)
    chk.assume("the objective is deterministic, so re-evaluating best_x in get_best() restores the best state")
