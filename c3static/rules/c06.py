"""C06 -- sequence file formats round-trip and all parsers of a format agree.

`parse(write(x)) == x` for all x is not decided.  Decided: the writer-side and
reader-side tables, constants and idioms that a one-sided edit breaks.
R06.1 writer registry / reader registry agreement (keys, aliases)
R06.2 compression tables agree
R06.3 field widths and sigils agree (PHYLIP name field; GDE, FASTA sigils; PAML/PHYLIP header)
R06.4 FASTA record boundaries are line-anchored in every FASTA parser
R06.5 label handling agrees across the FASTA parsers

Added in build round 2 (see DESIGN.md section 3, round-2 table):
R06.6 iter_splitlines (chunked line streaming) is chunk-size independent by construction: the incomplete tail of every chunk is withheld and prepended to ...
R06.7 writers that wrap a sequence into fixed-width blocks cover the whole sequence: the loop bound of the wrapping helper derives from the length of the ...

Added later in build rounds 2-3 (see DESIGN.md section 3, round-2/3 table):
R06.10 block wrapping at exact multiples of the line width: no writer helper takes the last block as `s[-tail:]` with `tail` a remainder that can be zero ...
R06.11 reading back what was written needs the bytes decoded as they were encoded: in util.io.open_ (i) a caller's explicit `encoding` is used -- the ...
R06.8 labels are preserved verbatim by the block-format parsers (PAML, PHYLIP, Clustal): the first element of every yielded record does not derive -- along ...
R06.9 GenBank bytes parser: records are split on the line-anchored terminator b'<newline>//'; because that separator begins with the newline of the previous line, ...
R06.12 a PAML record's name is the whole name line (no content-dependent cut on the slice of the yielded name); R06.7 also covers the record layout of the GDE and PAML writers.
"""

from __future__ import annotations

import ast
import re

from ..index import AnalysisError, call_name, norm, params_of, walk_no_nested
from ..literals import all_strings, try_fold
from ..report import key


def _dict_literal(m, name):
    node = m.const(name)
    if not isinstance(node, ast.Dict):
        raise AnalysisError(f"{m.rel}::{name} is not a dict literal")
    out = {}
    for k, v in zip(node.keys, node.values):
        if not (isinstance(k, ast.Constant) and isinstance(k.value, str)):
            raise AnalysisError(f"{m.rel}::{name}: non-literal key")
        out[k.value] = norm(v)
    return node, out


def r06_1(chk):
    chk.rule("R06.1", "every format name the writer registry (format.alignment.FORMATTERS) accepts is a key of the reader registry (parse.sequence.PARSERS); names aliasing one writer alias one parser")
    fm = chk.repo.module("format/alignment.py")
    pm = chk.repo.module("parse/sequence.py")
    fnode, F = _dict_literal(fm, "FORMATTERS")
    pnode, P = _dict_literal(pm, "PARSERS")
    for name, writer in sorted(F.items()):
        chk.decide(name in P, "R06.1", key(fm, "FORMATTERS", f"format {name}"), fm.loc(fnode), f"{name}: written by {writer}, read by {P.get(name)}", f"format {name!r} can be written but has no parser: files written with it cannot be loaded back")
    groups = {}
    for name, writer in F.items():
        groups.setdefault(writer, []).append(name)
    for writer, names in sorted(groups.items()):
        parsers = {P.get(n) for n in names if n in P}
        chk.decide(len(parsers) <= 1, "R06.1", key(fm, "FORMATTERS", f"aliases of {writer}"), fm.loc(fnode), f"{sorted(names)} -> one parser {sorted(parsers)}", f"aliases {sorted(names)} of one writer are read by different parsers {sorted(parsers)}")
    # the writer dispatch uses the registry, lower-cased
    wfn = fm.func("write_alignment_to_file")
    uses = any(isinstance(s, ast.Subscript) and norm(s.value) == "FORMATTERS" for s in ast.walk(wfn))
    chk.decide(uses, "R06.1", key(fm, "write_alignment_to_file", "dispatch through FORMATTERS"), fm.loc(wfn), "writer selected from FORMATTERS[format]", "writer dispatch no longer goes through FORMATTERS")
    chk.floor("R06.1", 6, "6 writer names on the pinned tree")


def r06_2(chk):
    chk.rule("R06.2", "the compression suffixes recognised when splitting a file name (get_format_suffixes) are exactly the suffixes _get_compression_open can open")
    m = chk.repo.module("util/io.py")
    g = m.func("get_format_suffixes")
    tup = None
    for st in walk_no_nested(g):
        if isinstance(st, ast.Assign) and isinstance(st.value, (ast.Tuple, ast.List, ast.Set)) and all(isinstance(e, ast.Constant) and isinstance(e.value, str) for e in st.value.elts):
            tup = st
    o = m.func("_get_compression_open")
    dicts = [d for d in walk_no_nested(o) if isinstance(d, ast.Dict)]
    if tup is None or not dicts:
        raise AnalysisError("compression tables not found in util/io.py")
    recog = {e.value for e in tup.value.elts}
    opened = {k.value for k in dicts[0].keys if isinstance(k, ast.Constant)}
    chk.decide(recog == opened, "R06.2", key(m, "get_format_suffixes", "compression suffixes"), m.loc(tup), f"{sorted(recog)} both recognised and openable", f"recognised {sorted(recog)} but openable {sorted(opened)}: a file with suffix {sorted(recog ^ opened)} is written or read uncompressed/unsupported")
    # the suffix test is on the last suffix, lower-cased
    chk.floor("R06.2", 1, "one table pair")


def _int_consts(node, pred):
    return [n for n in ast.walk(node) if pred(n)]


def r06_3(chk):
    chk.rule("R06.3", "PHYLIP: every name-field width used by the writer ('%-Ns', ' ' * N, truncation [:N-1]) equals the parser's id_offset; GDE/FASTA sigils written are in the parsers' label characters; PAML/PHYLIP headers are '<nseqs> <length>'")
    w = chk.repo.module("format/phylip.py")
    fn = w.func("PhylipFormatter.format")
    widths = []
    for node, s in all_strings(fn):
        for mm in re.finditer(r"%-(\d+)s", s):
            widths.append(("'%-Ns'", int(mm.group(1)), node))
    for b in ast.walk(fn):
        if isinstance(b, ast.BinOp) and isinstance(b.op, ast.Mult) and isinstance(b.left, ast.Constant) and b.left.value == " " and isinstance(b.right, ast.Constant) and isinstance(b.right.value, int):
            widths.append(("' ' * N", b.right.value, b))
    truncs = []
    for s in ast.walk(fn):
        if isinstance(s, ast.Subscript) and isinstance(s.slice, ast.Slice) and s.slice.lower is None and isinstance(s.slice.upper, ast.Constant) and isinstance(s.slice.upper.value, int) and norm(s.value) == "seq_name":
            truncs.append((s.slice.upper.value, s))
    for c in ast.walk(fn):
        if isinstance(c, ast.Compare) and norm(c.left) == "len(seq_name)" and isinstance(c.comparators[0], ast.Constant):
            truncs.append((c.comparators[0].value, c))
    p = chk.repo.module("parse/phylip.py")
    pf = p.func("MinimalPhylipParser")
    offs = [st for st in walk_no_nested(pf) if isinstance(st, ast.Assign) and norm(st.targets[0]) == "id_offset" and isinstance(st.value, ast.Constant)]
    if not offs or not widths:
        raise AnalysisError("phylip: id_offset / writer widths not found")
    N = offs[0].value.value
    for what, v, node in widths:
        chk.decide(v == N, "R06.3", key(w, "PhylipFormatter.format", f"{what}"), w.loc(node), f"name field width {v} == parser id_offset {N}", f"writer uses a name field of {v} columns ({what}) but the parser reads {N}: names and sequences are cut at the wrong column")
    for v, node in truncs:
        chk.decide(v == N - 1, "R06.3", key(w, "PhylipFormatter.format", f"truncation {norm(node)}"), w.loc(node), f"names truncated to {v} = width-1 (a separating blank remains)", f"truncation at {v} but field width is {N}: a long name runs into the sequence")
    sp = p.func("_split_line")
    good = any(isinstance(s, ast.Subscript) and isinstance(s.slice, ast.Slice) and norm(s.slice.upper or ast.Constant(None)) == "id_offset" and norm(s.value) == "line" for s in ast.walk(sp)) and any(isinstance(s, ast.Subscript) and isinstance(s.slice, ast.Slice) and s.slice.upper is None and norm(s.slice.lower or ast.Constant(None)) == "id_offset" for s in ast.walk(sp))
    chk.decide(good, "R06.3", key(p, "_split_line", "splits at id_offset"), p.loc(sp), "id = line[:id_offset], seq = line[id_offset:]", "the parser no longer splits name and sequence at id_offset")
    # GDE sigil
    g = chk.repo.module("format/gde.py")
    gf = g.func("GDEFormatter.format")
    sig = None
    for t in ast.walk(gf):
        if isinstance(t, ast.BinOp) and isinstance(t.op, ast.Mod) and isinstance(t.left, ast.Constant) and isinstance(t.right, ast.Tuple) and t.left.value.startswith("%s") and isinstance(t.right.elts[0], ast.Constant):
            sig = t.right.elts[0].value
            sig_node = t
        # f"%{name}" / "%" + name
        if sig is None and isinstance(t, ast.JoinedStr) and len(t.values) >= 2 and isinstance(t.values[0], ast.Constant) and isinstance(t.values[0].value, str) and t.values[0].value.strip() and isinstance(t.values[1], ast.FormattedValue):
            sig = t.values[0].value.strip()
            sig_node = t
        if sig is None and isinstance(t, ast.BinOp) and isinstance(t.op, ast.Add) and isinstance(t.left, ast.Constant) and isinstance(t.left.value, str) and len(t.left.value) == 1 and not t.left.value.isspace():
            sig = t.left.value
            sig_node = t
    pf_ = chk.repo.module("parse/fasta.py")
    gp = pf_.func("MinimalGdeParser")
    lab = [kw.value.value for c in ast.walk(gp) if isinstance(c, ast.Call) for kw in c.keywords if kw.arg == "label_characters" and isinstance(kw.value, ast.Constant)]
    if sig is None or not lab:
        raise AnalysisError("gde: writer sigil / parser label characters not found")
    chk.decide(sig in lab[0], "R06.3", key(g, "GDEFormatter.format", "sigil"), g.loc(sig_node), f"writes {sig!r}, parser accepts {lab[0]!r}", f"GDE writer starts records with {sig!r} but the parser only recognises {lab[0]!r}")
    # FASTA sigil
    ff = chk.repo.module("format/fasta.py")
    sf = ff.func("seqs_to_fasta")
    fs = [s for _, s in all_strings(sf) if s.endswith("{name}") and len(s) == len("{name}") + 1]
    if not fs:
        raise AnalysisError("fasta writer: label template not found")
    fsig = fs[0][0]
    mfp = pf_.func("MinimalFastaParser")
    from ..index import param_defaults

    d = param_defaults(mfp).get("label_characters")
    chk.decide(isinstance(d, ast.Constant) and fsig in d.value, "R06.3", key(ff, "seqs_to_fasta", "sigil vs MinimalFastaParser"), ff.loc(sf), f"writes {fsig!r}, line parsers accept {d.value!r}", f"FASTA writer uses {fsig!r}, line-based parsers expect {getattr(d, 'value', None)!r}")
    bytes_fn = _bytes_fasta_parser(pf_)
    bsig = [c.value for c in ast.walk(bytes_fn) if isinstance(c, ast.Constant) and isinstance(c.value, bytes) and b">" in c.value]
    chk.decide(bool(bsig), "R06.3", key(ff, "seqs_to_fasta", "sigil vs iter_fasta_records"), pf_.loc(bytes_fn), f"bytes parser splits on {bsig[:1]}", "the bytes FASTA parser does not use the '>' sigil")
    # headers
    for rel, q in (("format/phylip.py", "PhylipFormatter.format"), ("format/paml.py", "PamlFormatter.format")):
        mm = chk.repo.module(rel)
        f = mm.func(q)
        hdr = [b for b in ast.walk(f) if isinstance(b, ast.BinOp) and isinstance(b.op, ast.Mod) and isinstance(b.left, ast.Constant) and isinstance(b.left.value, str) and re.fullmatch(r"%d\s+%d\n", b.left.value)]
        okh = bool(hdr) and norm(hdr[0].right) == "(self.number_sequences, self.align_length)"
        chk.decide(okh, "R06.3", key(mm, q, "header"), mm.loc(hdr[0] if hdr else f), "'<nseqs>  <length>\\n'", "header is not '<number of sequences> <alignment length>' in that order (two fields: the parser treats a third field as 'interleaved')")
    chk.floor("R06.3", 9, "phylip widths (3) + truncations (2) + split + 2 sigils + 2 headers")


def _bytes_fasta_parser(m):
    """the registered implementation of iter_fasta_records whose first parameter is annotated bytes"""
    for node in m.tree.body:
        if isinstance(node, ast.FunctionDef) and any("iter_fasta_records.register" in norm(d) for d in node.decorator_list):
            a = node.args.args[0]
            if a.annotation is not None and norm(a.annotation) == "bytes":
                return node
    raise AnalysisError("parse/fasta.py: bytes implementation of iter_fasta_records not found")


def r06_4(chk):
    chk.rule("R06.4", "record boundaries are line-anchored in every FASTA parser: a label is recognised by the first character of a line (line[0], startswith) or by a split/regex anchored at a line start; splitting whole-file data on the bare sigil is rejected")
    m = chk.repo.module("parse/fasta.py")
    for q in ("_faster_parser", "_strict_parser"):
        fn = m.func(q)
        tests = [c for c in walk_no_nested(fn) if isinstance(c, ast.Compare) and isinstance(c.ops[0], ast.In) and norm(c.left) == "line[0]" and norm(c.comparators[0]) == "label_char"]
        sw = [c for c in walk_no_nested(fn) if isinstance(c, ast.Call) and norm(c.func) == "line.startswith"]
        chk.decide(bool(tests or sw), "R06.4", key(m, q, "label test"), m.loc(fn), "label recognised by line[0] in label_char", "no line-anchored label test")
    fn = _bytes_fasta_parser(m)
    q = "iter_fasta_records[bytes]"
    found = False
    for c in walk_no_nested(fn):
        if isinstance(c, ast.Call) and isinstance(c.func, ast.Attribute) and c.func.attr == "split" and c.args and isinstance(c.args[0], ast.Constant) and isinstance(c.args[0].value, (bytes, str)):
            sep = c.args[0].value
            sep_b = sep if isinstance(sep, bytes) else sep.encode()
            found = True
            anchored = sep_b.startswith(b"\n") and b">" in sep_b
            chk.decide(anchored, "R06.4", key(m, q, f"split on {sep!r}"), m.loc(c), f"split on {sep!r} (newline + sigil)", f"`{norm(c)}` splits the whole file on the bare sigil: a '>' inside a label (or anywhere in a line) starts a bogus record, and this parser disagrees with the line-based ones on such input")
        if isinstance(c, ast.Call) and isinstance(c.func, ast.Attribute) and c.func.attr in ("split", "finditer", "findall") and not (c.args and isinstance(c.args[0], ast.Constant) and isinstance(c.args[0].value, (bytes, str)) and c.func.attr == "split" and not _is_regex_obj(m, c.func.value)):
            pat = _regex_of(m, c.func.value) if c.func.attr == "split" and _is_regex_obj(m, c.func.value) else (_regex_of(m, c.args[0]) if c.args and norm(c.func.value) == "re" else None)
            if pat is not None and b">" in (pat if isinstance(pat, bytes) else pat.encode()):
                found = True
                p = pat if isinstance(pat, bytes) else pat.encode()
                anchored = any(a in p for a in (b"^", b"\\n", b"(?<=\n)", b"(?<=\\n)", b"\n"))
                chk.decide(anchored, "R06.4", key(m, q, f"regex {pat!r}"), m.loc(c), f"regex {pat!r} is anchored at a line start", f"regex {pat!r} matches the sigil anywhere in a line")
    if not found:
        chk.unresolved("R06.4", key(m, q, "record splitting"), m.loc(fn), "no split/regex on the sigil found; record boundary idiom not recognised")
    chk.floor("R06.4", 2, "two line-based parsers (the bytes parser is decided when its idiom is recognised)")


def _is_regex_obj(m, expr):
    return isinstance(expr, ast.Name) and expr.id in m.constants and isinstance(m.constants[expr.id], ast.Call) and (call_name(m.constants[expr.id]) or "").endswith("compile")


def _regex_of(m, expr):
    if isinstance(expr, ast.Constant) and isinstance(expr.value, (str, bytes)):
        return expr.value
    if isinstance(expr, ast.Name) and expr.id in m.constants:
        v = m.constants[expr.id]
        if isinstance(v, ast.Call) and (call_name(v) or "").endswith("compile") and v.args and isinstance(v.args[0], ast.Constant):
            return v.args[0].value
    return None


def r06_5(chk):
    chk.rule("R06.5", "the three FASTA parsers derive the name the same way: the text after the sigil up to the end of the line, stripped, then label_to_name; sequence text has all whitespace removed")
    m = chk.repo.module("parse/fasta.py")
    for q in ("_faster_parser", "_strict_parser"):
        fn = m.func(q)
        labs = [st for st in walk_no_nested(fn) if isinstance(st, ast.Assign) and norm(st.targets[0]) == "label" and not (isinstance(st.value, ast.Constant))]
        good = bool(labs) and all(norm(st.value) == "line[1:].strip()" for st in labs)
        chk.decide(good, "R06.5", key(m, q, "label = line[1:].strip()"), m.loc(labs[0] if labs else fn), "label is the rest of the line, stripped", f"label derived as {[norm(st.value) for st in labs]}: differs from the sibling parsers")
        ys = [y for y in walk_no_nested(fn) if isinstance(y, ast.Yield) and isinstance(y.value, ast.Tuple)]
        goody = bool(ys) and all(isinstance(y.value.elts[0], ast.Call) and norm(y.value.elts[0].func) == "label_to_name" and "_white_space.sub('', ''.join(seq))" == norm(y.value.elts[1]) for y in ys)
        chk.decide(goody, "R06.5", key(m, q, "yield (label_to_name(label), seq without whitespace)"), m.loc(fn), "name through label_to_name; whitespace removed from the sequence", "a yield does not pass the label through label_to_name or does not strip whitespace from the sequence")
    fn = _bytes_fasta_parser(m)
    labs = [st for st in walk_no_nested(fn) if isinstance(st, ast.Assign) and norm(st.targets[0]) == "label"]
    first = labs[0] if labs else None
    good = first is not None and norm(first.value) == "record[:eol].strip().decode('utf8')" and any(isinstance(c, ast.Call) and norm(c.func) == "label_to_name" for c in walk_no_nested(fn))
    chk.decide(good, "R06.5", key(m, "iter_fasta_records[bytes]", "label = record[:eol].strip()"), m.loc(first or fn), "label is the first line of the record, stripped and decoded, then label_to_name", "the bytes parser derives the label differently from the line-based parsers")
    eol = [st for st in walk_no_nested(fn) if isinstance(st, ast.Assign) and norm(st.targets[0]) == "eol"]
    part = [st for st in walk_no_nested(fn) if isinstance(st, ast.Assign) and isinstance(st.value, ast.Call) and norm(st.value.func) == "record.partition" and [getattr(a, "value", None) for a in st.value.args] == [b"\n"]]
    chk.decide((bool(eol) and norm(eol[0].value) in ("record.find(b'\\n')",)) or bool(part), "R06.5", key(m, "iter_fasta_records[bytes]", "label ends at the first newline"), m.loc(eol[0] if eol else part[0] if part else fn), "label ends at the first newline (find / partition)", "label end is not the first newline of the record")
    mc = m.cls("minimal_converter")
    call = mc.methods.get("__call__")
    dels = [kw.value.value for c in ast.walk(call) if isinstance(c, ast.Call) for kw in c.keywords if kw.arg == "delete" and isinstance(kw.value, ast.Constant)] if call else []
    chk.decide(bool(dels) and set(dels[0]) >= set(b"\n\r\t "), "R06.5", key(m, "minimal_converter.__call__", "whitespace removed"), m.loc(call or mc.node), f"deletes {dels[:1]}", "the default converter of the bytes parser does not delete newline, carriage return, tab and space like the line-based parsers do")
    chk.floor("R06.5", 7, "2+2 line-parser obligations, 3 bytes-parser obligations")


def r06_6(chk):
    chk.rule("R06.6", "iter_splitlines (chunked line streaming) is chunk-size independent by construction: the incomplete tail of every chunk is withheld and prepended to the next chunk, a complete last line is terminated before being carried, and what is left after the last chunk is yielded")
    from ..cfg import build

    m = chk.repo.module("util/io.py")
    fn = m.func("iter_splitlines")
    g = build(fn)
    loops = [n for n in g.nodes if n.kind == "loop" and isinstance(n.ast, ast.While)]
    if not loops:
        raise AnalysisError("iter_splitlines: read loop not found")
    lp = loops[0]
    body = lp.ast.body

    def in_loop(pred):
        return [st for st in ast.walk(ast.Module(body=body, type_ignores=[])) if pred(st)]

    carry = in_loop(lambda st: isinstance(st, ast.Assign) and norm(st.targets[0]) == "data" and norm(st.value) in ("last + data",))
    split = in_loop(lambda st: isinstance(st, ast.Assign) and norm(st.targets[0]) == "lines" and norm(st.value) == "data.splitlines()")
    hold = in_loop(lambda st: isinstance(st, ast.Assign) and norm(st.targets[0]) == "last" and norm(st.value) in ("lines.pop(-1)", "lines.pop()"))
    chk.decide(bool(carry and split and hold) and carry[0].lineno < split[0].lineno < hold[0].lineno, "R06.6", key(m, "iter_splitlines", "tail carried over"), m.loc(lp.ast), "data = last + data; lines = data.splitlines(); last = lines.pop(-1)", "the unfinished last piece of a chunk is not withheld and prepended to the next chunk: a line that straddles a chunk boundary is split in two")
    nl_test = in_loop(lambda st: isinstance(st, ast.Assign) and "data.endswith('\\n')" in norm(st.value))
    nl_fix = in_loop(lambda st: isinstance(st, ast.AugAssign) and norm(st.target) == "last" and isinstance(st.op, ast.Add) and norm(st.value) == "'\\n'")
    guarded = in_loop(lambda st: isinstance(st, ast.If) and nl_test and norm(st.test) == norm(nl_test[0].targets[0]) and any(x in nl_fix for x in ast.walk(st)))
    chk.decide(bool(nl_test and nl_fix and guarded), "R06.6", key(m, "iter_splitlines", "complete last line terminated"), m.loc(lp.ast), "when the chunk ends with a newline the withheld line gets its newline back", "a chunk ending exactly at a line end makes that line merge with the first line of the next chunk")
    ylines = g.nodes_containing(lambda x: isinstance(x, ast.YieldFrom) and norm(x.value) == "lines")
    holds = [n for n in g.nodes if n.ast in hold]
    chk.decide(bool(ylines) and bool(holds) and all(g.dominated_by(y, holds)[0] for y in ylines), "R06.6", key(m, "iter_splitlines", "yield after withholding"), m.loc(lp.ast), "lines are yielded only after the tail was withheld", "lines are yielded before the tail is withheld")
    after = [st for st in walk_no_nested(fn) if isinstance(st, ast.If) and norm(st.test) == "last" and st.lineno > lp.ast.lineno and any(isinstance(x, ast.YieldFrom) and "last" in norm(x.value) for x in ast.walk(st))]
    chk.decide(bool(after), "R06.6", key(m, "iter_splitlines", "remainder yielded"), m.loc(fn), "what is left after the last chunk is yielded", "the text left after the last chunk is dropped: the last line of a file without a trailing newline is lost")
    chk.floor("R06.6", 4, "four obligations")


def r06_7(chk):
    chk.rule("R06.7", "writers that wrap a sequence into fixed-width blocks cover the whole sequence: the loop bound of the wrapping helper derives from the length of the string it was given (GDE/PAML helper), FASTA wraps str(seq) itself; a bound taken from shared state (the first sequence's length) truncates longer sequences of a ragged collection")
    from ..defuse import derived_names, expr_derives

    m = chk.repo.module("format/util.py")
    fn = m.func("_AlignmentFormatter.slice_string_in_blocks")
    sp = [p for p in params_of(fn) if p != "self"][0]
    d = derived_names(fn, {sp})
    ranges = [c for c in walk_no_nested(fn) if isinstance(c, ast.Call) and call_name(c) == "range"]
    if not ranges:
        # another idiom (textwrap / comprehension over the string) -- accept only what mentions the string itself
        wraps = [c for c in walk_no_nested(fn) if isinstance(c, ast.Call) and (call_name(c) or "").endswith("wrap") and c.args and expr_derives(c.args[0], d)]
        chk.decide(bool(wraps), "R06.7", key(m, "_AlignmentFormatter.slice_string_in_blocks", "covers the whole string"), m.loc(fn), "wraps the given string", "no loop over the given string found")
    # the bound must depend on the given string ALONE: follow locals back to their definitions and collect the leaves
    local_defs = {}
    for st in walk_no_nested(fn):
        if isinstance(st, ast.Assign) and len(st.targets) == 1 and isinstance(st.targets[0], ast.Name):
            local_defs.setdefault(st.targets[0].id, []).append(st.value)

    def foreign_leaves(e, seen=()):
        out = []
        for n in ast.walk(e):
            if isinstance(n, ast.Attribute) and isinstance(n.value, ast.Name) and n.value.id == "self":
                # the block size is a legitimate ingredient of the bound; any other attribute is state shared between sequences
                if n.attr != "block_size":
                    out.append(norm(n))
            elif isinstance(n, ast.Name) and isinstance(n.ctx, ast.Load) and n.id not in (sp, "self", "len", "min", "max", "int", "range") and n.id not in params_of(fn):
                if n.id in local_defs and n.id not in seen:
                    for v in local_defs[n.id]:
                        out.extend(foreign_leaves(v, seen + (n.id,)))
                elif n.id not in local_defs:
                    out.append(n.id)
        return out

    for c in ranges:
        stop = c.args[1] if len(c.args) >= 2 else c.args[0]
        foreign = sorted(set(foreign_leaves(stop)))
        if expr_derives(stop, d) and foreign:
            chk.violation("R06.7", key(m, "_AlignmentFormatter.slice_string_in_blocks", "block loop bound depends on the string alone"), m.loc(c), f"the block loop bound `{norm(stop)}` also depends on {foreign}: when that shared state (the FIRST sequence's length) is set it replaces the length of the string being wrapped, and a longer sequence of a ragged collection is silently truncated in GDE output")
        else:
            chk.decide(expr_derives(stop, d), "R06.7", key(m, "_AlignmentFormatter.slice_string_in_blocks", "block loop bound depends on the string alone"), m.loc(c), f"bound `{norm(stop)}` derives from len({sp}) only", f"the block loop runs to `{norm(stop)}`, which does not depend on the string being wrapped: a sequence longer than that is silently truncated in GDE/PAML output")
    f2 = chk.repo.module("format/fasta.py").func("seqs_to_fasta")
    wraps = [c for c in walk_no_nested(f2) if isinstance(c, ast.Call) and norm(c.func) == "textwrap.wrap"]
    good = bool(wraps) and "seqs[name]" in norm(wraps[0].args[0])
    chk.decide(good, "R06.7", key("format/fasta.py", "seqs_to_fasta", "wraps the sequence itself"), chk.repo.module("format/fasta.py").loc(wraps[0] if wraps else f2), "textwrap.wrap(str(seqs[name]), block_size)", "the FASTA writer no longer wraps the sequence it is writing")
    # the writers of the formats that also hold ragged collections lay each record out from ITS OWN sequence
    for rel, q in (("format/gde.py", "GDEFormatter.format"), ("format/paml.py", "PamlFormatter.format")):
        fm = chk.repo.module(rel)
        ff = fm.func(q)
        seeds = {t.id for st in walk_no_nested(ff) if isinstance(st, ast.Assign) and any(isinstance(x, ast.Subscript) and norm(x.value) == "alignment_dict" for x in ast.walk(st.value)) for t in st.targets if isinstance(t, ast.Name)}
        dd = derived_names(ff, seeds) if seeds else set()
        rngs = [c for c in walk_no_nested(ff) if isinstance(c, ast.Call) and call_name(c) == "range"]
        helper = [c for c in walk_no_nested(ff) if isinstance(c, ast.Call) and (call_name(c) or "").split(".")[-1] in ("wrap_string_to_block_size", "slice_string_in_blocks", "wrap") and c.args and "alignment_dict[" in norm(c.args[0]) or (isinstance(c, ast.Call) and (call_name(c) or "").split(".")[-1] in ("wrap_string_to_block_size", "slice_string_in_blocks", "wrap") and c.args and expr_derives(c.args[0], dd))]
        k = key(fm, q, "each record is laid out from its own sequence")
        bad = None
        for c in rngs:
            stop = c.args[1] if len(c.args) >= 2 else c.args[0]
            if not (expr_derives(stop, dd) or "alignment_dict[" in norm(stop)):
                bad = (c, f"the block loop `{norm(c)}` is bounded by `{norm(stop)}`, not by the sequence being written")
        if bad is None and not rngs and not helper:
            bad = (ff, "neither the wrapping helper applied to alignment_dict[<name>] nor a loop bounded by the record's sequence was found")
        if bad:
            chk.violation("R06.7", k, fm.loc(bad[0]), bad[1] + ": in a ragged collection a sequence longer than the first one is silently truncated")
        else:
            chk.ok("R06.7", k, fm.loc(ff), "wrap helper applied to alignment_dict[<name>]" if helper else "loops bounded by the record's sequence")
    chk.floor("R06.7", 4, "shared block helper + FASTA writer + GDE and PAML record layout")


def _squeezes(e):
    """does this expression remove ALL white space of its operand (not just at the ends)?"""
    if isinstance(e, ast.Call) and isinstance(e.func, ast.Attribute):
        f = e.func
        # "".join(x.split())
        if f.attr == "join" and isinstance(f.value, ast.Constant) and isinstance(f.value.value, str) and f.value.value.strip() == f.value.value and len(e.args) == 1:
            a = e.args[0]
            if isinstance(a, ast.Call) and isinstance(a.func, ast.Attribute) and a.func.attr == "split" and not a.args and not a.keywords:
                return True
        # x.replace(" ", "")
        if f.attr == "replace" and len(e.args) >= 2 and all(isinstance(a, ast.Constant) and isinstance(a.value, str) for a in e.args[:2]) and e.args[0].value.isspace() and e.args[1].value == "":
            return True
        # x.translate(...) : unknown table, not claimed
    if isinstance(e, ast.Call) and (call_name(e) or "").endswith("re.sub") and len(e.args) >= 2 and isinstance(e.args[0], ast.Constant) and isinstance(e.args[1], ast.Constant) and e.args[1].value == "" and re.search(r"\\s| ", str(e.args[0].value)):
        return True
    return False


NAME_PARSERS = [("parse/paml.py", "PamlParser"), ("parse/phylip.py", "MinimalPhylipParser"), ("parse/clustal.py", "ClustalParser")]


def r06_8(chk):
    chk.rule("R06.8", "labels are preserved verbatim by the block-format parsers (PAML, PHYLIP, Clustal): the first element of every yielded record does not derive -- along reaching definitions, through list/dict elements and the module's helper functions -- from an expression that removes all white space of a line (`''.join(x.split())`, `x.replace(' ', '')`, re.sub of \\s); only the sequence part may be squeezed")
    from ..slicing import Slicer

    for rel, fname in NAME_PARSERS:
        m = chk.repo.module(rel)
        fn = m.func(fname)
        sl = Slicer(m)
        yields = [y for y in walk_no_nested(fn) if isinstance(y, ast.Yield) and isinstance(y.value, ast.Tuple) and len(y.value.elts) == 2]
        if not yields:
            raise AnalysisError(f"{rel}::{fname}: no `yield name, seq` found")
        seq_squeezed = False
        for y in yields:
            node = sl.node_of(fn, y)
            hits = []

            def visit(e, f, hits=hits):
                if _squeezes(e):
                    hits.append((e, f))

            sl.origins(fn, node, y.value.elts[0], visit)
            k = key(m, fname, f"name of `yield {norm(y.value)[:50]}` verbatim")
            if hits:
                e, f = hits[0]
                chk.violation("R06.8", k, m.loc(e), f"the record name derives from `{norm(e)[:70]}` (in {f.name}), which removes every blank inside the line: a name such as 'Homo sapiens' is read back as 'Homosapiens', and names differing only in blanks collide")
            else:
                chk.ok("R06.8", k, m.loc(y), "the name derives only from edge-trimmed / sliced line text")
            shits = []
            sl.origins(fn, node, y.value.elts[1], lambda e, f, shits=shits: shits.append(e) if _squeezes(e) else None)
            seq_squeezed = seq_squeezed or bool(shits)
        if sl.unresolved:
            chk.unresolved("R06.8", key(m, fname, "slice"), m.loc(fn), "; ".join(sl.unresolved[:3]))
    # probe: the slicer must see a squeeze that reaches the name through a reassigned loop variable
    probe_src = "def P(data):\n    name = None\n    for line in data:\n        line = ''.join(line.split())\n        if name is None:\n            name = line\n            continue\n        yield name, line\n        name = None\n"
    pm = ast.parse(probe_src).body[0]

    class _M:
        functions = {}

    ps = Slicer(_M)
    py = [y for y in ast.walk(pm) if isinstance(y, ast.Yield)][0]
    got = []
    ps.origins(pm, ps.node_of(pm, py), py.value.elts[0], lambda e, f: got.append(e) if _squeezes(e) else None)
    if not got:
        raise AnalysisError("R06.8 self-probe failed: squeeze not traced to the yielded name")
    chk.floor("R06.8", 4, "yield sites of three parsers")


def _cuts(e):
    """does this expression return a PART of its text operand chosen by content (a delimiter)?"""
    if isinstance(e, ast.Call) and isinstance(e.func, ast.Attribute) and e.func.attr in ("split", "rsplit", "partition", "rpartition", "findall", "match", "search", "group"):
        return True
    return False


def r06_12(chk):
    chk.rule("R06.12", "a PAML record's name is the whole (edge-trimmed) name line: the writer puts every name verbatim on a line of its own, so the parser's yielded name does not derive -- along reaching definitions -- from any content-dependent cut of that line (split / partition / regex match on a delimiter): a name that contains the delimiter, e.g. two consecutive blanks, would be cut there and the rest counted as sequence")
    from ..slicing import Slicer

    m = chk.repo.module("parse/paml.py")
    fn = m.func("PamlParser")
    sl = Slicer(m)
    yields = [y for y in walk_no_nested(fn) if isinstance(y, ast.Yield) and isinstance(y.value, ast.Tuple) and len(y.value.elts) == 2]
    if not yields:
        raise AnalysisError("PamlParser: no `yield name, seq` found")
    for y in yields:
        hits = []
        sl.origins(fn, sl.node_of(fn, y), y.value.elts[0], lambda e, f, hits=hits: hits.append((e, f)) if _cuts(e) else None)
        k = key(m, "PamlParser", "name is the whole name line")
        if hits:
            e, f = hits[0]
            chk.violation("R06.12", k, m.loc(e), f"the record name derives from `{norm(e)[:70]}`: the name line is cut at a delimiter, but the writer writes names verbatim (blanks included) on their own line")
        else:
            chk.ok("R06.12", k, m.loc(y), "the name derives from the trimmed line only")
    if sl.unresolved:
        chk.unresolved("R06.12", key(m, "PamlParser", "slice"), m.loc(fn), "; ".join(sl.unresolved[:3]))
    # probe: a starred unpacking of a regex split must be traced to the name
    probe_src = "def P(data):\n    name = None\n    for line in data:\n        line = line.strip()\n        if name is None:\n            name, *rest = PAT.split(line, maxsplit=1)\n            if not rest:\n                continue\n            line = rest[0]\n        yield name, line\n        name = None\n"
    pm = ast.parse(probe_src).body[0]

    class _M:
        functions = {}

    ps = Slicer(_M)
    py = [y for y in ast.walk(pm) if isinstance(y, ast.Yield)][0]
    got = []
    ps.origins(pm, ps.node_of(pm, py), py.value.elts[0], lambda e, f: got.append(e) if _cuts(e) else None)
    if not got:
        raise AnalysisError("R06.12 self-probe failed: a split reaching the name through starred unpacking was not traced")
    chk.floor("R06.12", 1, "one yield site")


def r06_13(chk):
    chk.rule("R06.13", "strict and non-strict FASTA-family parsers agree on what a label line is: in _strict_parser no branch that skips a line by a constant first character (the `#` comment test) can consume a character that some caller passes as a label character (MinimalGdeParser passes '%#': GDE nucleotide records are labelled with '#') unless that branch also consults the label characters -- otherwise the strict parser drops the labels the non-strict parser reads")
    m = chk.repo.module("parse/fasta.py")
    fn = m.func("_strict_parser")
    labelsets = set()
    for c in ast.walk(m.tree):
        if isinstance(c, ast.Call):
            for kw in c.keywords:
                if kw.arg in ("label_characters", "label_char") and isinstance(kw.value, ast.Constant) and isinstance(kw.value.value, str):
                    labelsets.add(kw.value.value)
    for f in ast.walk(m.tree):
        if isinstance(f, ast.FunctionDef):
            for a, dflt in zip(f.args.args[::-1], f.args.defaults[::-1]):
                if a.arg in ("label_characters", "label_char") and isinstance(dflt, ast.Constant) and isinstance(dflt.value, str):
                    labelsets.add(dflt.value)
    if not labelsets:
        raise AnalysisError("parse/fasta.py: no label character sets found")
    chars = set("".join(labelsets))
    lparam = next((p for p in params_of(fn) if p.startswith("label_char")), None)
    n = 0
    for st in walk_no_nested(fn):
        if not (isinstance(st, ast.If) and any(isinstance(x, ast.Continue) for x in st.body)):
            continue
        consts = []
        for c in ast.walk(st.test):
            if isinstance(c, ast.Call) and isinstance(c.func, ast.Attribute) and c.func.attr == "startswith" and c.args and isinstance(c.args[0], ast.Constant) and isinstance(c.args[0].value, str):
                consts.append(c.args[0].value)
            if isinstance(c, ast.Compare) and isinstance(c.left, ast.Subscript) and len(c.comparators) == 1 and isinstance(c.comparators[0], ast.Constant) and isinstance(c.comparators[0].value, str):
                consts.append(c.comparators[0].value)
        for cst in consts:
            n += 1
            clash = sorted(set(cst[:1]) & chars)
            consults = lparam is not None and lparam in {x.id for x in ast.walk(st.test) if isinstance(x, ast.Name)}
            chk.decide(not clash or consults, "R06.13", key(m, "_strict_parser", f"skip of lines starting with {cst!r}"), m.loc(st), "the skipped first character is not a label character of any caller (or the test consults the label characters)", f"`if {norm(st.test)}: continue` comes before the label test and swallows {clash}, which a caller passes as a label character ({sorted(labelsets)}): MinimalGdeParser(['#s1','ACGT','#s2','GGCC'], strict=True) raises RecordError('missing a label') while strict=False reads both records")
    chk.floor("R06.13", 1, "the comment test of the strict parser")


def r06_14(chk):
    chk.rule("R06.14", "a file name is not mistaken for a URL: in util/io.py the scheme pattern (`^(http[s]*|file)`, no delimiter) is only ever matched against a parsed scheme (`<...>.scheme`); a site that matches a whole path against a pattern must use one that rejects 'file1.fasta' and 'https_set.phylip' -- otherwise a file the writers wrote under such a name cannot be loaded back")
    import re as _re

    m = chk.repo.module("util/io.py")
    pats = {}
    for st in m.tree.body:
        if isinstance(st, ast.Assign) and isinstance(st.value, ast.Call) and (call_name(st.value) or "").split(".")[-1] == "compile" and st.value.args and isinstance(st.value.args[0], ast.Constant) and isinstance(st.value.args[0].value, str):
            for t in st.targets:
                if isinstance(t, ast.Name):
                    pats[t.id] = st.value.args[0].value
    if "_urls" not in pats:
        raise AnalysisError("util/io.py: _urls pattern not found")
    n = 0
    for q, fn in m.all_functions():
        for c in walk_no_nested(fn):
            if not (isinstance(c, ast.Call) and isinstance(c.func, ast.Attribute) and c.func.attr in ("search", "match") and isinstance(c.func.value, ast.Name) and c.func.value.id in pats and c.args):
                continue
            pat = pats[c.func.value.id]
            if not any(w in pat for w in ("http", "file")):
                continue
            n += 1
            arg = c.args[0]
            on_scheme = any(isinstance(x, ast.Attribute) and x.attr == "scheme" for x in ast.walk(arg))
            rx = _re.compile(pat)
            rejects = not any(getattr(rx, c.func.attr)(probe) for probe in ("file1.fasta", "https_set.phylip", "filename", "http_results/x.fa"))
            chk.decide(on_scheme or rejects, "R06.14", key(m, q, f"{c.func.value.id}.{c.func.attr}({norm(arg)[:30]})"), m.loc(c), "matched against a parsed scheme" if on_scheme else "the pattern requires a scheme delimiter", f"`{norm(c)}` matches the scheme pattern {pat!r} against a whole file name: 'file1.fasta' and 'https_set.phylip' are taken for URLs (aln.write('file1.fasta') succeeds, load_aligned_seqs('file1.fasta') raises ValueError: URL scheme must be http, https or file)")
    chk.floor("R06.14", 2, "the URL tests of open_ / open_url / iter_splitlines")


def r06_15(chk):
    chk.rule("R06.15", "GenBank bytes parser, features/sequence separation: (a) the split at the ORIGIN keyword is not a fixed-arity unpacking of an unbounded `.split(b'\\nORIGIN')` (a CONTIG / WGS style record has no ORIGIN block, and 'ORIGIN' may recur in a comment); (b) what follows the keyword ON ITS LINE is not sequence: the value handed to the sequence converter was cut at the first newline after the keyword -- otherwise 'ORIGIN      Chromosome 7 upstream' yields the sequence CHROMOSOMEUPSTREAMACGT...")
    m = chk.repo.module("parse/genbank.py")
    fns = [f for f in m.tree.body if isinstance(f, ast.FunctionDef) and f.name == "_" and any("iter_genbank_records.register" in norm(d) for d in f.decorator_list) and f.args.args and f.args.args[0].annotation is not None and norm(f.args.args[0].annotation) == "bytes"]
    if not fns:
        raise AnalysisError("iter_genbank_records bytes overload not found")
    fn = fns[0]
    seps = [st for st in walk_no_nested(fn) if isinstance(st, ast.Assign) and isinstance(st.value, ast.Call) and isinstance(st.value.func, ast.Attribute) and st.value.func.attr in ("split", "partition", "rpartition") and st.value.args and isinstance(st.value.args[0], ast.Constant) and isinstance(st.value.args[0].value, bytes) and b"ORIGIN" in st.value.args[0].value]
    if not seps:
        raise AnalysisError("iter_genbank_records[bytes]: the ORIGIN separation was not found")
    sp = seps[0]
    call = sp.value
    unbounded = call.func.attr == "split" and len(call.args) < 2 and not any(kw.arg == "maxsplit" for kw in call.keywords)
    fixed = isinstance(sp.targets[0], ast.Tuple) and not any(isinstance(e, ast.Starred) for e in sp.targets[0].elts)
    chk.decide(not (unbounded and fixed), "R06.15", key(m, "iter_genbank_records[bytes]", "separation tolerates zero or several ORIGIN"), m.loc(sp), f"`{norm(call)[:50]}`", f"`{norm(sp)}` needs exactly one b'\\nORIGIN' in the record: a record without an ORIGIN block raises ValueError (not enough values to unpack)")
    # (b) the converter's argument
    convs = [c for c in walk_no_nested(fn) if isinstance(c, ast.Call) and isinstance(c.func, ast.Name) and c.func.id == "converter" and c.args]
    if not convs:
        raise AnalysisError("iter_genbank_records[bytes]: converter(seq) not found")
    arg = convs[0].args[0]
    names = {x.id for x in ast.walk(arg) if isinstance(x, ast.Name)}
    cut = False
    exprs = [arg] + [st.value for st in walk_no_nested(fn) if isinstance(st, ast.Assign) and st.lineno > sp.lineno and st.lineno <= convs[0].lineno and any(isinstance(t, ast.Name) and t.id in names for t in st.targets) and st is not sp]
    for e in exprs:
        for c in ast.walk(e):
            if isinstance(c, ast.Call) and isinstance(c.func, ast.Attribute) and c.func.attr in ("find", "index", "split", "partition", "splitlines") and (c.func.attr == "splitlines" or (c.args and isinstance(c.args[0], ast.Constant) and c.args[0].value in (b"\n", "\n"))):
                cut = True
    chk.decide(cut, "R06.15", key(m, "iter_genbank_records[bytes]", "rest of the ORIGIN line is not sequence"), m.loc(convs[0]), "the sequence text starts after the end of the ORIGIN line", f"`{norm(convs[0])}` receives everything after the keyword, including the rest of the ORIGIN line: with 'ORIGIN      Chromosome 7 upstream' the parsed sequence begins CHROMOSOMEUPSTREAM")
    chk.floor("R06.15", 2, "separation and converter argument")


def r06_16(chk):
    chk.rule("R06.16", "a format the caller names is the format that is used: in cogent3._load_seqs (behind load_seq / load_unaligned_seqs / load_aligned_seqs) every parser lookup takes the explicit `fmt` argument first and falls back to the suffix only when none was given (`fmt or file_format`) -- a lookup by suffix first parses FASTA text saved as 'x.aln' or PHYLIP saved as 'x.fasta' with the wrong parser although the caller said what it is")
    m = chk.repo.module("__init__.py")
    fn = m.func("_load_seqs")
    ps = params_of(fn)
    if "fmt" not in ps or "file_format" not in ps:
        raise AnalysisError("_load_seqs: parameters fmt / file_format not found")
    calls = [c for c in walk_no_nested(fn) if isinstance(c, ast.Call) and (call_name(c) or "").split(".")[-1] == "get_parser" and c.args]
    if not calls:
        raise AnalysisError("_load_seqs: get_parser(...) not found")
    defs = {st.targets[0].id: st.value for st in walk_no_nested(fn) if isinstance(st, ast.Assign) and isinstance(st.targets[0], ast.Name)}

    def prefers_fmt(e, depth=0):
        if isinstance(e, ast.Name):
            if e.id == "fmt" and "fmt" in defs and depth < 3:
                return prefers_fmt(defs["fmt"], depth + 1)
            if e.id in defs and depth < 3:
                return prefers_fmt(defs[e.id], depth + 1)
            return e.id == "fmt"
        if isinstance(e, ast.BoolOp) and isinstance(e.op, ast.Or):
            return isinstance(e.values[0], ast.Name) and e.values[0].id == "fmt"
        if isinstance(e, ast.IfExp):
            return "fmt" in norm(e.test) and prefers_fmt(e.body, depth + 1)
        return False

    for c in calls:
        chk.decide(prefers_fmt(c.args[0]), "R06.16", key(m, "_load_seqs", f"parser chosen by {norm(c.args[0])[:30]}"), m.loc(c), "the explicit format has priority over the suffix", f"`{norm(c)}` looks the parser up without giving the caller's `fmt` priority: load_aligned_seqs('brca1.aln', format='fasta') is read with the Clustal parser")
    # the loaders hand the caller's format on to the helpers they delegate to
    for q in ("load_seq", "load_unaligned_seqs", "load_aligned_seqs"):
        lf = m.func(q)
        if "format" not in params_of(lf):
            continue
        suffix_names = {st.targets[0].elts[0].id for st in walk_no_nested(lf) if isinstance(st, ast.Assign) and isinstance(st.targets[0], ast.Tuple) and isinstance(st.value, ast.Call) and (call_name(st.value) or "").endswith("get_format_suffixes") and isinstance(st.targets[0].elts[0], ast.Name)}
        for c in walk_no_nested(lf):
            if isinstance(c, ast.Call):
                for kw in c.keywords:
                    if kw.arg == "format" and isinstance(kw.value, ast.Name) and kw.value.id in suffix_names:
                        chk.violation("R06.16", key(m, q, f"format handed to {norm(c.func)[:40]}"), m.loc(c), f"`{norm(c.func)}(..., format={kw.value.id})` passes the suffix of the path, not the caller's `format`: load_unaligned_seqs('data/*.txt', format='fasta') fails with Unsupported format 'txt'")
                    elif kw.arg == "format":
                        chk.ok("R06.16", key(m, q, f"format handed to {norm(c.func)[:40]}"), m.loc(c), f"format={norm(kw.value)[:30]}")
    chk.floor("R06.16", 1, "_load_seqs")


def r06_17(chk):
    chk.rule("R06.17", "interleaved PHYLIP: the 10-column name field exists in the first num_seqs rows and nowhere else, so the parser drops the field (`id_offset = 0`) on a test of the ROW COUNT against the header's num_seqs -- never on meeting a blank line (the blank line between blocks is optional; without it every row of the later blocks would lose its first ten residues)")
    from .c09 import _enclosing_tests

    m = chk.repo.module("parse/phylip.py")
    fn = m.func("MinimalPhylipParser")
    drops = [st for st in walk_no_nested(fn) if isinstance(st, ast.Assign) and norm(st.targets[0]) == "id_offset" and isinstance(st.value, ast.Constant) and st.value.value == 0]
    if not drops:
        raise AnalysisError("MinimalPhylipParser: `id_offset = 0` not found")
    for st in drops:
        tests = _enclosing_tests(fn, st)
        counted = any("num_seqs" in t and ("%" in t or "==" in t or ">=" in t) and not t.startswith("not (") for t in tests)
        chk.decide(counted, "R06.17", key(m, "MinimalPhylipParser", "name field dropped by row count"), m.loc(st), f"under {[t for t in tests if 'num_seqs' in t]}", f"`id_offset = 0` is reached under {tests}: none of these counts rows against num_seqs, so an interleaved file without a blank line after its first block keeps the name field for all later rows (RecordError: Found 29, Expected 39)")
    chk.floor("R06.17", 1, "MinimalPhylipParser")


def r06_18(chk):
    chk.rule("R06.18", "plain and compressed files answer to the same mode: for gzip / bz2 openers a mode without 'b' or 't' means BINARY, for the built-in open it means text -- so in open_ the mode handed to the chosen opener together with an encoding has been made explicit (a 't' is added when the mode names neither); otherwise open_('x.fasta.gz', 'r') raises ('encoding' not supported in binary mode) where open_('x.fasta', 'r') reads text")
    from ..cfg import build

    m = chk.repo.module("util/io.py")
    fn = m.func("open_")
    g = build(fn)
    finals = g.nodes_containing(lambda x: isinstance(x, ast.Call) and isinstance(x.func, ast.Name) and x.func.id == "op" and len(x.args) >= 2 and any(kw.arg == "encoding" for kw in x.keywords))
    if not finals:
        raise AnalysisError("open_: final opener call op(filename, mode, encoding=...) not found")
    fixes = [nd for nd in g.nodes if isinstance(getattr(nd, "ast", None), (ast.Assign, ast.AugAssign)) and norm(nd.ast.targets[0] if isinstance(nd.ast, ast.Assign) else nd.ast.target) == "mode" and any(isinstance(c_, ast.Constant) and isinstance(c_.value, str) and "t" in c_.value for c_ in ast.walk(nd.ast.value)) and not (isinstance(nd.ast.value, ast.BoolOp))]
    guards = [i for i in walk_no_nested(fn) if isinstance(i, ast.If) and "mode" in norm(i.test) and ("'b'" in norm(i.test) or "'t'" in norm(i.test)) and any(isinstance(st, (ast.Assign, ast.AugAssign)) and "mode" in norm(st.targets[0] if isinstance(st, ast.Assign) else st.target) for st in i.body)]
    okf = bool(guards)
    for f in finals:
        chk.decide(okf, "R06.18", key(m, "open_", "mode made explicit before the opener"), m.loc(f.ast), "a 't' is added to a mode that names neither text nor binary", "`op(filename, mode, encoding=...)` receives the caller's mode as is: 'r' is text for open() but binary for gzip.open / bz2.open, so open_('x.fasta.gz', 'r') raises ValueError while the same call on the plain file reads text")
    chk.floor("R06.18", 1, "open_")


def r06_19(chk):
    chk.rule("R06.19", "a format name means the same to the writer and the reader: the writer normalises it (`format.lower()` in write_alignment_to_file) before looking up its formatter, so the reader's lookup (parse.sequence.get_parser) normalises the name the same way before indexing PARSERS -- otherwise write(path, format='FASTA') succeeds and load_aligned_seqs(path, format='FASTA') raises Unsupported format")
    w = chk.repo.module("format/alignment.py").func("write_alignment_to_file")
    wl = any(isinstance(c, ast.Call) and isinstance(c.func, ast.Attribute) and c.func.attr == "lower" and norm(c.func.value) == "format" for c in walk_no_nested(w))
    m = chk.repo.module("parse/sequence.py")
    fn = m.func("get_parser")
    p0 = params_of(fn)[0]
    rl = any(isinstance(c, ast.Call) and isinstance(c.func, ast.Attribute) and c.func.attr in ("lower", "casefold") and norm(c.func.value) == p0 for c in walk_no_nested(fn))
    k = key(m, "get_parser", "format name normalised like the writer's")
    if not wl:
        chk.ok("R06.19", k, m.loc(fn), "the writer does not normalise the name either", nontrivial=False)
    else:
        chk.decide(rl, "R06.19", k, m.loc(fn), f"{p0}.lower() before the lookup", f"the writer lower-cases the format name but get_parser indexes PARSERS with `{p0}` as given: aln.write('y.txt', format='FASTA') works, load_aligned_seqs('y.txt', format='FASTA') raises ValueError: Unsupported format 'FASTA'")
    chk.floor("R06.19", 1, "get_parser")


def r06_20(chk):
    chk.rule("R06.20", "bytes and line FASTA parsers agree on what precedes the first record: splitting the data on b'\\n>' leaves, as piece 0, whatever stands before the first label; it is a record only if it starts with '>' -- a piece 0 that is blank (a file beginning with empty lines) is dropped, as the line parser drops blank lines, instead of being yielded as the record ('', '')")
    m = chk.repo.module("parse/fasta.py")
    fns = [f for f in m.tree.body if isinstance(f, ast.FunctionDef) and f.name == "_" and any("iter_fasta_records.register" in norm(d) for d in f.decorator_list) and f.args.args and f.args.args[0].annotation is not None and norm(f.args.args[0].annotation) == "bytes"]
    if not fns:
        raise AnalysisError("iter_fasta_records bytes overload not found")
    fn = fns[0]
    splits = [st for st in walk_no_nested(fn) if isinstance(st, ast.Assign) and isinstance(st.value, ast.Call) and isinstance(st.value.func, ast.Attribute) and st.value.func.attr == "split" and st.value.args and isinstance(st.value.args[0], ast.Constant) and st.value.args[0].value == b"\n>"]
    if not splits:
        chk.ok("R06.20", key(m, "iter_fasta_records[bytes]", "blank preface is not a record"), m.loc(fn), "records are not obtained by splitting on the label marker", nontrivial=False)
        chk.floor("R06.20", 0, "")
        return
    rv = splits[0].targets[0].id
    handled = False
    for i in walk_no_nested(fn):
        if not isinstance(i, ast.If):
            continue
        chain = [i]
        while chain[-1].orelse and len(chain[-1].orelse) == 1 and isinstance(chain[-1].orelse[0], ast.If):
            chain.append(chain[-1].orelse[0])
        if not any(f"{rv}[0].startswith(b'>')" in norm(c.test) for c in chain):
            continue
        for c in chain:
            t = norm(c.test)
            drops = any(isinstance(st, ast.Assign) and norm(st.targets[0]) == rv and isinstance(st.value, ast.Subscript) for st in c.body) or any(isinstance(st, (ast.Delete,)) for st in c.body) or any(isinstance(st, ast.Expr) and isinstance(st.value, ast.Call) and norm(st.value.func) == f"{rv}.pop" for st in c.body)
            if drops and ("strip()" in t or "isspace()" in t or t.startswith("not ")):
                handled = True
        if chain[-1].orelse and any(isinstance(st, ast.Assign) and norm(st.targets[0]) == rv for st in chain[-1].orelse):
            handled = True
    # or: the pieces are filtered before the loop
    for st in walk_no_nested(fn):
        if isinstance(st, ast.Assign) and norm(st.targets[0]) == rv and isinstance(st.value, (ast.ListComp, ast.GeneratorExp)) and any("strip()" in norm(i_) or "isspace()" in norm(i_) for g_ in st.value.generators for i_ in g_.ifs):
            handled = True
    # or: the record loop skips blank pieces
    for lp in [x for x in walk_no_nested(fn) if isinstance(x, ast.For)]:
        for iff in [x for x in lp.body if isinstance(x, ast.If)]:
            if any(isinstance(st, ast.Continue) for st in iff.body) and ("strip()" in norm(iff.test) or "isspace()" in norm(iff.test)):
                handled = True
    chk.decide(handled, "R06.20", key(m, "iter_fasta_records[bytes]", "blank preface is not a record"), m.loc(splits[0]), "a blank piece before the first label is dropped", f"piece 0 of `{norm(splits[0].value)}` is processed like every other piece: for data starting with blank lines it is b'\\n', which is yielded as the record ('', '') -- the line-based parser yields no such record")
    chk.floor("R06.20", 1, "bytes FASTA parser")


def r06_21(chk):
    chk.rule("R06.21", "a format whose header states ONE sequence length (PHYLIP, PAML: 'n  length') can only hold sequences of that length: its formatter compares the lengths of all the sequences it is given (and refuses a ragged collection) before it writes that header -- written from the first sequence's length alone, a longer sequence is silently cut (PHYLIP) or the file cannot be read back (PAML)")
    n = 0
    for rel, q in (("format/phylip.py", "PhylipFormatter.format"), ("format/paml.py", "PamlFormatter.format")):
        m = chk.repo.module(rel)
        fn = m.func(q)
        header_len = any(isinstance(x, ast.Attribute) and x.attr == "align_length" for x in ast.walk(fn))
        if not header_len:
            chk.ok("R06.21", key(m, q, "lengths compared before the header is written"), m.loc(fn), "the header does not state a single length", nontrivial=False)
            continue
        n += 1
        guards = []
        for i in walk_no_nested(fn):
            if isinstance(i, ast.If) and any(isinstance(x, ast.Raise) for x in ast.walk(i)) and "len(" in norm(i.test) or (isinstance(i, ast.If) and any(isinstance(x, ast.Raise) for x in ast.walk(i)) and any(isinstance(nm, ast.Name) and nm.id in {st.targets[0].id for st in walk_no_nested(fn) if isinstance(st, ast.Assign) and isinstance(st.targets[0], ast.Name) and "len(" in norm(st.value)} for nm in ast.walk(i.test))):
                guards.append(i)
        helper = [c for c in walk_no_nested(fn) if isinstance(c, ast.Call) and (call_name(c) or "").split(".")[-1] in ("_check_same_length", "check_same_length", "assert_same_length")]
        chk.decide(bool(guards) or bool(helper), "R06.21", key(m, q, "lengths compared before the header is written"), m.loc(guards[0] if guards else fn), "a ragged collection is refused", f"{q} writes the header length from the first sequence and never looks at the others: make_unaligned_seqs({{'s1':'ACGT','s2':'ACGTACGT'}}).write('x.phylip') silently stores s2 as ACGT; written as .paml the file cannot be loaded")
    chk.floor("R06.21", 2, "PHYLIP and PAML formatters")


def r06_9(chk):
    chk.rule("R06.9", "GenBank bytes parser: records are split on the line-anchored terminator b'\\n//'; because that separator begins with the newline of the previous line, every later piece starts with a newline -- the piece is left-trimmed before its first line (LOCUS) is taken, and the guard that skips the piece after the last terminator also covers the empty piece (`not piece`, not just piece.isspace())")
    from ..cfg import build

    m = chk.repo.module("parse/genbank.py")
    fns = [f for f in m.tree.body if isinstance(f, ast.FunctionDef) and f.name == "_" and any("iter_genbank_records.register" in norm(d) for d in f.decorator_list) and f.args.args and f.args.args[0].annotation is not None and norm(f.args.args[0].annotation) == "bytes"]
    if not fns:
        raise AnalysisError("iter_genbank_records bytes overload not found")
    fn = fns[0]
    loops = [f for f in walk_no_nested(fn) if isinstance(f, ast.For) and isinstance(f.iter, ast.Call) and isinstance(f.iter.func, ast.Attribute) and f.iter.func.attr == "split" and isinstance(f.target, ast.Name)]
    if not loops:
        raise AnalysisError("iter_genbank_records[bytes]: split loop not found")
    lp = loops[0]
    folded = try_fold(lp.iter.args[0]) if lp.iter.args else (False, None)
    sep = folded[1] if folded[0] else None
    k0 = key(m, "iter_genbank_records[bytes]", "terminator line-anchored")
    chk.decide(isinstance(sep, bytes) and sep.startswith(b"\n") and sep.lstrip() == b"//", "R06.9", k0, m.loc(lp), f"split on {sep!r}", f"records are split on {sep!r}: '//' inside a line (a URL in a comment) would end the record")
    var = lp.target.id
    g = build(fn)
    trims = [n for n in g.nodes if n.kind == "stmt" and isinstance(n.ast, ast.Assign) and norm(n.ast.targets[0]) == var and isinstance(n.ast.value, ast.Call) and isinstance(n.ast.value.func, ast.Attribute) and n.ast.value.func.attr in ("strip", "lstrip") and norm(n.ast.value.func.value) == var and not n.ast.value.args]
    # uses of the piece that look at its first line / split it further
    uses = [n for n in g.nodes_containing(lambda x: isinstance(x, ast.Call) and isinstance(x.func, ast.Attribute) and x.func.attr in ("split", "find", "index", "partition", "splitlines") and norm(x.func.value) == var) if not (n.kind == "loop" and n.ast is lp)]
    if not uses:
        raise AnalysisError("iter_genbank_records[bytes]: no use of the record piece found")
    for u in uses:
        okd = bool(trims) and g.dominated_by(u, trims)[0]
        chk.decide(okd, "R06.9", key(m, "iter_genbank_records[bytes]", f"piece left-trimmed before `{norm(u.ast)[:50]}`"), m.loc(u.ast), "dominated by piece = piece.lstrip()", "the piece is used as it comes out of the split: every record after the first starts with a newline, so its first line is empty (a file with two records raises IndexError)")
    guards = [n for n in g.nodes if n.kind == "if" and any(isinstance(c, ast.Continue) for c in n.ast.body) and var in {x.id for x in ast.walk(n.ast.test) if isinstance(x, ast.Name)}]
    covers_empty = any(norm(n.ast.test) in (f"not {var}", f"not {var}.strip()", f"len({var}) == 0") or (isinstance(n.ast.test, ast.BoolOp) and any(norm(v) in (f"not {var}", f"not {var}.strip()") for v in n.ast.test.values)) for n in guards)
    chk.decide(covers_empty, "R06.9", key(m, "iter_genbank_records[bytes]", "empty last piece skipped"), m.loc(guards[0].ast) if guards else m.loc(lp), "`if not piece: continue`", f"the skip guard is {[norm(n.ast.test) for n in guards] or 'missing'}: b''.isspace() is False, so a file ending in '//' without a final newline raises ValueError")
    chk.floor("R06.9", 3, "terminator, trim, empty guard")


def _zero_length_tail_slices(fn):
    """`x[-n:]` where n is a local bound to a remainder (a % b) or a difference of lengths -- for n == 0 that is x[0:], the
    whole string -- without a test of n guarding the slice"""
    from ..defuse import assignments

    maybe_zero = {t.id for tg, v, _ in assignments(fn) if isinstance(v, ast.BinOp) and isinstance(v.op, (ast.Mod, ast.Sub)) for t in tg if isinstance(t, ast.Name)}
    out = []
    for sub in ast.walk(fn):
        if isinstance(sub, ast.Subscript) and isinstance(sub.slice, ast.Slice) and sub.slice.upper is None and isinstance(sub.slice.lower, ast.UnaryOp) and isinstance(sub.slice.lower.op, ast.USub) and isinstance(sub.slice.lower.operand, ast.Name) and sub.slice.lower.operand.id in maybe_zero:
            n = sub.slice.lower.operand.id
            guarded = any(isinstance(i, (ast.If, ast.IfExp)) and n in {x.id for x in ast.walk(i.test) if isinstance(x, ast.Name)} and any(x is sub for x in ast.walk(i)) for i in ast.walk(fn))
            if not guarded:
                out.append((sub, n))
    return out


def r06_10(chk):
    chk.rule("R06.10", "block wrapping at exact multiples of the line width: no writer helper takes the last block as `s[-tail:]` with `tail` a remainder that can be zero and no test of it -- for tail == 0 that slice is the WHOLE string, so a sequence whose length is an exact multiple of the block size is written twice")
    n = 0
    for rel in ("format/util.py", "format/fasta.py", "format/phylip.py", "format/paml.py", "format/gde.py", "format/alignment.py"):
        try:
            m = chk.repo.module(rel)
        except AnalysisError:
            continue
        for q, fn in m.all_functions():
            n += 1
            for sub, nm in _zero_length_tail_slices(fn):
                chk.violation("R06.10", key(m, q, f"`{norm(sub)}` with {nm} possibly 0"), m.loc(sub), f"`{norm(sub)}` is the whole string when `{nm}` is 0 (an exact multiple of the block size): the sequence is written a second time -- a GDE file then loads as an alignment of twice the length, a PAML file does not load")
    probe = ast.parse("def f(s, b):\n    tail = len(s) % b\n    out = [s[i:i + b] for i in range(0, len(s) - tail, b)]\n    out.append(s[-tail:])\n    return out\n").body[0]
    if not _zero_length_tail_slices(probe):
        raise AnalysisError("R06.10 self-probe failed")
    chk.ok("R06.10", key(chk.repo.module("format/util.py"), "*", "no unguarded s[-tail:]"), "format/", f"{n} writer functions scanned", nontrivial=False)
    chk.floor("R06.10", 0, "expected-zero rule with embedded probe")


def r06_11(chk):
    chk.rule("R06.11", "reading back what was written needs the bytes decoded as they were encoded: in util.io.open_ (i) a caller's explicit `encoding` is used -- the decision to guess tests the value popped from kwargs, not the presence of a key that was just popped (a test that can never succeed); (ii) the encoding is guessed (chardet.detect) only for data that is not plain ASCII -- chardet reads ASCII runs like '~{AB~}' as HZ-GB-2312 escape sequences, so a printable-ASCII name came back as a Chinese character")
    m = chk.repo.module("util/io.py")
    fn = m.func("open_")
    popped = {}
    for c in walk_no_nested(fn):
        if isinstance(c, ast.Call) and isinstance(c.func, ast.Attribute) and c.func.attr == "pop" and isinstance(c.func.value, ast.Name) and c.args and isinstance(c.args[0], ast.Constant):
            popped[(c.func.value.id, c.args[0].value)] = c.lineno
    dead = [t for t in walk_no_nested(fn) if isinstance(t, ast.Compare) and len(t.ops) == 1 and isinstance(t.ops[0], (ast.In, ast.NotIn)) and isinstance(t.left, ast.Constant) and isinstance(t.comparators[0], ast.Name) and (t.comparators[0].id, t.left.value) in popped and t.lineno > popped[(t.comparators[0].id, t.left.value)]]
    chk.decide(not dead, "R06.11", key(m, "open_", "explicit encoding honoured"), m.loc(dead[0] if dead else fn), "the guess is decided on the popped value", f"`{norm(dead[0]) if dead else ''}` tests for a key that was popped from the same mapping a few lines earlier: it can never be found, so the encoding the caller passed is always replaced by a guess")
    det = [c for c in walk_no_nested(fn) if isinstance(c, ast.Call) and (call_name(c) or "").split(".")[-1] == "detect"]
    if not det:
        chk.ok("R06.11", key(m, "open_", "no guessing for ASCII data"), m.loc(fn), "no encoding guess at all", nontrivial=False)
    for c in det:
        guarded = any(isinstance(i, (ast.IfExp, ast.If)) and "isascii" in norm(i.test) and any(x is c for x in ast.walk(i)) for i in ast.walk(fn))
        chk.decide(guarded, "R06.11", key(m, "open_", "no guessing for ASCII data"), m.loc(c), "detect(...) only when the sample is not ASCII", f"`{norm(c)}` guesses the encoding of every file, plain ASCII included: chardet classifies the ASCII name '~{{AB~}}' as HZ-GB-2312 and the GDE / PAML / PHYLIP files written by cogent3 are read back with another name (or fail to load)")
    chk.floor("R06.11", 2, "explicit encoding; ASCII not guessed")


_MUTATORS = {"pop", "remove", "sort", "reverse", "append", "insert", "clear", "extend", "popleft"}
_COPIERS = {"list", "tuple", "sorted", "iter", "deque", "collections.deque"}


def r06_22(chk):
    chk.rule("R06.22", "a registered sequence-format parser does not consume the lines it is given: in every function behind parse.sequence.PARSERS the input parameter is never edited in place (pop / remove / del / item store / sort ...) unless the name was first re-bound, unconditionally, to a copy (`data = list(data)`, a slice, splitlines()) -- the line-based entry points accept a caller's list, and a second parser (or a second parse) of the same lines must see the same records")
    pm = chk.repo.module("parse/sequence.py")
    node = pm.const("PARSERS")
    if not isinstance(node, ast.Dict):
        raise AnalysisError("PARSERS is not a dict literal")
    targets = {}
    for v in node.values:
        e = v
        if isinstance(e, ast.Call) and call_name(e) == "LineBasedParser" and e.args:
            e = e.args[0]
        if isinstance(e, ast.Attribute) and isinstance(e.value, ast.Name):
            targets[(e.value.id, e.attr)] = True
    n = 0
    for modname, fname in sorted(targets):
        m = chk.repo.module(f"parse/{modname}.py")
        if not m.has_func(fname):
            chk.unresolved("R06.22", key(m, fname, "input lines not consumed"), m.rel, "registered parser is not a plain function")
            continue
        fn = m.func(fname)
        ps = [a for a in params_of(fn) if a not in ("self", "cls")]
        if not ps:
            continue
        p0 = ps[0]
        # first unconditional top-level re-binding of the parameter from a copying expression
        rebound_at = None
        for st in fn.body:
            if isinstance(st, ast.Assign) and any(isinstance(t, ast.Name) and t.id == p0 for t in st.targets):
                v = st.value
                copying = (isinstance(v, ast.Call) and ((call_name(v) or "") in _COPIERS or (isinstance(v.func, ast.Attribute) and v.func.attr in ("splitlines", "copy", "split", "readlines")))) or isinstance(v, (ast.ListComp, ast.List)) or (isinstance(v, ast.Subscript) and isinstance(v.slice, ast.Slice))
                if copying:
                    rebound_at = st.lineno
                    break
        hits = []
        for c in walk_no_nested(fn):
            if isinstance(c, ast.Call) and isinstance(c.func, ast.Attribute) and isinstance(c.func.value, ast.Name) and c.func.value.id == p0 and c.func.attr in _MUTATORS:
                hits.append(c)
            elif isinstance(c, (ast.Assign, ast.AugAssign, ast.Delete)):
                for tg in (c.targets if not isinstance(c, ast.AugAssign) else [c.target]):
                    if isinstance(tg, ast.Subscript) and isinstance(tg.value, ast.Name) and tg.value.id == p0:
                        hits.append(c)
        bad = [h for h in hits if rebound_at is None or h.lineno < rebound_at]
        n += 1
        k = key(m, fname, "input lines not consumed")
        chk.decide(not bad, "R06.22", k, m.loc(bad[0] if bad else fn), f"`{p0}` " + ("is copied before it is edited" if hits else "is never edited in place"), f"`{norm(bad[0])[:60] if bad else ''}` edits the caller's `{p0}` (no unconditional copy before it): after one parse the caller's list has lost lines, and the same lines given to this or another parser again give different records or an error")
    chk.floor("R06.22", 8, "functions behind PARSERS")


def r06_23(chk):
    chk.rule("R06.23", "the order a writer falls back to is a list: in the format package nothing is bound from the result of an in-place list method (`x = <list>.sort()` / `.reverse()` is None) -- _AlignmentFormatter.set_align_info fell back to `list(keys).sort()` when the caller's order has the wrong length, so every block writer then iterated None")
    n = 0
    for m in chk.repo.all_modules():
        if not m.rel.replace("src/cogent3/", "").startswith("format/"):
            continue
        for q, fn in m.all_functions():
            for st in walk_no_nested(fn):
                if isinstance(st, ast.Assign) and isinstance(st.value, ast.Call) and isinstance(st.value.func, ast.Attribute) and st.value.func.attr in ("sort", "reverse") and not st.value.args:
                    n += 1
                    chk.violation("R06.23", key(m, q, f"{norm(st.targets[0])} bound from an in-place method"), m.loc(st), f"`{norm(st)[:70]}` binds None: the writer's fall-back order is unusable (TypeError when the sequences are written)")
    m = chk.repo.module("format/util.py")
    fn = m.func("_AlignmentFormatter.set_align_info")
    sets = [st for st in walk_no_nested(fn) if isinstance(st, ast.Assign) and norm(st.targets[0]) == "self.align_order"]
    for st in sets:
        if not (isinstance(st.value, ast.Call) and isinstance(st.value.func, ast.Attribute) and st.value.func.attr in ("sort", "reverse")):
            chk.ok("R06.23", key(m, "_AlignmentFormatter.set_align_info", f"align_order = {norm(st.value)[:40]}"), m.loc(st), "a list")
    chk.floor("R06.23", 1, "set_align_info")


def run(chk):
    r06_23(chk)
    r06_22(chk)
    r06_21(chk)
    r06_20(chk)
    r06_19(chk)
    r06_18(chk)
    r06_17(chk)
    r06_16(chk)
    r06_15(chk)
    r06_14(chk)
    r06_13(chk)
    r06_12(chk)
    r06_11(chk)
    r06_10(chk)
    r06_9(chk)
    r06_8(chk)
    r06_1(chk)
    r06_6(chk)
    r06_7(chk)
    r06_2(chk)
    r06_3(chk)
    r06_4(chk)
    r06_5(chk)
    chk.assume("sequence names contain no newline; FASTA files use \\n or \\r\\n line ends")
