"""C02 -- the log-likelihood equals the first-principles Felsenstein sum-product (PARTIAL).

The equality of two floating-point numbers for every tree, alignment, model and parameter value is NOT
decided.  Decided: that the calculation the code wires together IS the pruning recursion -- each of its
steps has the algebraic shape the definition requires, read off the syntax tree:

R02.1 leaves: an observed (possibly ambiguous) motif becomes the 0/1 indicator of the states compatible
      with it -- get_matched_array writes the constant 1 at [row of the motif, index of each state that
      moltype.resolve_ambiguity returns] into an array of zeros; the extra all-gap column is appended
      with count 0.
R02.2 internal nodes: the partial likelihood of a node is the PRODUCT over its children -- the numba kernel
      assigns for the first child and multiplies for every other one, reading each child's row through
      that child's index, for every parent column and every motif.
R02.3 edges: a child's likelihoods are carried up its edge by sum_j P(i->j) L_j = numpy.inner(L, psub) --
      the definition is built with numpy.inner on (child likelihoods, psub), not dot / not the transposed
      order (wrong for every non-symmetric P).
R02.4 root: the column likelihood is numpy.inner(root partial likelihoods, motif probs of the "root" edge);
      the kernel inner_product sums input[i] * mprobs[i] over all states.
R02.5 rate-heterogeneity bins: the column likelihood is the bprob-weighted SUM of the per-bin column
      likelihoods (paired by zip in bin order), and its log-sum is taken after the mixture, not before.
R02.6 site-HMM: the forward recursion multiplies the class probabilities on the left of the row-stochastic switch matrix.
R02.8 psubs = Qd(distance), distance = length x the bin's rate.
R02.9 one-contiguous-indel predicate of the gap-modelling models, exact on all word pairs of length <= 4 (abstract evaluation).
R02.7 (shared with C11) each child's psub is the one selected by that child's name (R11.2), index arrays
      are paired with children positionally (R11.5), and the total is sum_i counts[i] * log(lh[i]) (R11.4).
R05.9 (shared with C05) word probabilities formed as products of monomer probabilities are renormalised: the root
      probabilities are a distribution on every alphabet.
The rate matrices themselves (calcQ, calibration, stationarity) are decided under C05.
"""

from __future__ import annotations

import ast

from ..index import AnalysisError, call_name, norm, params_of, walk_no_nested
from ..report import key

LC = "evolve/likelihood_calculation.py"
LT = "evolve/likelihood_tree.py"
LTN = "evolve/likelihood_tree_numba.py"


def r02_1(chk):
    chk.rule("R02.1", "a leaf's likelihood row is the 0/1 indicator of the states compatible with the observed motif: get_matched_array starts from zeros and stores the constant 1 at [u, index(state)] for u the row of the motif and every state returned by moltype.resolve_ambiguity(motif, alphabet=...); make_likelihood_tree_leaf appends the all-'?' gap motif with count 0 after compressing the columns")
    m = chk.repo.module(LT)
    fn = m.func("get_matched_array")
    ps = params_of(fn)
    init = [s for s in walk_no_nested(fn) if isinstance(s, ast.Assign) and isinstance(s.value, ast.Call) and (call_name(s.value) or "").split(".")[-1] in ("zeros", "zeros_like")]
    k = key(m, "get_matched_array", "indicator of the compatible states")
    outer = [lp for lp in fn.body if isinstance(lp, ast.For)]
    ok, why = False, "no loop over the motifs"
    if init and outer:
        res = norm(init[0].targets[0])
        lp = outer[0]
        row = None
        if isinstance(lp.target, ast.Tuple) and call_name(lp.iter) == "enumerate" and norm(lp.iter.args[0]) == ps[2]:
            row, mot = norm(lp.target.elts[0]), norm(lp.target.elts[1])
        inner = [x for x in lp.body if isinstance(x, ast.For)]
        if row and inner:
            il = inner[0]
            src = il.iter
            from_resolve = isinstance(src, ast.Call) and isinstance(src.func, ast.Attribute) and src.func.attr == "resolve_ambiguity" and src.args and norm(src.args[0]) == mot
            stores = [s for s in ast.walk(il) if isinstance(s, (ast.Assign, ast.AugAssign))]
            st_ok = len(stores) == 1 and isinstance(stores[0], ast.Assign) and isinstance(stores[0].targets[0], ast.Subscript) and norm(stores[0].targets[0].value) == res and isinstance(stores[0].targets[0].slice, ast.Tuple) and norm(stores[0].targets[0].slice.elts[0]) == row and norm(il.target) in norm(stores[0].targets[0].slice.elts[1]) and isinstance(stores[0].value, ast.Constant) and stores[0].value.value == 1
            # nothing else may write the array (a normalisation of the row would turn the indicator into weights)
            other = [x for x in walk_no_nested(fn) if isinstance(x, (ast.Assign, ast.AugAssign)) and x is not init[0] and not (stores and x is stores[0]) and any(norm(t).split("[")[0] == res for t in (x.targets if isinstance(x, ast.Assign) else [x.target]))]
            ok = from_resolve and st_ok and not other
            why = f"{res}[{row}, index(state)] = 1 for state in resolve_ambiguity({mot})" if ok else f"store is `{norm(stores[0]) if stores else '?'}` over `{norm(src)[:60]}`"
    chk.decide(ok, "R02.1", k, m.loc(fn), why, why + ": the leaf row is not the 0/1 indicator of the states compatible with the motif (an ambiguity code or gap must count as the SET of compatible states, each with weight one)")
    lf = m.func("make_likelihood_tree_leaf")
    idx = [s for s in lf.body if isinstance(s, ast.Assign) and isinstance(s.value, ast.Call) and call_name(s.value) == "_indexed"]
    apps = [s for s in lf.body if isinstance(s, ast.Expr) and isinstance(s.value, ast.Call) and isinstance(s.value.func, ast.Attribute) and s.value.func.attr == "append"]
    okl = False
    if idx and isinstance(idx[0].targets[0], ast.Tuple):
        u, c = norm(idx[0].targets[0].elts[0]), norm(idx[0].targets[0].elts[1])
        gap = [a for a in apps if norm(a.value.func.value) == u and "'?'" in norm(a.value.args[0])]
        zero = [a for a in apps if norm(a.value.func.value) == c and isinstance(a.value.args[0], ast.Constant) and a.value.args[0].value == 0]
        okl = bool(gap and zero) and lf.body.index(gap[0]) > lf.body.index(idx[0]) and lf.body.index(zero[0]) > lf.body.index(idx[0])
    chk.decide(okl, "R02.1", key(m, "make_likelihood_tree_leaf", "gap column appended with count 0"), m.loc(idx[0] if idx else lf), "'?'*motif_len appended to the unique motifs, 0 to the counts", "the extra all-gap column is not appended with a zero count: it would be weighed into the total, or parent nodes index past the leaf's rows")
    chk.floor("R02.1", 2, "get_matched_array and the leaf maker")


def r02_2(chk):
    chk.rule("R02.2", "the partial likelihood of an internal node is the product over its children: in the kernel sum_input_likelihoods every write goes to result[parent_col, motif]; it is an assignment under `child == 0` and a `*=` otherwise (or `*=` throughout on an array of ones), its right-hand side is plhs[child_col, motif] with plhs = likelihoods[child] and child_col = index[parent_col], index = child_indexes[child]; the loops cover range(C), range(index_height), range(result_width)")
    mk = chk.repo.module(LTN)
    kf = mk.func("sum_input_likelihoods")
    ps = params_of(kf)
    k = key(mk, "sum_input_likelihoods", "product over children")
    writes = [s for s in ast.walk(kf) if isinstance(s, (ast.Assign, ast.AugAssign)) and isinstance((s.targets[0] if isinstance(s, ast.Assign) else s.target), ast.Subscript) and norm((s.targets[0] if isinstance(s, ast.Assign) else s.target).value) == ps[1]]
    if not writes:
        chk.unresolved("R02.2", k, mk.loc(kf), "no element-wise write to the result (vectorised form not modelled)")
        chk.floor("R02.2", 0, "")
        return
    outer = [lp for lp in kf.body if isinstance(lp, ast.For)]
    child = outer[0].target.id if outer and isinstance(outer[0].target, ast.Name) else None
    problems = []
    parents = {}
    for x in ast.walk(kf):
        for c in ast.iter_child_nodes(x):
            parents[c] = x

    def guard_of(st):
        x = st
        while x in parents:
            p = parents[x]
            if isinstance(p, ast.If) and norm(p.test) in (f"{child} == 0", f"0 == {child}"):
                return "first" if any(x is y or any(x is z for z in ast.walk(y)) for y in p.body) else "rest"
            if isinstance(p, ast.If) and norm(p.test) in (f"{child} != 0", f"{child} > 0"):
                return "rest" if any(x is y or any(x is z for z in ast.walk(y)) for y in p.body) else "first"
            x = p
        return None

    for w in writes:
        g = guard_of(w)
        if isinstance(w, ast.Assign):
            if g != "first":
                problems.append(f"`{norm(w)}` assigns outside the first-child branch: earlier children's factors are overwritten")
        else:
            if not isinstance(w.op, ast.Mult):
                problems.append(f"`{norm(w)}` combines children with {type(w.op).__name__}, not a product")
            if g == "first":
                problems.append(f"`{norm(w)}` multiplies into an uninitialised result for the first child")
        rhs = w.value
        if not (isinstance(rhs, ast.Subscript) and isinstance(rhs.slice, ast.Tuple) and len(rhs.slice.elts) == 2):
            problems.append(f"`{norm(w)}`: right-hand side is not one cell of the child's likelihoods")
    kinds = {guard_of(w) for w in writes}
    if kinds == {"first"}:
        problems.append("only the first child is ever written")
    # the chain child -> index / plhs -> child_col
    env = {}
    for s in ast.walk(kf):
        if isinstance(s, ast.Assign) and isinstance(s.targets[0], ast.Name):
            env[s.targets[0].id] = norm(s.value)
    for w in writes:
        rhs = w.value
        if isinstance(rhs, ast.Subscript) and isinstance(rhs.slice, ast.Tuple) and len(rhs.slice.elts) == 2:
            src = env.get(norm(rhs.value), norm(rhs.value))
            colv = env.get(norm(rhs.slice.elts[0]), norm(rhs.slice.elts[0]))
            tgt = w.targets[0] if isinstance(w, ast.Assign) else w.target
            pc = norm(tgt.slice.elts[0]) if isinstance(tgt.slice, ast.Tuple) else "?"
            idxname = colv.split("[")[0]
            idxsrc = env.get(idxname, idxname)
            if src != f"{ps[2]}[{child}]":
                problems.append(f"the factor is read from `{src}`, not {ps[2]}[{child}]")
            if not (colv == f"{idxname}[{pc}]" and idxsrc == f"{ps[0]}[{child}]"):
                problems.append(f"the child's row is `{colv}` with {idxname} = `{idxsrc}`, not {ps[0]}[{child}][{pc}]")
            if isinstance(tgt.slice, ast.Tuple) and norm(tgt.slice.elts[1]) != norm(rhs.slice.elts[1]):
                problems.append("result motif and child motif differ")
    problems = sorted(set(problems))
    chk.decide(not problems, "R02.2", k, mk.loc(writes[0]), f"{len(writes)} writes: first child assigns, the others multiply, each through its own index", "; ".join(problems))
    # loop coverage
    loops = [lp for lp in ast.walk(kf) if isinstance(lp, ast.For)]
    its = sorted({norm(lp.iter) for lp in loops})
    full = all(isinstance(lp.iter, ast.Call) and call_name(lp.iter) == "range" and len(lp.iter.args) == 1 for lp in loops)
    bounds = {norm(lp.iter.args[0]) for lp in loops if full}
    resolved = {env.get(b, b) for b in bounds}
    want_any = [{f"{ps[0]}.shape[0]", f"len({ps[0]})", f"len({ps[2]})"}, {"index.shape[0]", f"{ps[1]}.shape[0]", "len(index)"}, {f"{ps[1]}.shape[1]", "plhs.shape[1]"}]
    cov = full and all(bool(w & resolved) for w in want_any)
    kcov = key(mk, "sum_input_likelihoods", "all children, columns and motifs")
    # a bound that is arithmetic on a size (shape[1] - 1, len(x) // 2), or a range with a start/step, cuts the iteration short:
    # that is a violation; a bound spelt in a way not listed above is merely not recognised
    arith = [b for b in resolved if any(isinstance(x, ast.BinOp) for x in ast.walk(ast.parse(b, mode="eval")))]
    if cov:
        chk.ok("R02.2", kcov, mk.loc(kf), f"loops over {its}")
    elif arith or not full:
        chk.violation("R02.2", kcov, mk.loc(kf), f"loops over {its} (bounds {sorted(resolved)}) do not cover every child, parent column and motif")
    else:
        chk.unresolved("R02.2", kcov, mk.loc(kf), f"loop bounds {sorted(resolved)} not recognised")
    chk.floor("R02.2", 1, "writes (loop coverage when its bounds are recognised)")


def _calcdefn_calls(fn, func_text):
    """calls of the form CalcDefn(<func_text>, ...)(a, b)"""
    out = []
    for c in walk_no_nested(fn):
        if isinstance(c, ast.Call) and isinstance(c.func, ast.Call) and call_name(c.func) == "CalcDefn" and c.func.args:
            out.append((norm(c.func.args[0]), c))
    return out


def r02_3(chk):
    chk.rule("R02.3", "a child's likelihoods are carried up its edge as sum_j P(i->j) L_j: make_partial_likelihood_defns builds CalcDefn(numpy.inner)(child likelihoods, psub of that child) -- numpy.inner contracts the LAST axis of both, i.e. the end state j of psub[i, j]; dot / matmul / swapped arguments give sum_j P(j->i) L_j, which differs for every non-symmetric P")
    m = chk.repo.module(LC)
    q = "make_partial_likelihood_defns"
    fn = m.func(q)
    calls = _calcdefn_calls(fn, None)
    k = key(m, q, "inner(child likelihoods, psub)")
    if not calls:
        chk.unresolved("R02.3", k, m.loc(fn), "no CalcDefn(<function>)(...) found")
    for f, c in calls:
        psub_names = {s.targets[0].id for s in walk_no_nested(fn) if isinstance(s, ast.Assign) and isinstance(s.targets[0], ast.Name) and isinstance(s.value, ast.Call) and isinstance(s.value.func, ast.Attribute) and s.value.func.attr == "select_from_dimension" and norm(s.value.func.value) == params_of(fn)[2]}
        ok = f in ("numpy.inner", "inner", "np.inner") and len(c.args) == 2 and norm(c.args[1]) in psub_names and norm(c.args[0]) not in psub_names
        chk.decide(ok, "R02.3", k, m.loc(c), f"CalcDefn({f})({norm(c.args[0])}, {norm(c.args[1]) if len(c.args) > 1 else ''})", f"`{norm(c)[:80]}`: the edge step is not numpy.inner(child likelihoods, psub): for a non-symmetric substitution matrix the sum runs over the start state instead of the end state")
    chk.floor("R02.3", 1, "edge step")


def r02_4(chk):
    chk.rule("R02.4", "at the root the column likelihood is sum_i pi_i L_i with pi the motif probabilities of the edge called 'root': make_total_loglikelihood_defn builds CalcDefn(numpy.inner, name='lh')(root partial likelihoods, mprobs.select_from_dimension('edge', 'root')); the kernel inner_product accumulates input_likelihoods[i] * mprobs[i] over range(len(mprobs))")
    m = chk.repo.module(LC)
    q = "make_total_loglikelihood_defn"
    fn = m.func(q)
    sel = [s for s in walk_no_nested(fn) if isinstance(s, ast.Assign) and isinstance(s.value, ast.Call) and isinstance(s.value.func, ast.Attribute) and s.value.func.attr == "select_from_dimension" and norm(s.value.func.value) == "mprobs"]
    root_ok = bool(sel) and [norm(a) for a in sel[0].value.args] == ["'edge'", "'root'"]
    rname = norm(sel[0].targets[0]) if sel else None
    calls = [(f, c) for f, c in _calcdefn_calls(fn, None) if len(c.args) == 2 and norm(c.args[1]) == rname]
    ok = root_ok and bool(calls) and all(f in ("numpy.inner", "inner", "np.inner") for f, _ in calls)
    plh = [s for s in walk_no_nested(fn) if isinstance(s, ast.Assign) and isinstance(s.value, ast.Call) and call_name(s.value) == "make_partial_likelihood_defns"]
    ok = ok and bool(plh) and all(norm(c.args[0]) == norm(plh[0].targets[0]) for _, c in calls)
    chk.decide(ok, "R02.4", key(m, q, "lh = inner(root partial likelihoods, root motif probs)"), m.loc(calls[0][1] if calls else fn), f"CalcDefn(numpy.inner)({norm(plh[0].targets[0]) if plh else '?'}, {rname}) with {rname} = mprobs['edge'='root']", "the root step is not the inner product of the root partial likelihoods with the motif probabilities selected for the edge 'root'")
    mk = chk.repo.module(LTN)
    kf = mk.func("inner_product")
    ps = params_of(kf)
    loops = [lp for lp in walk_no_nested(kf) if isinstance(lp, ast.For) and isinstance(lp.target, ast.Name)]
    okk, detail = False, "no loop"
    if loops:
        lp = loops[0]
        i = lp.target.id
        acc = [s for s in ast.walk(lp) if isinstance(s, ast.AugAssign)]
        full = norm(lp.iter) in (f"range(len({ps[1]}))", f"range(len({ps[0]}))", f"range({ps[1]}.shape[0])", f"range({ps[0]}.shape[0])")
        prod = len(acc) == 1 and isinstance(acc[0].op, ast.Add) and isinstance(acc[0].value, ast.BinOp) and isinstance(acc[0].value.op, ast.Mult) and sorted([norm(acc[0].value.left), norm(acc[0].value.right)]) == sorted([f"{ps[0]}[{i}]", f"{ps[1]}[{i}]"])
        okk = full and prod
        detail = f"res += {norm(acc[0].value) if acc else '?'} over {norm(lp.iter)}"
    else:
        txt = " ".join(norm(r.value) for r in walk_no_nested(kf) if isinstance(r, ast.Return) and r.value is not None)
        if ("dot" in txt or "inner" in txt or "sum" in txt) and ps[0] in txt and ps[1] in txt:
            okk, detail = True, f"vectorised: {txt}"
    chk.decide(okk, "R02.4", key(mk, "inner_product", "sum of products over all states"), mk.loc(kf), detail, f"{detail}: not sum_i input[i] * mprobs[i] over every state")
    chk.floor("R02.4", 2, "root definition and kernel")


def r02_5(chk):
    chk.rule("R02.5", "with rate-heterogeneity bins the column likelihood is the MIXTURE sum_b bprob_b * lh_b: BinnedSiteDistribution.get_weighted_sum_lh starts from zeros, pairs zip(self.bprobs, lhs) and adds each lh scaled by its own bprob; BinnedLikelihood.__call__ takes the log-sum across sites of that mixture (log after mixing)")
    m = chk.repo.module(LC)
    q = "BinnedSiteDistribution.get_weighted_sum_lh"
    fn = m.func(q)
    lhs = params_of(fn)[-1]
    init = [s for s in fn.body if isinstance(s, ast.Assign) and isinstance(s.value, ast.Call) and (call_name(s.value) or "").split(".")[-1] in ("zeros", "zeros_like")]
    loops = [lp for lp in fn.body if isinstance(lp, ast.For)]
    k = key(m, q, "bprob-weighted sum over bins")
    if not init or not loops:
        chk.unresolved("R02.5", k, m.loc(fn), "not the zeros + loop form (vectorised form not modelled)")
    else:
        res = norm(init[0].targets[0])
        lp = loops[0]
        paired = isinstance(lp.iter, ast.Call) and call_name(lp.iter) == "zip" and [norm(a) for a in lp.iter.args] == ["self.bprobs", lhs] and isinstance(lp.target, ast.Tuple) and len(lp.target.elts) == 2
        problems = []
        if not paired:
            problems.append(f"bins are paired by `{norm(lp.iter)}`")
        else:
            w, lh = norm(lp.target.elts[0]), norm(lp.target.elts[1])
            # names derived from lh inside the loop
            derived = {lh}
            for s in lp.body:
                if isinstance(s, ast.Assign) and any(isinstance(x, ast.Name) and x.id in derived for x in ast.walk(s.value)):
                    for t in s.targets:
                        b = t
                        while isinstance(b, ast.Subscript):
                            b = b.value
                        if isinstance(b, ast.Name):
                            derived.add(b.id)
            scaled = any((isinstance(s, ast.AugAssign) and isinstance(s.op, ast.Mult) and norm(s.target).split("[")[0] in derived and norm(s.value) == w) or (isinstance(s, (ast.Assign, ast.AugAssign)) and isinstance(s.value, ast.BinOp) and isinstance(s.value.op, ast.Mult) and w in (norm(s.value.left), norm(s.value.right))) for s in lp.body)
            added = [s for s in lp.body if isinstance(s, ast.AugAssign) and norm(s.target).split("[")[0] == res]
            if not scaled:
                problems.append(f"the bin likelihood is not multiplied by its probability `{w}`")
            if not added or not all(isinstance(s.op, ast.Add) for s in added):
                problems.append(f"the bins are not summed into `{res}`")
            elif not any(isinstance(x, ast.Name) and x.id in derived for s in added for x in ast.walk(s.value)):
                problems.append("what is added does not derive from the bin's likelihood")
        rets = [r for r in walk_no_nested(fn) if isinstance(r, ast.Return)]
        if not rets or norm(rets[-1].value) != res:
            problems.append("the mixture is not what is returned")
        chk.decide(not problems, "R02.5", k, m.loc(lp), f"{res} = sum over zip(self.bprobs, {lhs}) of bprob * lh", "; ".join(problems))
    q2 = "BinnedLikelihood.__call__"
    f2 = m.func(q2)
    rets = [r for r in walk_no_nested(f2) if isinstance(r, ast.Return) and r.value is not None]
    mix = {s.targets[0].id for s in walk_no_nested(f2) if isinstance(s, ast.Assign) and isinstance(s.targets[0], ast.Name) and isinstance(s.value, ast.Call) and isinstance(s.value.func, ast.Attribute) and s.value.func.attr == "get_weighted_sum_lh"}
    ok2 = bool(rets) and isinstance(rets[0].value, ast.Call) and isinstance(rets[0].value.func, ast.Attribute) and rets[0].value.func.attr == "get_log_sum_across_sites" and rets[0].value.args and (norm(rets[0].value.args[0]) in mix or "get_weighted_sum_lh" in norm(rets[0].value.args[0]))
    chk.decide(ok2, "R02.5", key(m, q2, "log-sum of the mixture"), m.loc(rets[0] if rets else f2), "root.get_log_sum_across_sites(distrib.get_weighted_sum_lh(lhs))", "the log-sum across sites is not taken of the bin mixture")
    chk.floor("R02.5", 2, "mixture and its log-sum")


def r02_6(chk):
    chk.rule("R02.6", "the site-HMM forward recursion advances with the ROW-stochastic switch matrix on the right: SiteClassTransitionMatrix builds M[i, j] = P(class i -> class j) (rows sum to one: off-diagonal probs[j]*switch broadcast over columns), so LikelihoodTreeEdge.log_dot_reduce must form state_probs . M (numpy.dot(state_probs, switch_probs), state_probs @ switch_probs, or dot(switch_probs.T, state_probs)); dot(switch_probs, state_probs) is only right for a symmetric M, i.e. uniform patch probabilities -- otherwise switch = 1 does not reproduce the independent-sites likelihood and a one-column alignment can get a positive log-likelihood")
    m = chk.repo.module(LT)
    q = "LikelihoodTreeEdge.log_dot_reduce"
    fn = m.func(q)
    ps = params_of(fn)
    Mname = ps[2]  # (self, patch_probs, switch_probs, plhs)
    k = key(m, q, "state vector times row-stochastic matrix")
    state = {st.targets[0].id for st in walk_no_nested(fn) if isinstance(st, ast.Assign) and isinstance(st.targets[0], ast.Name) and any(isinstance(x, ast.Name) and x.id == ps[1] for x in ast.walk(st.value))}
    prods = []
    for x in walk_no_nested(fn):
        if isinstance(x, ast.Call) and (call_name(x) or "").split(".")[-1] in ("dot", "matmul") and len(x.args) == 2:
            prods.append((x, x.args[0], x.args[1]))
        if isinstance(x, ast.BinOp) and isinstance(x.op, ast.MatMult):
            prods.append((x, x.left, x.right))
    prods = [(x, a, b) for x, a, b in prods if any(isinstance(y, ast.Name) and y.id == Mname for y in list(ast.walk(a)) + list(ast.walk(b)))]
    if not prods:
        chk.unresolved("R02.6", k, m.loc(fn), "no matrix product with the switch matrix found")
        chk.floor("R02.6", 0, "")
        return
    # the row-stochastic orientation of the matrix itself
    mk = chk.repo.module("maths/markov.py")
    tm = mk.func("SiteClassTransitionMatrix")
    sw = [st for st in walk_no_nested(tm) if isinstance(st, ast.Assign) and norm(st.targets[0]) == "switch_probs"]
    row = bool(sw) and "(1.0 - I) * (probs * switch)" in norm(sw[0].value)
    if not row:
        # another construction of the matrix: its orientation is not established, nothing is decided about the product
        chk.unresolved("R02.6", key(mk, "SiteClassTransitionMatrix", "rows are the from-class"), mk.loc(sw[0] if sw else tm), "the switch matrix is not built as (1 - I) * (probs * switch) + ...: orientation unknown")
        chk.unresolved("R02.6", k, m.loc(fn), "orientation of the switch matrix unknown")
        chk.floor("R02.6", 0, "")
        return
    chk.ok("R02.6", key(mk, "SiteClassTransitionMatrix", "rows are the from-class"), mk.loc(sw[0]), "off-diagonal (1 - I) * (probs * switch): M[i, j] = probs[j] * switch, rows sum to one")
    for x, a, b in prods:
        def is_state(e):
            return isinstance(e, ast.Name) and e.id in state
        def is_M(e):
            return isinstance(e, ast.Name) and e.id == Mname
        def is_MT(e):
            return (isinstance(e, ast.Attribute) and e.attr == "T" and is_M(e.value)) or (isinstance(e, ast.Call) and (call_name(e) or "").split(".")[-1] == "transpose" and e.args and is_M(e.args[0]))
        good = (is_state(a) and is_M(b)) or (is_MT(a) and is_state(b))
        chk.decide(good, "R02.6", k, m.loc(x), f"`{norm(x)}`", f"`{norm(x)}` multiplies the class probabilities on the wrong side of the row-stochastic switch matrix: with patch probabilities (0.2, 0.8) and bin_switch = 1 the likelihood is -65.380 instead of the independent-sites -65.674, and a single column can get lnL > 0")
    chk.floor("R02.6", 2, "matrix orientation and the product")


def r02_8(chk):
    chk.rule("R02.8", "the transition matrix of an edge is the exponentiated rate matrix evaluated at the edge's time: make_continuous_psub_defn builds psubs = CallDefn(Qd, distance) with Qd from make_Qd_defn, and make_distance_defn gives distance = length, or ProductDefn(length, <the bin's rate>) for rate-heterogeneity models -- a product, of exactly these two, under the with_rate-and-bins condition")
    m = chk.repo.module("evolve/substitution_model.py")
    ci = m.cls("_ContinuousSubstitutionModel")
    f1 = ci.methods.get("make_continuous_psub_defn")
    f2 = ci.methods.get("make_distance_defn")
    if f1 is None or f2 is None:
        raise AnalysisError("psub / distance definitions not found")
    rets = [r for r in walk_no_nested(f1) if isinstance(r, ast.Return) and r.value is not None]
    qd = {st.targets[0].id for st in walk_no_nested(f1) if isinstance(st, ast.Assign) and isinstance(st.targets[0], ast.Name) and isinstance(st.value, ast.Call) and isinstance(st.value.func, ast.Attribute) and st.value.func.attr == "make_Qd_defn"}
    dpar = "distance" if "distance" in params_of(f1) else None
    ok1 = bool(rets) and isinstance(rets[0].value, ast.Call) and call_name(rets[0].value) == "CallDefn" and len(rets[0].value.args) == 2 and norm(rets[0].value.args[0]) in qd and norm(rets[0].value.args[1]) == dpar
    chk.decide(ok1, "R02.8", key(m, "_ContinuousSubstitutionModel.make_continuous_psub_defn", "psubs = Qd(distance)"), m.loc(rets[0] if rets else f1), "CallDefn(Qd, distance)", f"`{norm(rets[0].value)[:60] if rets else ''}` is not the exponentiated rate matrix called with the edge's distance")
    prods = [st for st in walk_no_nested(f2) if isinstance(st, ast.Assign) and isinstance(st.value, ast.Call) and call_name(st.value) == "ProductDefn"]
    lengths = {st.targets[0].id for st in walk_no_nested(f2) if isinstance(st, ast.Assign) and isinstance(st.targets[0], ast.Name) and isinstance(st.value, ast.Call) and call_name(st.value) == "LengthDefn"}
    rates = {st.targets[0].id for st in walk_no_nested(f2) if isinstance(st, ast.Assign) and isinstance(st.targets[0], ast.Name) and isinstance(st.value, ast.Call) and isinstance(st.value.func, ast.Attribute) and st.value.func.attr == "_make_bin_param_defn" and st.value.args and norm(st.value.args[0]) == "'rate'"}
    ok2 = False
    detail = "no ProductDefn"
    if prods:
        args = [norm(a) for a in prods[0].value.args]
        ok2 = len(args) == 2 and set(args) == (lengths | rates) and len(lengths) == 1 and len(rates) == 1
        detail = f"ProductDefn({', '.join(args)})"
    plain = [st for st in walk_no_nested(f2) if isinstance(st, ast.Assign) and norm(st.targets[0]) == "distance" and isinstance(st.value, ast.Name) and st.value.id in lengths]
    guard = [i for i in walk_no_nested(f2) if isinstance(i, ast.If) and any(p is x for p in prods for st in i.body for x in ast.walk(st))]
    gok = False
    if guard:
        t = guard[0].test
        parts = {norm(v) for v in (t.values if isinstance(t, ast.BoolOp) and isinstance(t.op, ast.And) else [t])}
        gok = "self.with_rate" in parts and bool(parts & {"bprobs is not None", "bprobs", "not bprobs is None"}) and parts <= {"self.with_rate", "bprobs is not None", "bprobs", "not bprobs is None"}
    chk.decide(ok2 and bool(plain) and gok, "R02.8", key(m, "_ContinuousSubstitutionModel.make_distance_defn", "distance = length x bin rate"), m.loc(prods[0] if prods else f2), f"{detail} under `{norm(guard[0].test) if guard else '?'}`, else the length", f"{detail}; guard `{norm(guard[0].test) if guard else '?'}`: the time a bin's transition matrix is evaluated at is not length x that bin's rate")
    chk.floor("R02.8", 2, "psub and distance definitions")


def r02_9(chk):
    chk.rule("R02.9", "in a gap-modelling multi-letter model a change between two words is instantaneous iff one position differs, or the differences are ONE contiguous indel: _ContinuousSubstitutionModel._is_any_indel is evaluated (its syntax tree interpreted, nothing imported) on ALL pairs of words of length 1..4 over {A, C, gap} and must answer True exactly when the words differ, every differing position pairs the gap with a base, the gap is always on the same word, and the differing positions are contiguous -- a second gap run after a matching position makes extra cells of Q non-zero")
    from itertools import product

    from ..minieval import Unhandled, evaluate

    m = chk.repo.module("evolve/substitution_model.py")
    q = "_ContinuousSubstitutionModel._is_any_indel"
    if not m.has_func(q):
        chk.unresolved("R02.9", key(m, q, "one contiguous indel"), m.rel, "helper not found under this name")
        chk.floor("R02.9", 0, "")
        return
    fn = m.func(q)
    ps = [p for p in params_of(fn) if p != "self"]
    k = key(m, q, "one contiguous indel, on all word pairs of length <= 4")
    G = "-"
    top = 5 if chk.tier == "thorough" else 4
    bad, n = [], 0

    def oracle(x, y):
        D = [i for i in range(len(x)) if x[i] != y[i]]
        if not D:
            return False
        if any(x[i] != G and y[i] != G for i in D):
            return False
        if len({x[i] == G for i in D}) != 1:
            return False
        return D[-1] - D[0] + 1 == len(D)

    try:
        for L in range(1, top + 1):
            words = ["".join(w) for w in product("AC" + G, repeat=L)]
            for x in words:
                for y in words:
                    n += 1
                    got = evaluate(fn, {ps[0]: x, ps[1]: y}, attrs={"gapmotif": G * L})
                    if bool(got) != oracle(x, y) or isinstance(got, tuple):
                        bad.append((x, y, got))
    except Unhandled as e:
        chk.unresolved("R02.9", k, m.loc(fn), f"_is_any_indel uses a construct the evaluator does not model: {e}")
        chk.floor("R02.9", 0, "")
        return
    if bad:
        x, y, got = bad[0]
        chk.violation("R02.9", k, m.loc(fn), f"{len(bad)} of {n} word pairs are classified wrongly, e.g. {x!r} <-> {y!r} gives {got!r}: changes that are not one contiguous indel become instantaneous (or the reverse), so Q has the wrong non-zero cells for every model with model_gaps=True and motif_length >= 3")
    else:
        chk.ok("R02.9", k, m.loc(fn), f"all {n} pairs of words of length 1..{top} over {{A, C, gap}} classified as the definition requires")
    # the caller: one difference, or (several and long indels allowed and one indel)
    c = m.func("_ContinuousSubstitutionModel._is_instantaneous")
    txt = " ".join(norm(r.value) for r in walk_no_nested(c) if isinstance(r, ast.Return) and r.value is not None)
    okc = "diffs == 1" in txt and "diffs > 1" in txt and "self.long_indels_are_instantaneous" in txt and "self._is_any_indel(x, y)" in txt
    if okc:
        chk.ok("R02.9", key(m, "_ContinuousSubstitutionModel._is_instantaneous", "one difference or one indel"), m.loc(c), txt[:100])
    else:
        chk.unresolved("R02.9", key(m, "_ContinuousSubstitutionModel._is_instantaneous", "one difference or one indel"), m.loc(c), f"not the recognised form: {txt[:80]}")
    chk.extra["R02.9_pairs"] = n
    chk.floor("R02.9", 1, "_is_any_indel")


def run(chk):
    r02_1(chk)
    r02_9(chk)
    r02_8(chk)
    r02_6(chk)
    r02_2(chk)
    r02_3(chk)
    r02_4(chk)
    r02_5(chk)
    # shared bookkeeping rules (see c11): psub by the child's own name / builder order, positional index pairing, count-weighted log-sum
    from . import c11

    c11.r11_2(chk)
    c11.r11_4(chk)
    c11.r11_5(chk)
    # the root probabilities pi of the sum-product must be a distribution: word probabilities formed as products of
    # per-position monomer probabilities are renormalised (C05's R05.9) -- on an alphabet that is not the full tuple
    # alphabet (codons without stops) the raw product sums to less than one and per-column likelihoods no longer sum to one
    from . import c05

    c05.r05_9(chk)
    chk.assume("psub[i, j] is the probability of ending in state j having started in i (rows are start states), as produced by the exponentiators decided under C05")
    chk.assume("not decided: numerical equality with an independent evaluation; scaling / underflow handling; the site-HMM likelihood beyond the orientation of its recursion (R02.6); the rate matrices themselves (C05)")
