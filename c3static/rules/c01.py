"""C01 -- sequence views obey the slice / reverse-complement algebra.

The view arithmetic itself (integer arithmetic over unbounded values and chain
depth) is not decided.  Decided:
R01.1 view bypass: no method reads the raw (reversed but not complemented) view
      without the is_reversed-guarded complement
R01.2 the realisation owners keep that guard
R01.3 the two implementations of the slice algebra agree (twin diff)
R01.4 coordinate-space typing inside the view classes: parent indices only index
      parent strings

Added in build round 2 (see DESIGN.md section 3, round-2 table):
R01.5 the read / iterate / measure methods that exist in both sequence implementations are equal after normalisation (same reasoning and stated limit as ...
R01.6 a view built over a realised string of the receiver starts a new, forward coordinate system: it may be given the receiver's own parent coordinates ...

Added later in build rounds 2-3 (see DESIGN.md section 3, round-2/3 table):
R01.7 the value accessors of a view (str_value, bytes_value, array_value) realise the same slice: in SeqDataView they are equal after normalisation up to ...
"""

from __future__ import annotations

import ast

from ..defuse import aliases_of
from ..index import AnalysisError, call_name, norm, params_of, walk_no_nested
from ..report import key
from .. import twins

OLD = "core/sequence.py"
NEW = "core/new_sequence.py"
NEWALN = "core/new_alignment.py"

RAW_ATTRS = {"value", "str_value", "bytes_value", "array_value", "seq"}
RAW_CALLS = {"str", "bytes", "array", "numpy.array", "np.array", "list", "tuple", "iter", "sorted", "set", "bytearray", "numpy.asarray", "asarray"}
RAW_METHODS = {"replace", "count", "find", "rfind", "index", "upper", "lower", "translate", "split", "strip", "startswith", "endswith", "encode", "decode", "tobytes", "join"}
# view -> view / coordinates only
SAFE_ATTRS = {"is_reversed", "parent_start", "parent_stop", "seqid", "offset", "start", "stop", "step", "seq_len", "alphabet"}
SAFE_METHODS = {"copy", "to_rich_dict", "absolute_position", "relative_position", "with_offset", "__len__"}

SEQ_CLASSES = {
    OLD: ("Sequence", "NucleicAcidSequence", "DnaSequence", "RnaSequence", "ProteinSequence", "ProteinWithStopSequence", "ABSequence", "ByteSequence"),
    NEW: ("Sequence", "NucleicAcidSequenceMixin", "DnaSequence", "RnaSequence", "ProteinSequence", "ProteinWithStopSequence", "ByteSequence"),
}


def raw_reads(fn):
    """[(node, description)] raw character reads of self._seq (or a local alias) in fn"""
    al = aliases_of(fn, "self._seq")

    # a local bound to a sequence (`seq = self`, `seq = self.trim_stop_codon(...)`, another sequence) has a view too
    def is_view(e):
        return norm(e) == "self._seq" or (isinstance(e, ast.Name) and e.id in al) or (isinstance(e, ast.Attribute) and e.attr == "_seq" and isinstance(e.value, ast.Name))

    out = []
    for n in walk_no_nested(fn):
        if isinstance(n, ast.Attribute) and is_view(n.value) and isinstance(n.ctx, ast.Load):
            if n.attr in RAW_ATTRS:
                out.append((n, f"{norm(n)} (raw attribute)"))
        elif isinstance(n, ast.Call):
            cn = call_name(n)
            if cn in RAW_CALLS and n.args and is_view(n.args[0]):
                out.append((n, f"{norm(n)}"))
            elif isinstance(n.func, ast.Attribute) and n.func.attr == "join" and n.args and is_view(n.args[0]):
                out.append((n, f"{norm(n)}"))
            elif isinstance(n.func, ast.Attribute) and is_view(n.func.value) and n.func.attr in RAW_METHODS:
                out.append((n, f"{norm(n.func)}(...) (string method on the view)"))
        elif isinstance(n, (ast.For, ast.AsyncFor)) and is_view(n.iter):
            out.append((n.iter, f"for ... in {norm(n.iter)}"))
        elif isinstance(n, ast.comprehension) and is_view(n.iter):
            out.append((n.iter, f"comprehension over {norm(n.iter)}"))
    return out


def guarded_complement(fn):
    """names that receive `<x> = self.moltype.complement(<x>)` (or .rc) under an
    `if <view>.is_reversed` test"""
    out = set()
    for i in walk_no_nested(fn):
        if isinstance(i, ast.If) and "is_reversed" in norm(i.test) and "_seq" in norm(i.test) and not norm(i.test).startswith("not "):
            for st in ast.walk(ast.Module(body=i.body, type_ignores=[])):
                if isinstance(st, ast.Assign) and isinstance(st.value, ast.Call) and isinstance(st.value.func, ast.Attribute) and st.value.func.attr in ("complement", "rc") and st.value.args:
                    a = st.value.args[0]
                    if isinstance(a, ast.Name) and norm(st.targets[0]) == a.id:
                        out.add(a.id)
    return out


def _assigned_to(fn, node):
    for st in walk_no_nested(fn):
        if isinstance(st, ast.Assign) and (st.value is node or any(node is x for x in ast.walk(st.value))) and len(st.targets) == 1 and isinstance(st.targets[0], ast.Name):
            # only a direct binding `r = str(self._seq)` counts
            if st.value is node:
                return st.targets[0].id
    return None


def r01_1_2(chk):
    chk.rule("R01.1", "every raw character read of the view `self._seq` in a method that is the MRO-resolved implementation for a concrete sequence class flows into `x = self.moltype.complement(x)` under `if self._seq.is_reversed` in the same function (a reversed view stores the reverse but not the complement)")
    chk.rule("R01.2", "the realisation owners (__str__, __bytes__, __array__) keep the is_reversed-guarded complement")
    n_owner = 0
    for rel, names in SEQ_CLASSES.items():
        m = chk.repo.module(rel)
        concrete = [m.cls(n) for n in names if n in m.classes]
        # functions that are the resolved implementation of some name for some concrete class
        resolved = {}
        for ci in concrete:
            for name, r in ci.method_table().items():
                if r and isinstance(r[1], (ast.FunctionDef, ast.AsyncFunctionDef)) and r[0].module is m:
                    resolved.setdefault(id(r[1]), (r[0], name, r[1], []))[3].append(ci.name)
        # property getters too
        for ci in concrete:
            for base in ci.mro():
                if base.module is not m:
                    continue
                for pname, pd in base.properties.items():
                    for kind, f in pd.items():
                        if f is not None and id(f) not in resolved and ci.resolve_property(pname) and ci.resolve_property(pname)[0] is base:
                            resolved[id(f)] = (base, pname, f, [ci.name])
        # shadowing: SequenceI.__str__ etc. only count for classes that actually resolve to them
        for owner, name, fn, users in resolved.values():
            q = f"{owner.name}.{name}"
            reads = raw_reads(fn)
            if not reads:
                continue
            guards = guarded_complement(fn)
            for node, desc in reads:
                var = _assigned_to(fn, node)
                k = key(m, q, f"raw read {norm(node)}")
                # classes that use the view: those with _seq set in __init__ (Sequence family); array sequences have no _seq
                if owner.name == "SequenceI" and all(u.startswith("Array") for u in users):
                    chk.unresolved("R01.1", k, m.loc(node), "only array-backed classes resolve to this implementation")
                    continue
                if var is not None and var in guards:
                    n_owner += 1
                    chk.ok("R01.1", k, m.loc(node), f"{desc} -> `{var}` complemented under is_reversed")
                    chk.ok("R01.2", key(m, q, "guarded complement"), m.loc(fn), "owner keeps `if self._seq.is_reversed: x = self.moltype.complement(x)`")
                else:
                    chk.violation("R01.1", k, m.loc(node), f"{desc} reads the view's raw characters without the is_reversed-guarded complement: on a reverse-complemented nucleic-acid view the method sees the reversed but uncomplemented parent characters (resolved for {sorted(set(users))[:4]})")
    # R01.2: the named owners must exist with the guard (deleting the guard must not pass vacuously)
    owners = [(OLD, "Sequence.__str__"), (NEW, "Sequence.__str__"), (NEW, "Sequence.__bytes__"), (NEW, "Sequence.__array__"), (NEW, "NucleicAcidSequenceMixin.__str__")]
    for rel, q in owners:
        m = chk.repo.module(rel)
        fn = m.func(q)
        g = guarded_complement(fn)
        rr = raw_reads(fn)
        chk.decide(bool(g) and bool(rr), "R01.2", key(m, q, "guarded complement"), m.loc(fn), "realises the view and complements under is_reversed", "the realisation owner no longer complements a reversed view (or no longer realises the view): every rc'd sequence prints the reversed, uncomplemented parent")
    chk.floor("R01.2", 5, "five realisation owners")
    chk.floor("R01.1", 5, "at least the owners' reads")
    # cross-reference: nothing outside the sequence modules reads <x>._seq.<raw>
    if chk.tier == "thorough":
        for mod in chk.repo.all_modules():
            if mod.rel.endswith((OLD, NEW)) or "._seq." not in mod.source:
                continue
            for n in ast.walk(mod.tree):
                if isinstance(n, ast.Attribute) and n.attr in RAW_ATTRS and isinstance(n.value, ast.Attribute) and n.value.attr == "_seq":
                    chk.advisory("R01.1", key(mod, "<module>", norm(n)), mod.loc(n), "raw view read outside the sequence modules (cross-reference sweep)")


# ---------------------------------------------------------------------------
SLICE_TWINS = [
    "__getitem__", "__len__", "_get_index", "_get_slice", "_get_reverse_slice",
    "_get_forward_slice_from_forward_seqview_", "_get_forward_slice_from_reverse_seqview_",
    "_get_reverse_slice_from_forward_seqview_", "_get_reverse_slice_from_reverse_seqview_",
    "parent_start", "parent_stop", "is_reversed", "relative_position", "absolute_position", "offset", "_zero_slice",
]
FUNC_TWINS = ["_input_vals_pos_step", "_input_vals_neg_step"]


def _method_or_property(ci, name):
    if name in ci.methods:
        return [("", ci.methods[name])]
    out = []
    for kind, f in (ci.properties.get(name) or {}).items():
        if f is not None:
            out.append((f"[{kind}]", f))
    return out


def r01_3(chk):
    chk.rule("R01.3", "the slice algebra exists twice (old and new SliceRecordABC, and the module helpers); each pair of twins is equal after normalisation (docstrings, annotations, += spelling, if/else-assignment vs conditional expression removed). The property fixes one right answer for both implementations, so semantically different twins mean one is wrong")
    o = chk.repo.module(OLD)
    n = chk.repo.module(NEW)
    oc, nc = o.cls("SliceRecordABC"), n.cls("SliceRecordABC")
    for name in SLICE_TWINS:
        a, b = _method_or_property(oc, name), _method_or_property(nc, name)
        # setter/getter pairs
        if not a or not b:
            raise AnalysisError(f"twin {name} missing on one side (old {bool(a)}, new {bool(b)})")
        da = dict(_method_or_property(oc, name)) if name not in oc.methods else {"": oc.methods[name]}
        for kind, fa in a:
            fb = dict(b).get(kind)
            if fb is None:
                continue
            k = key(o, f"SliceRecordABC.{name}{kind}", "twin of new")
            same = twins.same(fa, fb)
            chk.decide(same, "R01.3", k, f"{o.loc(fa)} / {n.loc(fb)}", "identical after normalisation", "old and new implementations diverge: " + " ; ".join(twins.diff(fa, fb)))
    for name in FUNC_TWINS:
        fa, fb = o.func(name), n.func(name)
        chk.decide(twins.same(fa, fb), "R01.3", key(o, name, "twin of new"), f"{o.loc(fa)} / {n.loc(fb)}", "identical after normalisation", "old and new implementations diverge: " + " ; ".join(twins.diff(fa, fb)))
    chk.floor("R01.3", 17, "16 SliceRecordABC twins + 2 helpers")


READ_ONLY_TWINS = [
    # (old class, new class, method): read / iterate / measure methods that are textually the same in both
    # implementations on the pinned tree.  The property quantifies over both implementations with one right
    # answer, so a one-sided change of any of them makes the implementations disagree.
    ("Sequence", "Sequence", ["__iter__", "__len__", "__str__", "get_kmers", "iter_kmers", "sliding_windows", "get_name", "get_type", "gapped_by_map_motif_iter", "gapped_by_map_segment_iter"]),
    ("SequenceI", "Sequence", ["__contains__", "__eq__", "__ne__", "__hash__", "__lt__", "count", "frac_same", "frac_diff", "frac_same_gaps", "frac_diff_gaps", "frac_same_non_gaps", "frac_diff_non_gaps", "frac_similar", "distance", "matrix_distance", "diff", "is_valid", "to_fasta"]),
    ("NucleicAcidSequence", "NucleicAcidSequenceMixin", ["reverse_complement", "to_dna", "to_rna"]),
]


def r01_5(chk):
    chk.rule("R01.5", "the read / iterate / measure methods that exist in both sequence implementations are equal after normalisation (same reasoning and stated limit as R01.3): a one-sided change makes old- and new-style sequences answer differently")
    o = chk.repo.module(OLD)
    n = chk.repo.module(NEW)
    for oc, nc, names in READ_ONLY_TWINS:
        a, b = o.cls(oc), n.cls(nc)
        for name in names:
            fa, fb = a.methods.get(name), b.methods.get(name)
            if fa is None or fb is None:
                raise AnalysisError(f"twin {oc}.{name} / {nc}.{name} missing on one side")
            chk.decide(twins.same(fa, fb), "R01.5", key(o, f"{oc}.{name}", f"twin of new {nc}.{name}"), f"{o.loc(fa)} / {n.loc(fb)}", "identical after normalisation", "old and new implementations diverge: " + " ; ".join(twins.diff(fa, fb)))
    chk.floor("R01.5", 31, "31 read-only twins")


# ---------------------------------------------------------------------------
VIEW_CLASSES = [(OLD, "SeqView"), (NEW, "SeqView"), (NEWALN, "SeqDataView")]


def _absolute_names(fn):
    """locals assigned from the view's ABSOLUTE coordinates (parent_start / parent_stop / absolute_position: they
    include the offset), as opposed to local plus-strand indices derived from self.start / self.stop"""
    names = set()
    for st in walk_no_nested(fn):
        if isinstance(st, ast.Assign):
            tg = st.targets[0]
            tn = [e.id for e in tg.elts if isinstance(e, ast.Name)] if isinstance(tg, ast.Tuple) else [tg.id] if isinstance(tg, ast.Name) else []
            vals = st.value.elts if isinstance(st.value, ast.Tuple) and isinstance(tg, ast.Tuple) and len(st.value.elts) == len(tg.elts) else [st.value] * len(tn)
            for t, v in zip(tn, vals):
                txt = norm(v)
                if "self.parent_start" in txt or "self.parent_stop" in txt or "absolute_position(" in txt:
                    names.add(t)
    return names


def _parent_index_names(fn):
    """local names that hold parent (plus-strand) indices: assigned from expressions over
    self.start / self.stop (possibly + adj where adj = self.seq_len + 1), or self.parent_start/stop"""
    names = set()
    changed = True
    while changed:
        changed = False
        for st in walk_no_nested(fn):
            if not isinstance(st, ast.Assign):
                continue
            tg = st.targets[0]
            tnames = [e.id for e in tg.elts if isinstance(e, ast.Name)] if isinstance(tg, ast.Tuple) else [tg.id] if isinstance(tg, ast.Name) else []
            txt = norm(st.value)
            if any(s in txt for s in ("self.start", "self.stop", "self.parent_start", "self.parent_stop")) or any(isinstance(x, ast.Name) and x.id in names for x in ast.walk(st.value)):
                for t in tnames:
                    if t not in names:
                        names.add(t)
                        changed = True
    return names


def r01_4(chk):
    chk.rule("R01.4", "inside the view classes a subscript whose bounds are parent indices (derived from self.start/self.stop) has a parent-string base (self.seq, or get_seq_str on the parent store); slicing an already realised view string (value/str_value/...) with parent indices reads the wrong residues")
    n = 0
    for rel, cname in VIEW_CLASSES:
        m = chk.repo.module(rel)
        ci = m.cls(cname)
        fns = list(ci.methods.items()) + [(f"{p}", f) for p, pd in ci.properties.items() for f in pd.values() if f is not None and p not in ci.methods]
        for name, fn in fns:
            pidx = _parent_index_names(fn)
            for s in walk_no_nested(fn):
                if not (isinstance(s, ast.Subscript) and isinstance(s.slice, ast.Slice) and isinstance(s.ctx, ast.Load)):
                    continue
                bounds = [b for b in (s.slice.lower, s.slice.upper) if b is not None]
                uses_parent = any((isinstance(x, ast.Name) and x.id in pidx) or norm(x) in ("self.start", "self.stop") for b in bounds for x in ast.walk(b))
                if not uses_parent:
                    continue
                base = norm(s.value)
                q = f"{cname}.{name}"
                k = key(m, q, f"{norm(s)}")
                n += 1
                realised = base in ("self.value", "self.str_value", "self.bytes_value", "self.array_value", "str(self)")
                parent = base == "self.seq"
                absn = _absolute_names(fn)
                uses_abs = any((isinstance(x, ast.Name) and x.id in absn) or norm(x) in ("self.parent_start", "self.parent_stop") for b in bounds for x in ast.walk(b))
                if parent and uses_abs and cname != "SeqDataView":
                    chk.violation("R01.4", k, m.loc(s), f"`{norm(s)}` indexes the view's own string with absolute parent coordinates (parent_start/parent_stop include the offset): for a view with a non-zero offset the wrong segment is read")
                elif realised:
                    chk.violation("R01.4", k, m.loc(s), f"`{norm(s)}` slices the already realised view with parent indices: a sliced view `GTACGT` at parent 2..8 serialises/copies as `{'{'}view[2:8]{'}'}` = `ACGT`")
                elif parent:
                    chk.ok("R01.4", k, m.loc(s), "parent string indexed with parent indices")
                else:
                    chk.unresolved("R01.4", k, m.loc(s), f"base `{base}` is of unknown coordinate space")
    chk.floor("R01.4", 4, "value/str_value and to_rich_dict of the three view classes")


COORD_SOURCES = ("self.annotation_offset", "self._seq.offset", "self._seq.parent_start", "self._seq.parent_stop", "self._seq.seqid")


def _realised_names(fn):
    """locals holding a realised string of the receiver (str(self), self._seq.value, a join, or something derived from those)"""
    from ..defuse import derived_names

    seeds = set()
    for st in walk_no_nested(fn):
        if isinstance(st, ast.Assign) and len(st.targets) == 1 and isinstance(st.targets[0], ast.Name):
            t = norm(st.value)
            if "str(self)" in t or "self._seq.value" in t or "bytes(self)" in t:
                seeds.add(st.targets[0].id)
    return derived_names(fn, seeds) if seeds else set()


def _coord_view_from_string(fn):
    """SeqView(...) / sequence-constructor calls that combine a realised string with the receiver's own coordinates"""
    real = _realised_names(fn)
    out = []
    for c in walk_no_nested(fn):
        if not isinstance(c, ast.Call):
            continue
        cn = call_name(c) or ""
        if cn.split(".")[-1] not in ("SeqView", "__class__", "make_seq") and cn != "self.__class__":
            continue
        seqarg = next((kw.value for kw in c.keywords if kw.arg == "seq"), c.args[0] if c.args else None)
        if seqarg is None:
            continue
        is_real = "str(self)" in norm(seqarg) or any(isinstance(x, ast.Name) and x.id in real for x in ast.walk(seqarg))
        if not is_real:
            continue
        coords = [kw for kw in c.keywords if kw.arg in ("offset", "annotation_offset") and any(s_ in norm(kw.value) for s_ in COORD_SOURCES)]
        if coords:
            out.append((c, coords[0]))
    return out


def _strand_guarded(fn, call):
    for i in walk_no_nested(fn):
        if isinstance(i, ast.If) and ("is_reversed" in norm(i.test) or "step" in norm(i.test) or "strand" in norm(i.test)):
            if any(call is x for st in i.body + i.orelse for x in ast.walk(st)):
                return True
    return False


def r01_6(chk):
    chk.rule("R01.6", "a view built over a realised string of the receiver starts a new, forward coordinate system: it may be given the receiver's own parent coordinates (offset / annotation_offset from self) only under a test of the strand/step, because for a reversed or strided receiver the realised string is not the parent segment those coordinates name")
    n = 0
    for rel, names in SEQ_CLASSES.items():
        m = chk.repo.module(rel)
        for cname in names:
            if cname not in m.classes:
                continue
            for name, fn in m.cls(cname).methods.items():
                if not isinstance(fn, ast.FunctionDef):
                    continue
                for c, kw in _coord_view_from_string(fn):
                    n += 1
                    q = f"{cname}.{name}"
                    chk.decide(_strand_guarded(fn, c), "R01.6", key(m, q, f"{norm(c.func)}(<realised string>, {kw.arg}={norm(kw.value)})"), m.loc(c), "coordinates attached under a strand/step test", f"`{norm(c)[:120]}` gives a forward view over the realised string the coordinates of the receiver ({norm(kw.value)}): after rc() or a negative/strided slice the reported parent segment is not the one displayed")
    probe = ast.parse("def to_moltype(self, moltype):\n    s = moltype.coerce_str(str(self))\n    sv = SeqView(seq=s, seqid=self._seq.seqid, offset=self.annotation_offset)\n    return sv\n").body[0]
    if not _coord_view_from_string(probe):
        raise AnalysisError("R01.6 self-probe failed")
    chk.ok("R01.6", key(OLD, "<sequence classes>", "constructor calls scanned"), f"src/cogent3/{OLD}:1", f"{n} coordinate-carrying constructions over realised strings", nontrivial=False)


def r01_7(chk):
    chk.rule("R01.7", "the value accessors of a view (str_value, bytes_value, array_value) realise the same slice: in SeqDataView they are equal after normalisation up to the storage getter they call (get_seq_str / get_seq_bytes / get_seq_array); in the SeqView classes the bytes and array accessors are derived from str_value -- a view must read the same through str(), bytes() and numpy.array() (stated limit as for the twins: a one-sided rewrite that survives the normaliser is reported)")
    import re as _re

    m = chk.repo.module(NEWALN)
    ci = m.cls("SeqDataView")
    texts = {}
    for acc in ("str_value", "bytes_value", "array_value"):
        g = ci.properties.get(acc, {}).get("get")
        if g is None:
            raise AnalysisError(f"SeqDataView.{acc} not found")
        t = twins.normal_text(g)
        texts[acc] = (_re.sub(r"get_seq_(str|bytes|array)", "get_seq_X", t), g)
    ref = texts["str_value"][0]
    for acc in ("bytes_value", "array_value"):
        t, g = texts[acc]
        if t == ref:
            chk.ok("R01.7", key(m, f"SeqDataView.{acc}", "same slice as str_value"), m.loc(g), "equal to str_value up to the storage getter")
        else:
            import difflib

            d = [l.strip() for l in difflib.unified_diff(ref.splitlines(), t.splitlines(), lineterm="", n=0) if not l.startswith(("---", "+++", "@@"))][:6]
            chk.violation("R01.7", key(m, f"SeqDataView.{acc}", "same slice as str_value"), m.loc(g), f"{acc} realises the view differently from str_value: {' ; '.join(d)} -- numpy.array(seq), to_rna()/to_dna(), get_translation() then read other residues than str(seq) on some views (e.g. reversed with |step| >= 2)")
    for rel, cname in ((OLD, "SeqView"), (NEW, "SeqView")):
        mm = chk.repo.module(rel)
        cc = mm.classes.get(cname)
        if cc is None:
            continue
        for acc in ("bytes_value", "array_value"):
            g = cc.properties.get(acc, {}).get("get")
            if g is None:
                continue
            derived = any(isinstance(x, ast.Attribute) and norm(x) in ("self.str_value", "self.value") for x in ast.walk(g))
            chk.decide(derived, "R01.7", key(mm, f"{cname}.{acc}", "derived from the string accessor"), mm.loc(g), "computed from self.str_value", f"{cname}.{acc} no longer derives from the string accessor: the accessors can disagree")
    chk.floor("R01.7", 3, "SeqDataView twins + SeqView derivations")


def r01_8(chk):
    chk.rule("R01.8", "copy() of a view is a new object: Sequence.copy hands the view's copy to the sequence constructor together with annotation_offset, and the constructor STORES that offset into the view it is given (_coerce_to_seqview); a view class whose copy() returns `self` therefore lets the read-only call seq.copy() re-base the original view -- it then displays, and reports, a segment shifted by its own start")
    n = 0
    for rel in ("core/sequence.py", "core/new_sequence.py", NEWALN):
        m = chk.repo.module(rel)
        for cname, ci in sorted(m.classes.items()):
            names = {c.name for c in ci.mro()}
            if not (names & {"SliceRecordABC", "SeqViewABC", "SeqView"}):
                continue
            fn = ci.methods.get("copy")
            if not isinstance(fn, ast.FunctionDef):
                continue
            rets = [r for r in walk_no_nested(fn) if isinstance(r, ast.Return)]
            if not rets:
                continue  # abstract declaration
            n += 1
            same = [r for r in rets if isinstance(r.value, ast.Name) and r.value.id == "self"]
            chk.decide(not same, "R01.8", key(m, f"{cname}.copy", "returns a new view"), m.loc(same[0] if same else fn), "every return builds a new object", f"{cname}.copy returns `self`: coll.get_seq('s')[2:8].copy() on a new-type collection writes annotation_offset into the shared view, after which both the copy and the ORIGINAL display TGCAAT / ('s', 4, 10, 1) instead of GTTGCA / ('s', 2, 8, 1), and a second copy() raises ValueError")
    chk.floor("R01.8", 2, "copy of the stand-alone and of the collection-backed view classes")


def r01_9(chk):
    chk.rule("R01.9", "building a sequence from an existing view does not move that view: the `_coerce_to_seqview` overloads (old and new type) never store an attribute on the object they were handed (`data.offset = ...`) -- the offset is set on a copy; otherwise Sequence(seq=s, annotation_offset=5) changes s.annotation_offset and s.parent_coordinates() as a side effect")
    n = 0
    for rel in ("core/sequence.py", "core/new_sequence.py"):
        m = chk.repo.module(rel)
        fns = [f for f in m.tree.body if isinstance(f, ast.FunctionDef) and (f.name == "_coerce_to_seqview" or (f.name == "_" and any("_coerce_to_seqview.register" in norm(d) for d in f.decorator_list)))]
        if not fns:
            raise AnalysisError(f"{rel}: _coerce_to_seqview not found")
        for fn in fns:
            ps = params_of(fn)
            if not ps:
                continue
            p0 = ps[0]
            ann = norm(fn.args.args[0].annotation) if fn.args.args[0].annotation is not None else "object"
            stores = [st for st in walk_no_nested(fn) if isinstance(st, (ast.Assign, ast.AugAssign)) and any(isinstance(t, ast.Attribute) and isinstance(t.value, ast.Name) and t.value.id == p0 for t in (st.targets if isinstance(st, ast.Assign) else [st.target]))]
            bad = None
            for st in stores:
                # fine when the parameter was re-bound to a copy before the store
                rebinds = [r for r in walk_no_nested(fn) if isinstance(r, ast.Assign) and any(isinstance(t, ast.Name) and t.id == p0 for t in r.targets) and r.lineno < st.lineno and isinstance(r.value, ast.Call) and (norm(r.value.func).endswith(".copy") or norm(r.value.func) in ("copy.copy", "copy.deepcopy", "deepcopy") or norm(r.value.func).endswith("__class__"))]
                if not rebinds:
                    bad = st
            n += 1
            chk.decide(bad is None, "R01.9", key(m, f"_coerce_to_seqview[{ann}]", "the given object is not modified"), m.loc(bad if bad is not None else fn), "no attribute store on the argument (or on a copy only)", f"`{norm(bad) if bad is not None else ''}` writes into the view the caller passed in: t = Sequence(seq=s, annotation_offset=5) moves s itself to ('s', 5, 15, 1)")
    chk.floor("R01.9", 6, "overloads of _coerce_to_seqview in both modules")


def run(chk):
    r01_9(chk)
    r01_8(chk)
    r01_7(chk)
    r01_6(chk)
    r01_1_2(chk)
    r01_3(chk)
    r01_5(chk)
    r01_4(chk)
    chk.assume("a reversed view stores the reverse of the parent slice but not its complement (both implementations)")
    chk.assume("R01.3 residual risk: a semantics-preserving rewrite of only one twin that survives the normaliser is reported as divergence")
