"""C04 -- annotations keep denoting the same residues through every view.

The coordinate translation is integer arithmetic on view state: not decided.
Decided:
R04.1 the translation methods that exist in both sequence implementations agree
R04.2 the query window and flags reach the annotation db unchanged (with R17.1 this
      decides "exactly the features that overlap / lie inside the window", given a
      correct absolute window)
R04.4 an offset is supplied once: no sequence-constructor call passes a view that
      carries its own coordinates together with a non-zero annotation_offset
R04.5 a sequence derived from a realised string carries the receiver's own
      annotation offset in its annotation_offset

Added in build round 2 (see DESIGN.md section 3, round-2 table):
R04.6 make_feature relates each span of a feature to the half-open range [0, len(self)) of the view: on EVERY weak ordering of (span start, span end, 0, ...

Added later in build rounds 2-3 (see DESIGN.md section 3, round-2/3 table):
R04.10 coordinates are stored where they can be stored: in the Sequence classes every `self.<name> = ...` whose <name> resolves (MRO) to a property has a ...
R04.7 a derived sequence keeps every annotation that overlaps its view: wherever a sequence / alignment method narrows the annotation db to a coordinate ...
R04.8 annotations travel with coordinates: when a method hands the receiver's annotation db to a sequence it has just built (`new.annotation_db = ...
R04.9 a copy keeps its annotations whatever the strand of the receiver: in the deepcopy methods of the collection / aligned classes the annotation db of ...
R04.11 building a collection merges annotation dbs into a copy: merged_db_collection never calls .update() on an input sequence's db.
"""

from __future__ import annotations

import ast

from ..index import AnalysisError, call_name, norm, params_of, walk_no_nested
from ..report import key
from .. import twins

OLD = "core/sequence.py"
NEW = "core/new_sequence.py"
NEWALN = "core/new_alignment.py"

TRANSLATION_TWINS = ["get_features", "make_feature", "_relative_spans", "parent_coordinates", "add_feature", "annotation_offset", "copy_annotations", "annotation_db", "replace_annotation_db", "is_annotated"]


def r04_1(chk):
    chk.rule("R04.1", "the feature/coordinate translation methods present in both Sequence implementations are equal after normalisation (same reasoning and stated limit as R01.3)")
    o, n = chk.repo.module(OLD), chk.repo.module(NEW)
    oc, nc = o.cls("Sequence"), n.cls("Sequence")
    for name in TRANSLATION_TWINS:
        pairs = []
        if name in oc.methods and name in nc.methods and name not in oc.properties:
            pairs.append(("", oc.methods[name], nc.methods[name]))
        else:
            po, pn = oc.properties.get(name) or {}, nc.properties.get(name) or {}
            for kind in sorted(set(po) & set(pn)):
                if po[kind] is not None and pn[kind] is not None:
                    pairs.append((f"[{kind}]", po[kind], pn[kind]))
        if not pairs:
            raise AnalysisError(f"twin Sequence.{name} missing on one side")
        for kind, fa, fb in pairs:
            chk.decide(twins.same(fa, fb), "R04.1", key(o, f"Sequence.{name}{kind}", "twin of new"), f"{o.loc(fa)} / {n.loc(fb)}", "identical after normalisation", "old and new implementations diverge: " + " ; ".join(twins.diff(fa, fb)))
    # the coordinate conversions of the view class (shared with R01.3): annotations are translated through them
    ov, nv = o.cls("SliceRecordABC"), n.cls("SliceRecordABC")
    for name in ("relative_position", "absolute_position", "parent_start", "parent_stop"):
        fa = ov.methods.get(name) or (ov.properties.get(name) or {}).get("get")
        fb = nv.methods.get(name) or (nv.properties.get(name) or {}).get("get")
        if fa is None or fb is None:
            raise AnalysisError(f"twin SliceRecordABC.{name} missing on one side")
        chk.decide(twins.same(fa, fb), "R04.1", key(o, f"SliceRecordABC.{name}", "twin of new"), f"{o.loc(fa)} / {n.loc(fb)}", "identical after normalisation", "old and new implementations diverge: " + " ; ".join(twins.diff(fa, fb)))
    chk.floor("R04.1", 13, "translation twins")


def r04_2(chk):
    chk.rule("R04.2", "Sequence.get_features passes allow_partial, biotype, name unchanged to annotation_db.get_features_matching, and start/stop from absolute_position of the window ends, swapped exactly when the strand is -1")
    for rel in (OLD, NEW):
        m = chk.repo.module(rel)
        fn = m.func("Sequence.get_features")
        calls = [c for c in walk_no_nested(fn) if isinstance(c, ast.Call) and isinstance(c.func, ast.Attribute) and c.func.attr == "get_features_matching"]
        if not calls:
            raise AnalysisError(f"{rel}: Sequence.get_features no longer calls get_features_matching")
        c = calls[0]
        kws = {kw.arg: kw.value for kw in c.keywords if kw.arg}
        spread = [kw.value for kw in c.keywords if kw.arg is None]
        # keywords may be gathered in a dict first (`query = dict(...)`; `**kwargs`)
        srcs = dict(kws)
        for sp in spread:
            if isinstance(sp, ast.Name):
                for st in walk_no_nested(fn):
                    if isinstance(st, ast.Assign) and norm(st.targets[0]) == sp.id:
                        if isinstance(st.value, ast.Dict):
                            for k_, v_ in zip(st.value.keys, st.value.values):
                                if isinstance(k_, ast.Constant):
                                    srcs.setdefault(k_.value, v_)
                        elif isinstance(st.value, ast.Call) and call_name(st.value) == "dict":
                            for kw in st.value.keywords:
                                if kw.arg:
                                    srcs.setdefault(kw.arg, kw.value)
                    if isinstance(st, ast.Assign) and isinstance(st.targets[0], ast.Subscript) and norm(st.targets[0].value) == sp.id and isinstance(st.targets[0].slice, ast.Constant):
                        srcs[st.targets[0].slice.value] = st.value
        for opt in ("allow_partial", "biotype", "name"):
            v = srcs.get(opt)
            chk.decide(v is not None and norm(v) == opt, "R04.2", key(m, "Sequence.get_features", f"forwards {opt}"), m.loc(c), f"{opt}={opt}", f"{opt} reaches the database as {norm(v) if v is not None else 'nothing'}: the query no longer asks what the caller asked")
        # window: absolute_position of start (exclusive boundary) and stop (inclusive boundary)
        abs_calls = [st for st in walk_no_nested(fn) if isinstance(st, ast.Assign) and isinstance(st.value, ast.Call) and norm(st.value.func) == "self._seq.absolute_position"]
        got = {}
        for st in abs_calls:
            a0 = norm(st.value.args[0]) if st.value.args else None
            ib = [kw.value.value for kw in st.value.keywords if kw.arg == "include_boundary" and isinstance(kw.value, ast.Constant)]
            got[norm(st.targets[0])] = (a0, ib[0] if ib else None)
        ok_abs = sorted(got.values(), key=str) == sorted([("start", False), ("stop", True)], key=str)
        chk.decide(ok_abs, "R04.2", key(m, "Sequence.get_features", "window to absolute coordinates"), m.loc(fn), f"{got}", f"window ends are converted as {got}; expected absolute_position(start, include_boundary=False) and absolute_position(stop, include_boundary=True)")
        # swap under reversed strand
        swaps = [i for i in walk_no_nested(fn) if isinstance(i, ast.If) and any(isinstance(s, ast.Assign) and isinstance(s.targets[0], ast.Tuple) and isinstance(s.value, ast.Tuple) and [norm(e) for e in s.targets[0].elts] == [norm(e) for e in s.value.elts][::-1] for s in i.body)]
        ok_swap = bool(swaps) and ("rev" in norm(swaps[0].test) or "strand" in norm(swaps[0].test) or "is_reversed" in norm(swaps[0].test)) and not norm(swaps[0].test).startswith("not ")
        chk.decide(ok_swap, "R04.2", key(m, "Sequence.get_features", "window ends swapped when reversed"), m.loc(swaps[0]) if swaps else m.loc(fn), f"`if {norm(swaps[0].test)}`: swap" if swaps else "", "the query window is not swapped (exactly) when the view is on the reverse strand: start > stop reaches the database and nothing matches")
        v1, v2 = srcs.get("start"), srcs.get("stop")
        names = set(got)
        chk.decide(v1 is not None and v2 is not None and {norm(v1), norm(v2)} == names and len(names) == 2, "R04.2", key(m, "Sequence.get_features", "window reaches the db"), m.loc(c), f"start={norm(v1) if v1 is not None else None}, stop={norm(v2) if v2 is not None else None}", "the converted window ends are not what is passed as start/stop")
    chk.floor("R04.2", 12, "2 implementations x 6 obligations")


# ---------------------------------------------------------------------------


def _view_copy_carries(ci):
    """does <view>.copy(sliced=True) return a view that still carries coordinates (offset)?"""
    fn = ci.methods.get("copy")
    if fn is None:
        return None
    rets = [r for r in walk_no_nested(fn) if isinstance(r, ast.Return) and r.value is not None]
    # the return reached when sliced is True: the one not under `if not sliced`
    for r in rets:
        under_not_sliced = False
        for i in walk_no_nested(fn):
            if isinstance(i, ast.If) and norm(i.test) == "not sliced" and any(r is x for s in i.body for x in ast.walk(s)):
                under_not_sliced = True
        if under_not_sliced:
            continue
        v = r.value
        if isinstance(v, ast.Name) and v.id == "self":
            return True  # returns the very same view
        if isinstance(v, ast.Call):
            if any(kw.arg == "offset" for kw in v.keywords):
                return True
            if "from_rich_dict" in norm(v.func):
                return False  # rebuilt from the truncated string without an offset
            return False
    return None


def r04_4(chk):
    chk.rule("R04.4", "the view coercion refuses (or double counts) a view that carries its own coordinates when a non-zero offset is passed as well; so no sequence-constructor call passes such a view (a slice of self._seq, or a copy that keeps the offset) together with an annotation_offset that is not the literal 0")
    views = {}
    for rel, cname in ((OLD, "SeqView"), (NEW, "SeqView"), (NEWALN, "SeqDataView")):
        ci = chk.repo.module(rel).cls(cname)
        views[(rel, cname)] = _view_copy_carries(ci)
    chk.extra["view_copy_sliced_carries_offset"] = {f"{r}::{c}": v for (r, c), v in views.items()}
    for rel, vclasses in ((OLD, [(OLD, "SeqView")]), (NEW, [(NEW, "SeqView"), (NEWALN, "SeqDataView")])):
        m = chk.repo.module(rel)
        ci = m.cls("Sequence")
        for name, fn in ci.methods.items():
            for c in walk_no_nested(fn):
                if not (isinstance(c, ast.Call) and norm(c.func) == "self.__class__"):
                    continue
                off = [kw.value for kw in c.keywords if kw.arg == "annotation_offset"]
                if not off:
                    continue
                if isinstance(off[0], ast.Constant) and off[0].value in (0, None):
                    continue
                # the sequence argument: keyword seq= or first positional
                seqarg = next((kw.value for kw in c.keywords if kw.arg == "seq"), c.args[0] if c.args else None)
                if seqarg is None:
                    continue
                # resolve a local name to its definitions
                defs = [seqarg]
                if isinstance(seqarg, ast.Name):
                    defs = [st.value for st in walk_no_nested(fn) if isinstance(st, ast.Assign) and norm(st.targets[0]) == seqarg.id]
                # possibly non-zero offset values (a name bound only to literal 0 in the branch is fine)
                offdefs = [off[0]]
                if isinstance(off[0], ast.Name):
                    offdefs = [st.value for st in walk_no_nested(fn) if isinstance(st, ast.Assign) and norm(st.targets[0]) == off[0].id]
                q = f"Sequence.{name}"
                for d in defs:
                    txt = norm(d)
                    is_slice = isinstance(d, ast.Subscript) and norm(d.value) == "self._seq"
                    is_copy = isinstance(d, ast.Call) and norm(d.func) == "self._seq.copy"
                    if not (is_slice or is_copy):
                        continue
                    for vrel, vname in vclasses:
                        k = key(m, q, f"{txt} + annotation_offset ({vname})")
                        # which offset definitions are live together with this view definition?
                        paired = _paired_offsets(fn, d, off[0], offdefs)
                        nonzero = [o for o in paired if not (isinstance(o, ast.Constant) and o.value == 0)]
                        if is_slice:
                            carries = True
                        else:
                            carries = views[(vrel, vname)]
                        if carries is None:
                            chk.unresolved("R04.4", k, m.loc(c), f"cannot tell whether {vname}.copy(sliced=True) keeps its offset")
                        elif carries and nonzero:
                            chk.violation("R04.4", k, m.loc(c), f"`{txt}` ({vname}) keeps its own coordinates and `annotation_offset={norm(off[0])}` (= {', '.join(norm(o) for o in nonzero)}) is passed as well: the coercion raises ValueError when the view already has an offset, and otherwise the start is counted twice (wrong parent coordinates, annotations lost)")
                        else:
                            chk.ok("R04.4", k, m.loc(c), f"`{txt}` ({vname}): " + ("offset only 0 on this path" if not nonzero else "the copy starts a new coordinate system, offset supplied once"))
    chk.floor("R04.4", 3, "copy sites in both implementations + _mapped")


def _paired_offsets(fn, view_def, off_expr, offdefs):
    """offset definitions that can be live together with view_def: when the offset name and the
    view are assigned in the same branch of an if, pair them; `x if sliced else 0` keeps x"""
    out = []
    # same-branch pairing
    for i in walk_no_nested(fn):
        if isinstance(i, ast.If):
            for branch in (i.body, i.orelse):
                here = [st for st in branch if isinstance(st, ast.Assign)]
                if any(st.value is view_def for st in here):
                    same = [st.value for st in here if isinstance(off_expr, ast.Name) and norm(st.targets[0]) == off_expr.id]
                    if same:
                        return same
    for o in offdefs:
        if isinstance(o, ast.IfExp):
            out.extend([o.body, o.orelse])
        else:
            out.append(o)
    return out


def r04_5(chk):
    chk.rule("R04.5", "when a method builds a derived sequence from a realised string (not a view) and gives it a non-zero annotation_offset, the offset expression includes the receiver's own offset (self.annotation_offset / parent_start); a purely relative offset drops the receiver's position on its parent")
    for rel in (OLD, NEW):
        m = chk.repo.module(rel)
        ci = m.cls("Sequence")
        for name, fn in ci.methods.items():
            for c in walk_no_nested(fn):
                if not (isinstance(c, ast.Call) and norm(c.func) == "self.__class__"):
                    continue
                off = [kw.value for kw in c.keywords if kw.arg == "annotation_offset"]
                if not off or (isinstance(off[0], ast.Constant)):
                    continue
                seqarg = next((kw.value for kw in c.keywords if kw.arg == "seq"), c.args[0] if c.args else None)
                defs = [seqarg]
                if isinstance(seqarg, ast.Name):
                    defs = [st.value for st in walk_no_nested(fn) if isinstance(st, ast.Assign) and norm(st.targets[0]) == seqarg.id]
                string_defs = [d for d in defs if isinstance(d, ast.Call) and isinstance(d.func, ast.Attribute) and d.func.attr == "join"]
                if not string_defs:
                    continue
                offdefs = [off[0]]
                if isinstance(off[0], ast.Name):
                    offdefs = [st.value for st in walk_no_nested(fn) if isinstance(st, ast.Assign) and norm(st.targets[0]) == off[0].id]
                for d in string_defs:
                    paired = _paired_offsets(fn, d, off[0], offdefs)
                    for o in paired:
                        parts = [o.body, o.orelse] if isinstance(o, ast.IfExp) else [o]
                        for part in parts:
                            if isinstance(part, ast.Constant) and part.value == 0:
                                continue
                            k = key(m, f"Sequence.{name}", f"annotation_offset={norm(part)} for a realised string")
                            txt = norm(part)
                            ok = "self.annotation_offset" in txt or "parent_start" in txt or "absolute_position" in txt
                            chk.decide(ok, "R04.5", k, m.loc(c), f"offset {txt} includes the receiver's offset", f"derived sequence gets annotation_offset={txt}, relative to the receiver only: on a sequence that itself has an annotation offset (or is a slice) the result's parent coordinates are wrong and its features are lost")
    # expected count on a clean tree is zero: keep the matcher honest with an embedded positive example
    probe = ast.parse("class Sequence:\n    def _mapped(self, map):\n        segments = self.it(map)\n        return self.__class__(''.join(segments), self.name, annotation_offset=map.start)\n").body[0].body[0]
    hits = [c for c in walk_no_nested(probe) if isinstance(c, ast.Call) and norm(c.func) == "self.__class__" and any(kw.arg == "annotation_offset" and not isinstance(kw.value, ast.Constant) for kw in c.keywords) and isinstance(c.args[0], ast.Call) and c.args[0].func.attr == "join"]
    if not hits:
        raise AnalysisError("R04.5 self-probe failed")
    chk.ok("R04.5", key(OLD, "Sequence", "constructor calls scanned"), f"src/cogent3/{OLD}:1", "no derived sequence built from a string with a relative annotation_offset", nontrivial=False)


class _Unhandled(Exception):
    pass


def _clip_semantics(loop, var):
    """evaluate the body of `for <var> in <spans>` of make_feature on every weak ordering of
    a = span start, b = span end, Z = 0, L = len(self)  (a <= b, Z < L).  All values the body can
    produce are among these four symbols, so a value is represented by its rank.  Returns a list of
    (ordering text, outcome, expected) for the orderings where they differ."""
    from ..tables import weak_orderings

    def term(e, env, ranks):
        t = norm(e)
        if t in (f"{var}.min()", f"{var}[0]", f"min({var})"):
            return env[var][0] if t.endswith("[0]") else min(env[var])
        if t in (f"{var}.max()", f"{var}[1]", f"max({var})"):
            return env[var][1] if t.endswith("[1]") else max(env[var])
        if t == "0":
            return ranks["Z"]
        if t in ("len(self)", "self.__len__()", "length", "seq_len"):
            return ranks["L"]
        for nm, val in env.items():
            if nm != var and t in (f"{nm}.min()", f"min({nm})"):
                return min(val)
            if nm != var and t in (f"{nm}.max()", f"max({nm})"):
                return max(val)
            if t == f"{nm}[0]":
                return val[0]
            if t == f"{nm}[1]":
                return val[1]
        raise _Unhandled(f"term {t}")

    def test(e, env, ranks):
        if isinstance(e, ast.BoolOp):
            vals = [test(v, env, ranks) for v in e.values]
            return all(vals) if isinstance(e.op, ast.And) else any(vals)
        if isinstance(e, ast.UnaryOp) and isinstance(e.op, ast.Not):
            return not test(e.operand, env, ranks)
        if isinstance(e, ast.Compare):
            left = term(e.left, env, ranks)
            for op, right in zip(e.ops, e.comparators):
                r = term(right, env, ranks)
                okc = {ast.Lt: left < r, ast.LtE: left <= r, ast.Gt: left > r, ast.GtE: left >= r, ast.Eq: left == r, ast.NotEq: left != r}.get(type(op))
                if okc is None:
                    raise _Unhandled(f"operator in {norm(e)}")
                if not okc:
                    return False
                left = r
            return True
        raise _Unhandled(f"test {norm(e)}")

    def value(e, env, ranks):
        """a pair-valued expression"""
        if isinstance(e, ast.Call) and isinstance(e.func, ast.Attribute) and e.func.attr in ("tolist", "copy") and not e.args:
            return value(e.func.value, env, ranks)
        if isinstance(e, ast.Call) and call_name(e) in ("list", "tuple") and len(e.args) == 1:
            return value(e.args[0], env, ranks)
        if isinstance(e, ast.Subscript) and isinstance(e.slice, ast.Slice) and e.slice.lower is None and e.slice.upper is None:
            return value(e.value, env, ranks)
        if isinstance(e, ast.Name) and e.id in env:
            return list(env[e.id])
        if isinstance(e, ast.Call) and isinstance(e.func, ast.Attribute) and e.func.attr == "clip" and len(e.args) == 2 and not e.keywords:
            base = value(e.func.value, env, ranks)
            lo, hi = term(e.args[0], env, ranks), term(e.args[1], env, ranks)
            return [max(lo, min(x, hi)) for x in base]
        raise _Unhandled(f"value {norm(e)}")

    def run_block(stmts, env, ranks, out):
        """returns 'continue' when the iteration ends early"""
        for st in stmts:
            if isinstance(st, ast.Continue):
                return "continue"
            if isinstance(st, ast.If):
                blk = st.body if test(st.test, env, ranks) else st.orelse
                if run_block(blk, env, ranks, out) == "continue":
                    return "continue"
                continue
            if isinstance(st, ast.Assign) and len(st.targets) == 1:
                t = st.targets[0]
                if isinstance(t, ast.Name):
                    env[t.id] = value(st.value, env, ranks)
                    continue
                # masked store  new[new < 0] = 0
                if isinstance(t, ast.Subscript) and isinstance(t.value, ast.Name) and t.value.id in env and isinstance(t.slice, ast.Compare) and norm(t.slice.left) == t.value.id and len(t.slice.ops) == 1:
                    bound = term(t.slice.comparators[0], env, ranks)
                    newv = term(st.value, env, ranks)
                    op = type(t.slice.ops[0])
                    cmp = {ast.Lt: lambda x: x < bound, ast.LtE: lambda x: x <= bound, ast.Gt: lambda x: x > bound, ast.GtE: lambda x: x >= bound}.get(op)
                    if cmp is None:
                        raise _Unhandled(norm(st))
                    # `new = coord[:]` is a numpy view: the store is seen through every alias
                    env[t.value.id] = [newv if cmp(x) else x for x in env[t.value.id]]
                    continue
            if isinstance(st, ast.Expr) and isinstance(st.value, ast.Call) and isinstance(st.value.func, ast.Attribute) and st.value.func.attr == "append" and len(st.value.args) == 1:
                out.append(tuple(value(st.value.args[0], env, ranks)))
                continue
            if isinstance(st, ast.Expr) and isinstance(st.value, ast.Constant):
                continue
            raise _Unhandled(f"statement {norm(st)[:60]}")
        return None

    bad, n = [], 0
    for ranks in weak_orderings(["a", "b", "Z", "L"]):
        if not (ranks["a"] <= ranks["b"] and ranks["Z"] < ranks["L"]):
            continue
        n += 1
        env = {var: [ranks["a"], ranks["b"]]}
        out = []
        run_block(loop.body, env, ranks, out)
        a, b, Z, L = ranks["a"], ranks["b"], ranks["Z"], ranks["L"]
        outside = b <= Z or a >= L
        want = None if outside else (max(a, Z), min(b, L))
        inv = {}
        for k2, v in ranks.items():
            inv.setdefault(v, []).append({"a": "start", "b": "end", "Z": "0", "L": "len"}[k2])
        text = " < ".join("=".join(inv[r]) for r in sorted(inv))
        sym = lambda pr: "(" + ", ".join("=".join(inv[x]) for x in pr) + ")"  # noqa: E731
        if outside:
            if out:
                bad.append((text, f"span kept as {sym(out[0])}", "dropped (it only touches or lies outside the sequence)"))
        elif a == b:
            pass  # an empty span inside the range: dropping or keeping it denotes the same residues
        elif len(out) != 1 or tuple(out[0]) != want:
            bad.append((text, f"span kept as {sym(out[0])}" if out else "span dropped", f"kept as {sym(want)}"))
    return bad, n


def r04_6(chk):
    chk.rule("R04.6", "make_feature relates each span of a feature to the half-open range [0, len(self)) of the view: on EVERY weak ordering of (span start, span end, 0, len) a span that lies outside or only touches the range is dropped, any other span is clipped to (max(start, 0), min(end, len)) -- decided by evaluating the loop body symbolically on all orderings")
    for rel in (OLD, NEW):
        m = chk.repo.module(rel)
        fn = m.func("Sequence.make_feature")
        loops = [f for f in walk_no_nested(fn) if isinstance(f, ast.For) and isinstance(f.target, ast.Name) and any(isinstance(c, ast.Call) and isinstance(c.func, ast.Attribute) and c.func.attr == "append" for c in ast.walk(f))]
        if not loops:
            raise AnalysisError(f"{rel}::Sequence.make_feature: span loop not found")
        lp = loops[0]
        k = key(m, "Sequence.make_feature", "span vs [0, len) on all orderings")
        try:
            bad, n = _clip_semantics(lp, lp.target.id)
        except _Unhandled as e:
            chk.unresolved("R04.6", k, m.loc(lp), f"loop body uses a construct the evaluator does not model: {e}")
            continue
        if bad:
            w = "; ".join(f"[{t}] {got}, expected {exp}" for t, got, exp in bad[:4])
            chk.violation("R04.6", k, m.loc(lp), f"{len(bad)} of {n} orderings are classified wrongly: {w}" + (" ..." if len(bad) > 4 else "") + " -- a feature with such a span raises ValueError or gets a map of the wrong length on that view")
        else:
            chk.ok("R04.6", k, m.loc(lp), f"all {n} orderings of (start, end, 0, len) classified and clipped correctly")
    chk.floor("R04.6", 2, "both Sequence implementations")


def _window_subsets(fn):
    """calls <annotation db>.subset(...) restricted to a coordinate window that do not ask for partial matches"""
    out = []
    for c in ast.walk(fn):
        if isinstance(c, ast.Call) and isinstance(c.func, ast.Attribute) and c.func.attr == "subset" and "annotation_db" in norm(c.func.value):
            kws = {kw.arg: kw.value for kw in c.keywords}
            if ("start" in kws or "stop" in kws) and not (isinstance(kws.get("allow_partial"), ast.Constant) and kws["allow_partial"].value is True):
                out.append(c)
    return out


def r04_7(chk):
    chk.rule("R04.7", "a derived sequence keeps every annotation that overlaps its view: wherever a sequence / alignment method narrows the annotation db to a coordinate window (annotation_db.subset(start=, stop=)) it asks for partial matches (allow_partial=True) -- the default keeps only records wholly inside the window, so features straddling the view's edge silently disappear from the copy")
    n = 0
    for rel in (OLD, NEW, "core/alignment.py", NEWALN):
        m = chk.repo.module(rel)
        for cname, ci in m.classes.items():
            for name, fn in ci.methods.items():
                if not isinstance(fn, ast.FunctionDef):
                    continue
                n += 1
                for c in _window_subsets(fn):
                    chk.violation("R04.7", key(m, f"{cname}.{name}", f"windowed subset {norm(c)[:50]}"), m.loc(c), f"`{norm(c)[:90]}` keeps only the records that lie entirely inside the window: a feature that the view cuts through is dropped from the derived object, where get_features(allow_partial=True) on the original returns it")
    probe = ast.parse("def copy(self):\n    db = self.annotation_db.subset(seqid=s, start=a, stop=b)\n").body[0]
    if not _window_subsets(probe):
        raise AnalysisError("R04.7 self-probe failed")
    chk.ok("R04.7", key(chk.repo.module(NEW), "*", "no windowed subset without partial matches"), NEW, f"{n} methods scanned", nontrivial=False)
    chk.floor("R04.7", 0, "expected-zero rule with embedded probe")


def r04_8(chk):
    chk.rule("R04.8", "annotations travel with coordinates: when a method hands the receiver's annotation db to a sequence it has just built (`new.annotation_db = self.annotation_db`), that sequence was built from the receiver's view (`self._seq[...]`, a copy of it) or was given an annotation_offset taken from the receiver -- a sequence built from a realised string starts at offset 0 on the plus strand, so on a sliced or reverse-complemented receiver the same database records now denote other residues")
    n = 0
    for rel, classes in ((OLD, ("SequenceI", "Sequence", "NucleicAcidSequence")), (NEW, ("Sequence", "NucleicAcidSequenceMixin"))):
        m = chk.repo.module(rel)
        for cname in classes:
            ci = m.classes.get(cname)
            if ci is None:
                continue
            for name, fn in ci.methods.items():
                if not isinstance(fn, ast.FunctionDef):
                    continue
                handed = []
                for st in walk_no_nested(fn):
                    if isinstance(st, ast.Assign) and len(st.targets) == 1 and isinstance(st.targets[0], ast.Attribute) and st.targets[0].attr in ("annotation_db", "_annotation_db") and isinstance(st.targets[0].value, ast.Name) and st.targets[0].value.id != "self" and norm(st.value) in ("self.annotation_db", "self._annotation_db"):
                        handed.append((st.targets[0].value.id, st))
                    if isinstance(st, ast.Call) and isinstance(st.func, ast.Attribute) and st.func.attr == "replace_annotation_db" and isinstance(st.func.value, ast.Name) and st.func.value.id != "self" and st.args and norm(st.args[0]) in ("self.annotation_db", "self._annotation_db"):
                        handed.append((st.func.value.id, st))
                for var, st in handed:
                    n += 1
                    defs = [d for d in walk_no_nested(fn) if isinstance(d, ast.Assign) and any(isinstance(t, ast.Name) and t.id == var for t in d.targets) and isinstance(d.value, ast.Call)]
                    k = key(m, f"{cname}.{name}", f"{var} built with the receiver's coordinates")
                    if not defs:
                        chk.unresolved("R04.8", k, m.loc(st), f"cannot see how `{var}` is built")
                        continue
                    d = defs[-1]
                    c = d.value
                    # arguments that are (or derive from) the receiver's view
                    from ..defuse import derived_names

                    viewn = derived_names(fn, set(), seed_exprs={"self._seq"})
                    uses_view = any("self._seq" == norm(x) for a in list(c.args) + [kw.value for kw in c.keywords] for x in ast.walk(a)) or any(isinstance(x, ast.Name) and x.id in viewn for a in list(c.args) + [kw.value for kw in c.keywords] for x in ast.walk(a))
                    # a view constructed explicitly from a realised string does not count
                    fresh_view = any(isinstance(x, ast.Call) and call_name(x) in ("SeqView", "new_sequence.SeqView") and not any(kw.arg in ("offset", "seqid") for kw in x.keywords) for dd in defs for x in ast.walk(dd.value)) or any(isinstance(x, ast.Call) and call_name(x) == "SeqView" for tg, v, _ in __import__("c3static.defuse", fromlist=["assignments"]).assignments(fn) for x in ast.walk(v) if any(isinstance(a, ast.Name) and a.id in {t.id for t in tg if isinstance(t, ast.Name)} for a in ast.walk(c)))
                    off = [kw.value for kw in c.keywords if kw.arg == "annotation_offset"]
                    has_off = bool(off) and "self" in {x.id for x in ast.walk(off[0]) if isinstance(x, ast.Name)}
                    good = (uses_view and not fresh_view) or has_off
                    chk.decide(good, "R04.8", k, m.loc(st), "built from self._seq / given the receiver's offset", f"`{norm(d)[:80]}` builds `{var}` from a realised string (offset 0, plus strand) and `{norm(st)[:60]}` then attaches the receiver's annotation db: on a sliced or reverse-complemented receiver `{name}()` returns a sequence whose features denote other residues (s[5:25].{name if name in ('degap',) else 'degap'}() shows 'AGGCC' for the feature that is 'AGCTT' on s[5:25])")
    chk.floor("R04.8", 8, "hand-over sites in the two Sequence implementations")


def _live_strand_tests(fn):
    """tests that can be true for a reversed receiver: a name bound from parent_coordinates()'s strand (an int, -1 / 1)
    compared with an int, or an is_reversed / step < 0 test.  A comparison of that int with a string is dead."""
    from ..defuse import assignments

    strand_names = set()
    for tg, v, _ in assignments(fn):
        if any(isinstance(c, ast.Call) and isinstance(c.func, ast.Attribute) and c.func.attr == "parent_coordinates" for c in ast.walk(v)):
            for t in tg:
                for el in (t.elts if isinstance(t, (ast.Tuple, ast.List)) else [t]):
                    el = el.value if isinstance(el, ast.Starred) else el
                    if isinstance(el, ast.Name) and el.id not in ("_",):
                        strand_names.add(el.id)
    live = []
    for c in ast.walk(fn):
        if isinstance(c, ast.Compare) and isinstance(c.left, ast.Name) and c.left.id in strand_names:
            r = c.comparators[0]
            is_int = (isinstance(r, ast.Constant) and isinstance(r.value, int) and not isinstance(r.value, bool)) or (isinstance(r, ast.UnaryOp) and isinstance(r.operand, ast.Constant) and isinstance(r.operand.value, int))
            if is_int:
                live.append(c)
        if isinstance(c, ast.Attribute) and c.attr == "is_reversed":
            live.append(c)
    return live


def r04_9(chk):
    chk.rule("R04.9", "a copy keeps its annotations whatever the strand of the receiver: in the deepcopy methods of the collection / aligned classes the annotation db of the copy is None only at the caller's request (exclude_annotations) -- no test that is true for a reverse-complemented receiver (strand == -1, is_reversed) guards a `... = None` of the db; the comparisons of the int strand with '-' that are in the code today are dead")
    m = chk.repo.module("core/alignment.py")
    n = 0
    for q in ("_SequenceCollectionBase.deepcopy", "Aligned.deepcopy"):
        fn = m.func(q)
        n += 1
        live = _live_strand_tests(fn)
        # names carrying a live strand test
        from ..defuse import assignments

        flags = {t.id for tg, v, _ in assignments(fn) if any(x in live for x in ast.walk(v)) for t in tg if isinstance(t, ast.Name)}
        bad = []
        for st in walk_no_nested(fn):
            # db = None if <guard> else ...
            if isinstance(st, ast.Assign) and isinstance(st.value, ast.IfExp) and isinstance(st.value.body, ast.Constant) and st.value.body.value is None and ("db" in norm(st.targets[0]) or "annotation" in norm(st.targets[0])):
                t = st.value.test
                if any(x in live for x in ast.walk(t)) or any(isinstance(x, ast.Name) and x.id in flags for x in ast.walk(t)):
                    bad.append(st)
            # if <guard>: x.annotation_db = None
            if isinstance(st, ast.If) and any(isinstance(b, ast.Assign) and isinstance(b.value, ast.Constant) and b.value.value is None and "annotation_db" in norm(b.targets[0]) for b in st.body):
                if any(x in live for x in ast.walk(st.test)) or any(isinstance(x, ast.Name) and x.id in flags for x in ast.walk(st.test)):
                    bad.append(st)
        chk.decide(not bad, "R04.9", key(m, q, "annotations kept whatever the strand"), m.loc(bad[0] if bad else fn), "the db is dropped only on request", f"`{norm(bad[0])[:90] if bad else ''}` drops the annotation db when the receiver is reverse complemented: rc() followed by deepcopy(sliced=True) returns an object with no features, while the object it was copied from still answers")
    probe = ast.parse("def deepcopy(self, sliced=True):\n    *_, strand = self.seqs[0].parent_coordinates()\n    reversed = strand == -1\n    db = None if reversed and sliced else deepcopy(self.annotation_db)\n").body[0]
    if not _live_strand_tests(probe):
        raise AnalysisError("R04.9 self-probe failed")
    chk.floor("R04.9", 2, "two deepcopy implementations")


def r04_10(chk):
    chk.rule("R04.10", "coordinates are stored where they can be stored: in the Sequence classes every `self.<name> = ...` whose <name> resolves (MRO) to a property has a setter -- assigning to a getter-only property (annotation_offset, derived from the view) raises AttributeError exactly when the option carrying the offset is used")
    n = 0
    for rel, names in ((OLD, ("Sequence", "NucleicAcidSequence", "DnaSequence", "RnaSequence", "ProteinSequence")), (NEW, ("Sequence", "DnaSequence", "RnaSequence", "ProteinSequence"))):
        m = chk.repo.module(rel)
        for cname in names:
            ci = m.classes.get(cname)
            if ci is None:
                continue
            seen = set()
            for base in ci.mro():
                if getattr(base, "module", None) is not m:
                    continue
                for mname, fn in base.methods.items():
                    if not isinstance(fn, ast.FunctionDef) or id(fn) in seen:
                        continue
                    seen.add(id(fn))
                    for st in walk_no_nested(fn):
                        tg = st.targets if isinstance(st, ast.Assign) else [st.target] if isinstance(st, (ast.AugAssign, ast.AnnAssign)) else []
                        for t in tg:
                            if isinstance(t, ast.Attribute) and isinstance(t.value, ast.Name) and t.value.id == "self":
                                rp = ci.resolve_property(t.attr)
                                if rp is None:
                                    continue
                                n += 1
                                pd = rp[1] if isinstance(rp, tuple) else rp
                                has_set = bool(pd.get("set")) if isinstance(pd, dict) else False
                                chk.decide(has_set, "R04.10", key(m, f"{base.name}.{mname}", f"self.{t.attr} assignable"), m.loc(st), f"property {t.attr} has a setter", f"`{norm(st)[:60]}` assigns to the property `{t.attr}`, which has no setter (resolved for {cname}): the statement always raises AttributeError, so {mname}() cannot be used with that option")
    chk.floor("R04.10", 2, "property stores in the Sequence classes")


COPY_CALLS = {"deepcopy", "copy"}


def _is_copy(e):
    return isinstance(e, ast.Call) and ((call_name(e) or "").split(".")[-1] in COPY_CALLS or (isinstance(e.func, ast.Call) and (call_name(e.func) or "") in ("type",)))


def r04_11(chk):
    chk.rule("R04.11", "building a collection does not add records to the annotation db of the sequences it is given: in merged_db_collection the receiver of `.update(<other db>)` is never (an alias of) a db read from an input sequence -- it is a copy; otherwise s1's db silently acquires s2's records and a second collection built from the same sequences returns them twice ('exactly the features that overlap' fails)")
    n = 0
    for rel in ("core/alignment.py", "core/new_alignment.py"):
        m = chk.repo.module(rel)
        fns = [f for f in m.tree.body if isinstance(f, ast.FunctionDef) and f.name == "merged_db_collection"]
        if not fns:
            raise AnalysisError(f"{rel}: merged_db_collection not found")
        fn = fns[0]
        assigns = [st for st in walk_no_nested(fn) if isinstance(st, ast.Assign) and len(st.targets) == 1 and isinstance(st.targets[0], ast.Name)]
        # names holding a db that belongs to an input sequence
        owned = set()
        changed = True
        while changed:
            changed = False
            for st in assigns:
                t = st.targets[0].id
                v = st.value
                if t in owned:
                    continue
                if (isinstance(v, ast.Attribute) and v.attr == "annotation_db") or (isinstance(v, ast.Name) and v.id in owned):
                    owned.add(t)
                    changed = True
        ups = [c for c in walk_no_nested(fn) if isinstance(c, ast.Call) and isinstance(c.func, ast.Attribute) and c.func.attr == "update" and isinstance(c.func.value, ast.Name)]
        if not ups:
            chk.ok("R04.11", key(m, "merged_db_collection", "no in-place merge"), m.loc(fn), "no .update() on a db", nontrivial=False)
            continue
        for c in ups:
            n += 1
            r = c.func.value.id
            k = key(m, "merged_db_collection", "merge target is not an input sequence's db")
            defs = [st for st in assigns if st.targets[0].id == r]
            alias_defs = [st for st in defs if not _is_copy(st.value) and not (isinstance(st.value, ast.Constant) and st.value.value is None)]
            if r not in owned or not alias_defs:
                chk.ok("R04.11", k, m.loc(c), f"`{r}` only ever holds a copy")
                continue
            # guard-repair idiom: `if r is X: r = copy(...)` in the same block, before the call, for every alias X
            guarded = True
            for ad in alias_defs:
                x = norm(ad.value)
                found = False
                for blk in ast.walk(fn):
                    for fld in ("body", "orelse"):
                        stmts = getattr(blk, fld, None)
                        if not isinstance(stmts, list):
                            continue
                        idx = next((i for i, st in enumerate(stmts) if any(y is c for y in ast.walk(st))), None)
                        if idx is None:
                            continue
                        for st in stmts[:idx]:
                            if isinstance(st, ast.If) and norm(st.test) in (f"{r} is {x}", f"{x} is {r}") and any(isinstance(b, ast.Assign) and norm(b.targets[0]) == r and _is_copy(b.value) for b in st.body):
                                found = True
                guarded = guarded and found
            chk.decide(guarded, "R04.11", k, m.loc(c), f"`{r}` is re-bound to a copy whenever it still is the input's db", f"`{norm(c)}` adds the other sequences' records to `{r}`, which is the annotation db of the first input sequence ({', '.join(norm(a) for a in alias_defs)}): make_aligned_seqs([s1, s2]) leaves len(s1.annotation_db) larger, and a second make_aligned_seqs([s1, s2]) returns s2's feature twice")
    chk.floor("R04.11", 2, "old- and new-type merged_db_collection")


def r04_12(chk):
    chk.rule("R04.12", "the union of features covers every member: FeatureMap.covered() (behind Feature.union and with_masked_annotations) is either a depth-counting sweep (+1 at every span start, -1 at every span end) or, when it merges start-sorted intervals, extends the current interval to the MAXIMUM of the two ends -- taking the later span's end loses the tail of a span that contains the next one (gene (4,24) with a repeat (8,13) inside it would merge to (4,13))")
    m = chk.repo.module("core/location.py")
    q = "FeatureMap.covered"
    fn = m.func(q)
    k = key(m, q, "merged extent is the union")
    plus = any(isinstance(st, ast.Assign) and isinstance(st.value, ast.BinOp) and isinstance(st.value.op, ast.Add) and isinstance(st.value.right, ast.Constant) and st.value.right.value == 1 and "start" in norm(st.targets[0]) for st in walk_no_nested(fn))
    minus = any(isinstance(st, ast.Assign) and isinstance(st.value, ast.BinOp) and isinstance(st.value.op, ast.Sub) and isinstance(st.value.right, ast.Constant) and st.value.right.value == 1 and "end" in norm(st.targets[0]) for st in walk_no_nested(fn))
    merges = [st for st in walk_no_nested(fn) if isinstance(st, ast.Assign) and isinstance(st.targets[0], ast.Subscript) and isinstance(st.targets[0].slice, ast.UnaryOp) and norm(st.targets[0].slice) == "-1"]
    if plus and minus and not merges:
        chk.ok("R04.12", k, m.loc(fn), "depth-counting sweep: +1 at starts, -1 at ends")
    elif merges:
        bad = None
        for st in merges:
            v = st.value
            last = v.elts[-1] if isinstance(v, ast.Tuple) and v.elts else v
            if not (isinstance(last, ast.Call) and norm(last.func) in ("max", "numpy.maximum")):
                bad = st
        chk.decide(bad is None, "R04.12", k, m.loc(bad if bad is not None else merges[0]), "merged end is max(...) of the two ends", f"`{norm(bad)[:70] if bad is not None else ''}` replaces the end of the current interval by the next span's end: a span nested in the current one shortens it (gene (4,24) + repeat (8,13) -> (4,13)), so union()/masking leave part of the gene out")
    else:
        chk.unresolved("R04.12", k, m.loc(fn), "neither a depth-counting sweep nor a sort-and-merge loop was recognised")
    chk.floor("R04.12", 1, "covered()")


def r04_13(chk):
    chk.rule("R04.13", "two sites agree on when a feature slice may keep its annotation db: Feature._do_seq_slice drops the db only for a map of more than one span, so Aligned.__getitem__[FeatureMap] builds coordinate-less data (joined_segments / gapped_by_map: a fresh sequence starting at 0 on the plus strand) only on the branch that excludes the single-span case; the single-span branch slices self.data, which keeps parent coordinates and strand -- otherwise the re-attached db is queried with coordinates that no longer mean anything (a nested exon reads TTA instead of GGT)")
    from .c09 import _enclosing_tests

    am = chk.repo.module("core/annotation.py")
    ds = am.func("Feature._do_seq_slice")
    drops_multi_only = any(isinstance(i, ast.If) and "num_spans > 1" in norm(i.test) and any(isinstance(st, ast.Assign) and "annotation_db" in norm(st.targets[0]) and isinstance(st.value, ast.Constant) and st.value.value is None for st in i.body) for i in walk_no_nested(ds))
    m = chk.repo.module("core/alignment.py")
    fns = [f for f in ast.walk(m.cls("Aligned").node) if isinstance(f, ast.FunctionDef) and f.name == "_" and any("__getitem__.register" in norm(d) for d in f.decorator_list) and f.args.args[1:] and f.args.args[1].annotation is not None and "FeatureMap" in norm(f.args.args[1].annotation)]
    if not fns:
        raise AnalysisError("Aligned.__getitem__[FeatureMap] not found")
    fn = fns[0]
    joins = [st for st in walk_no_nested(fn) if isinstance(st, ast.Assign) and any(isinstance(c, ast.Call) and isinstance(c.func, ast.Attribute) and c.func.attr in ("joined_segments", "gapped_by_map") for c in ast.walk(st.value))]
    k = key(m, "Aligned.__getitem__[FeatureMap]", "joined data only for more than one span")
    if not joins:
        chk.ok("R04.13", k, m.loc(fn), "no coordinate-less construction", nontrivial=False)
    elif not drops_multi_only:
        chk.ok("R04.13", k, m.loc(fn), "Feature._do_seq_slice no longer keeps the db for single-span maps only", nontrivial=False)
    else:
        bad = None
        for st in joins:
            tests = _enclosing_tests(fn, st)
            single_excluded = any(t.startswith("not (") and "== 1" in t and "spans" in t for t in tests) or any((not t.startswith("not (")) and ("> 1" in t or ">= 2" in t) and "spans" in t for t in tests)
            if not single_excluded:
                bad = (st, tests)
        chk.decide(bad is None, "R04.13", k, m.loc(bad[0] if bad else joins[0]), "the join path excludes single-span maps", f"`{norm(bad[0])[:60] if bad else ''}` is reached under {bad[1] if bad else ''}, i.e. also for a single-span map: the data loses parent coordinates and strand while Feature._do_seq_slice keeps the annotation db for it, so get_features() on aln[gene] returns the wrong residues")
    chk.floor("R04.13", 1, "Aligned.__getitem__[FeatureMap]")


def r04_14(chk):
    chk.rule("R04.14", "a view shares its parent's annotation db from the moment it is taken: in Sequence.__getitem__ (old and new type) the db is handed to the slice whenever it is not None -- not when it is 'truthy': an annotation db has __len__, so a db without records is falsy and the slice would keep a private db; features added to the sequence afterwards are then invisible to the view (seq[2:30] taken before add_feature reports nothing)")
    n = 0
    for rel in ("core/sequence.py", "core/new_sequence.py"):
        m = chk.repo.module(rel)
        fn = m.func("Sequence.__getitem__")
        hands = [i for i in walk_no_nested(fn) if isinstance(i, ast.If) and any(isinstance(c, ast.Call) and isinstance(c.func, ast.Attribute) and c.func.attr == "replace_annotation_db" for st in i.body for c in ast.walk(st))]
        if not hands:
            raise AnalysisError(f"{rel}::Sequence.__getitem__: the hand-over of the annotation db was not found")
        for i in hands:
            n += 1
            t = i.test
            truthy = [x for x in ([t] + (t.values if isinstance(t, ast.BoolOp) else [])) if isinstance(x, ast.Attribute) and x.attr in ("annotation_db", "_annotation_db")] + [x for x in ([t] + (t.values if isinstance(t, ast.BoolOp) else [])) if isinstance(x, ast.UnaryOp) and isinstance(x.operand, ast.Attribute) and x.operand.attr in ("annotation_db", "_annotation_db")]
            chk.decide(not truthy, "R04.14", key(m, "Sequence.__getitem__", "db handed over when not None"), m.loc(i), f"`{norm(t)[:60]}`", f"`{norm(t)}` tests the db by its truth value: an empty db is falsy, so a slice taken before any feature is added does not share the parent's db and never sees the features added later")
    chk.floor("R04.14", 2, "old- and new-type Sequence.__getitem__")


def r04_15(chk):
    chk.rule("R04.15", "a feature added THROUGH a view is stored where the view's residues are: Sequence.add_feature receives spans in the coordinates of the sequence it is called on (its docstring: 'coordinates for this sequence') and writes them to the annotation db, whose coordinates are the parent's -- so the spans handed to annotation_db.add_feature must first go through the view's coordinate conversion (absolute_position / the parent offset), as get_features does in the other direction; written as they are, a feature added on s[5:20] at (2, 5) is stored at parent (2, 5): the parent shows other residues and the view itself does not find it")
    n = 0
    for rel in ("core/sequence.py", "core/new_sequence.py"):
        m = chk.repo.module(rel)
        q = "Sequence.add_feature"
        if not m.has_func(q):
            continue
        fn = m.func(q)
        writes = [c for c in walk_no_nested(fn) if isinstance(c, ast.Call) and norm(c.func).endswith("annotation_db.add_feature")]
        if not writes:
            continue
        n += 1
        conv = [c for c in walk_no_nested(fn) if isinstance(c, ast.Call) and isinstance(c.func, ast.Attribute) and c.func.attr in ("absolute_position", "parent_coordinates", "_absolute_spans", "to_parent_coordinates")]
        offs = [x for x in walk_no_nested(fn) if isinstance(x, ast.Attribute) and x.attr in ("annotation_offset", "parent_start", "offset") and isinstance(x.ctx, ast.Load)]
        k = key(m, q, "spans converted to parent coordinates before they are stored")
        chk.decide(bool(conv or offs), "R04.15", k, m.loc(writes[0]), "spans pass through the view's coordinate conversion", "the spans are written to the annotation db exactly as given (view-relative): s = make_seq(...); v = s[5:20]; v.add_feature(biotype='x', name='x', spans=[(2, 5)]) -- s.get_features(name='x') slices s[2:5] instead of s[7:10], and v.get_features(name='x') finds nothing")
    chk.floor("R04.15", 2, "old and new Sequence.add_feature")


def run(chk):
    r04_15(chk)
    r04_14(chk)
    r04_13(chk)
    r04_12(chk)
    r04_11(chk)
    r04_10(chk)
    r04_9(chk)
    r04_8(chk)
    r04_7(chk)
    r04_1(chk)
    r04_6(chk)
    r04_2(chk)
    r04_4(chk)
    r04_5(chk)
    # "queries return exactly the features that overlap / lie inside the window" also needs the database side:
    # the predicate itself (R17.1) and the denormalised extremes it is evaluated on (R17.3)
    from . import c17

    c17.r17_1(chk)
    c17.r17_3(chk)
    chk.assume("a slice of self._seq keeps the view's offset and start (SliceRecordABC.__getitem__)")
