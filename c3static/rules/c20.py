"""C20 -- tables follow the list-of-rows model and survive delimited round-trips.

Relational semantics are not decided.  Decided:
R20.1 delimited writers speak the reader's dialect (csv.reader, dialect="excel")
R20.2 the listed table operations do not mutate the table they are called on (L5)
R20.3 every self.<method>() call on the write paths resolves in the class's MRO

Added in build round 2 (see DESIGN.md section 3, round-2 table):
R20.4 the delimited reader keeps every record: in load_delimited each row the csv reader yields is appended unchanged (no filtering `continue`, no ...
R20.5 cells form an equality domain only (a column of mixed types or with missing values is an object array whose elements cannot be ordered): the ...

Added later in build rounds 2-3 (see DESIGN.md section 3, round-2/3 table):
R20.6 derived state stays coherent: when an attribute of Columns is computed from other attributes of the same object (self._template = ...
R20.7 text read from a delimited file is data: no function on the read path (load_table -> load_delimited -> cast_str_to_array / cast_str_to_numeric) ...
R20.8 list-of-rows semantics of filtering and sorting: (i) the row predicate is used through its truth value (bool(...), `if cb(row)`), never compared with ...
R20.9 join keys: the two key-column lists of inner_join are compared position by position, so in the natural-join branch (no columns given) both lists come ...
R20.10 cross_join never unpacks zip(*pairs): zero row pairs give nothing to unpack.
"""

from __future__ import annotations

import ast

from .. import defuse as D
from .. import effects as E
from ..index import AnalysisError, call_name, norm, params_of, walk_no_nested
from ..report import key

TABLE = "util/table.py"
FMT = "format/table.py"

PURE_OPS = [
    "sorted", "filtered", "filtered_by_column", "joined", "inner_join", "cross_join", "appended", "transposed", "get_columns",
    "with_new_column", "with_new_header", "count", "count_unique", "distinct_values", "to_list", "to_dict", "to_rich_dict", "to_json",
    "to_csv", "to_tsv", "to_markdown", "to_rst", "to_latex", "to_dataframe", "get_row_indices", "normalized", "summed", "__getitem__",
]


def _suffix_sep_table(fn):
    """{format name: separator} from `if format == "csv": sep = sep or ","` chains"""
    out = {}
    for i in walk_no_nested(fn):
        if isinstance(i, ast.If) and isinstance(i.test, ast.Compare) and isinstance(i.test.ops[0], ast.Eq) and isinstance(i.test.comparators[0], ast.Constant):
            fmt = i.test.comparators[0].value
            for st in i.body:
                if isinstance(st, ast.Assign) and norm(st.targets[0]) == "sep" and isinstance(st.value, ast.BoolOp) and isinstance(st.value.values[-1], ast.Constant):
                    out[fmt] = st.value.values[-1].value
    return out


def r20_1(chk):
    chk.rule("R20.1", "reader: csv.reader(dialect='excel', delimiter=sep). Every delimited writer either uses csv.writer with that dialect (default quoting, quotechar, doublequote) and the same suffix->separator table as load_table, or, if hand-rolled, quotes a field on {sep, '\"', '\\n', '\\r'}, doubles embedded quotes and treats the header like the rows")
    pm = chk.repo.module("parse/table.py")
    ld = pm.func("load_delimited")
    readers = [c for c in walk_no_nested(ld) if isinstance(c, ast.Call) and norm(c.func) == "csv.reader"]
    if not readers:
        raise AnalysisError("load_delimited: csv.reader call not found")
    rk = {kw.arg: norm(kw.value) for kw in readers[0].keywords}
    chk.decide(rk.get("dialect") == "'excel'" and rk.get("delimiter") == "sep" and set(rk) <= {"dialect", "delimiter"}, "R20.1", key(pm, "load_delimited", "reader dialect"), pm.loc(readers[0]), "csv.reader(f, dialect='excel', delimiter=sep)", f"reader parameters changed: {rk}")
    tm = chk.repo.module(TABLE)
    w = tm.func("Table.write")
    writers = [c for c in walk_no_nested(w) if isinstance(c, ast.Call) and norm(c.func) == "csv.writer"]
    if not writers:
        chk.violation("R20.1", key(tm, "Table.write", "csv.writer"), tm.loc(w), "the delimited branch of Table.write no longer uses csv.writer")
    else:
        wk = {kw.arg: norm(kw.value) for kw in writers[0].keywords}
        bad = {k: v for k, v in wk.items() if k in ("quoting", "quotechar", "doublequote", "escapechar", "dialect") and v not in ("'excel'", "csv.QUOTE_MINIMAL", "'\"'", "True")}
        chk.decide(wk.get("delimiter") == "sep" and not bad and wk.get("lineterminator") in ("'\\n'", None), "R20.1", key(tm, "Table.write", "csv.writer dialect"), tm.loc(writers[0]), f"csv.writer({wk})", f"writer dialect {wk} is not what csv.reader(dialect='excel') reads back")
        rows = [c for c in walk_no_nested(w) if isinstance(c, ast.Call) and isinstance(c.func, ast.Attribute) and c.func.attr in ("writerow", "writerows")]
        hdr = any(norm(c) == "writer.writerow(self.header)" for c in rows)
        body = any(c.func.attr == "writerows" for c in rows)
        chk.decide(hdr and body, "R20.1", key(tm, "Table.write", "header and rows through the same writer"), tm.loc(w), "header and rows written by the same csv.writer", "header or rows bypass the csv writer")
    im = chk.repo.module("__init__.py")
    lt = im.func("load_table")
    wt, rt = _suffix_sep_table(w), _suffix_sep_table(lt)
    chk.decide(bool(wt) and wt == rt, "R20.1", key(tm, "Table.write", "suffix -> separator table"), tm.loc(w), f"writer and reader agree: {wt}", f"Table.write maps {wt} but load_table maps {rt}")
    # hand-rolled writer
    fm = chk.repo.module(FMT)
    sf = fm.func("separator_format")
    inner = [f for f in ast.walk(sf) if isinstance(f, ast.FunctionDef) and f is not sf]
    scope = inner[0] if inner else sf
    tests = [i for i in ast.walk(scope) if isinstance(i, ast.If)]
    cond = " ".join(norm(i.test) for i in tests)
    need = {"sep in": "the separator", "'\"' in": "a double quote", "'\\n' in": "a line feed", "'\\r' in": "a carriage return"}
    missing = [what for pat, what in need.items() if pat not in cond]
    doubles = any(isinstance(c, ast.Call) and isinstance(c.func, ast.Attribute) and c.func.attr == "replace" and [getattr(a, "value", None) for a in c.args] == ['"', '""'] for c in ast.walk(scope))
    chk.decide(not missing, "R20.1", key(fm, "separator_format", "quotes every special field"), fm.loc(scope), "fields containing the separator, a quote, LF or CR are quoted", f"a field containing {', '.join(missing)} is written bare: csv.reader splits or mis-reads it")
    chk.decide(doubles, "R20.1", key(fm, "separator_format", "doubles embedded quotes"), fm.loc(scope), "embedded quotes are doubled", "embedded double quotes are not doubled inside a quoted field")
    # header through the same quoting as rows
    hdr_joins = [c for c in walk_no_nested(sf) if isinstance(c, ast.Call) and isinstance(c.func, ast.Attribute) and c.func.attr == "join" and norm(c.func.value) == "sep"]
    qname = inner[0].name if inner else None
    hdr_ok = bool(hdr_joins) and all((qname and qname + "(" in norm(c)) or not inner for c in hdr_joins) and any("header" in norm(c) for c in hdr_joins)
    if not inner:
        # quoting done in place on rows: the header must be processed by the same code
        hdr_ok = False
    chk.decide(hdr_ok, "R20.1", key(fm, "separator_format", "header quoted like rows"), fm.loc(sf), "header and rows go through the same quoting function", "the header is joined without the quoting applied to the rows: a column name containing the separator shifts every column")
    # who calls separator_format gets sep from the same table
    chk.floor("R20.1", 7, "reader, csv writer (3), hand-rolled writer (3)")


class TableFamily(E.Family):
    name = "table"
    self_kind = "TABLE"
    attr_kinds = {
        "header": ("LIST", ("STR",)),
        "columns": ("COLUMNS",),
        "title": ("STR",),
        "legend": ("STR",),
        "shape": ("SCALAR",),
        "index_name": ("STR",),
        "_column_templates": ("DICT",),
        "_repr_policy": ("DICT",),
    }
    allowed_attrs = {"_repr_policy": "display policy only"}
    # property getters that lazily finish construction (idempotent): their writes are not model state changes
    memo_properties = {"index_name": "deferred initialisation of the row-index template from the constructor's index_name; idempotent, commented as such in Table.__getitem__"}
    param_kinds = {"other": ("TABLE",), "other_table": ("TABLE",)}

    def is_ctor_expr(self, interp, e):
        if isinstance(e, ast.Name) and e.id in ("Table",) and e.id not in interp.env:
            return "TABLE"
        return None

    def special_attr_store(self, interp, owner, attr, val, node):
        if self.self_kind in owner.kinds:
            tgt = interp.engine.property_setter(interp.owner, attr)
            if tgt is not None:
                interp.apply_summary(tgt, owner, [val], {}, node, f"{norm(node)} = ... (property setter)")
                return True
        return False


def r20_2(chk):
    chk.rule("R20.2", "none of the listed table operations mutates the table it is called on (L5): no store to a column, header or attribute, no container mutation, no property setter whose target lies exactly in the receiver's region; allow-listed: _repr_policy (display only)")
    m = chk.repo.module(TABLE)
    ci = m.cls("Table")
    fam = TableFamily(chk.repo, [ci], m)
    eng = E.Engine(fam)
    roots, names = [], []
    for name in PURE_OPS:
        r = ci.resolve(name)
        if r is None or not isinstance(r[1], (ast.FunctionDef, ast.AsyncFunctionDef)):
            continue
        roots.append((r[0], r[1], True))
        names.append((name, r))
    eng.analyse(roots)
    for name, (owner, fn) in names:
        summ = eng.summaries[(id(fn), owner.fq)]
        q = f"{owner.name}.{name}"
        if E.SELF in summ.mut:
            what, line, chain = summ.mut[E.SELF]
            via = " -> ".join(f"{c[0]} (L{c[1]})" for c in chain)
            chk.violation("R20.2", key(m, q, f"mutates receiver: {what}"), f"{m.rel}:{line}", f"`{what}` changes the table {name}() was called on" + (f" (reached via {via})" if via else "") + ": the same operation on a plain list of row tuples leaves the list alone")
        else:
            chk.ok("R20.2", key(m, q, "receiver untouched"), m.loc(fn), f"no definite receiver mutation (unresolved calls: {summ.unresolved})")
    chk.floor("R20.2", 18, "the design's 18 operations")


WRITE_PATHS = [
    ("util/table.py", "Table", "write"),
    ("util/table.py", "Table", "to_string"),
    ("util/table.py", "Table", "to_csv"),
    ("util/table.py", "Table", "to_tsv"),
    ("util/dict_array.py", "DictArray", "write"),
    ("core/tree.py", "TreeNode", "write"),
    ("core/alignment.py", "_SequenceCollectionBase", "write"),
    ("core/new_alignment.py", "SequenceCollection", "write"),
]


def _dynamic_attrs(ci):
    """names a class may get dynamically: __getattr__ defined, or setattr in __init__"""
    return any("__getattr__" in c.methods for c in ci.mro())


def r20_3(chk):
    chk.rule("R20.3", "every `self.<name>(...)` call on a write path resolves to a method, property or attribute assigned somewhere in the class's MRO (an unresolvable name raises AttributeError only when that option is used, which no test does)")
    for rel, cname, meth in WRITE_PATHS:
        m = chk.repo.module(rel)
        ci = m.cls(cname)
        r = ci.resolve(meth)
        if r is None or not isinstance(r[1], ast.FunctionDef):
            raise AnalysisError(f"{rel}::{cname}.{meth} not found")
        fn = r[1]
        # names visible on instances: methods, properties, class assigns, and self.<x> = ... anywhere in the MRO
        visible = set()
        for c in ci.mro():
            visible |= set(c.methods) | set(c.properties) | set(c.assigns) | set(c.aliases)
            for f in c.methods.values():
                if isinstance(f, ast.FunctionDef):
                    for n in ast.walk(f):
                        if isinstance(n, ast.Attribute) and isinstance(n.ctx, ast.Store) and isinstance(n.value, ast.Name) and n.value.id == "self":
                            visible.add(n.attr)
        dyn = _dynamic_attrs(ci) or ci.has_external_base()
        calls = [c for c in walk_no_nested(fn) if isinstance(c, ast.Call) and isinstance(c.func, ast.Attribute) and isinstance(c.func.value, ast.Name) and c.func.value.id == "self"]
        for c in calls:
            name = c.func.attr
            k = key(m, f"{cname}.{meth}", f"self.{name}()")
            if name in visible:
                chk.ok("R20.3", k, m.loc(c), f"self.{name} resolves")
            elif dyn:
                chk.unresolved("R20.3", k, m.loc(c), "class has __getattr__ / an external base: cannot decide")
            else:
                chk.violation("R20.3", k, m.loc(c), f"`self.{name}(...)` does not exist on {cname} or its bases: this branch of {meth}() always raises AttributeError")
    chk.floor("R20.3", 10, "self-calls on 8 write paths")
    if chk.tier == "thorough":
        # package-wide cross-reference (advisories only)
        for ci in chk.repo.all_classes():
            try:
                mro = ci.mro()
            except AnalysisError:
                continue
            if ci.has_external_base() or any("__getattr__" in c.methods for c in mro) or any(b is None for c in mro for b in c.base_infos()):
                continue
            subs = chk.repo.subclasses_of(ci)
            if subs:
                continue  # mix-ins / bases are checked through their concrete subclasses
            visible = set()
            for c in mro:
                visible |= set(c.methods) | set(c.properties) | set(c.assigns) | set(c.aliases)
                for f in c.methods.values():
                    if isinstance(f, ast.FunctionDef):
                        for n in ast.walk(f):
                            if isinstance(n, ast.Attribute) and isinstance(n.ctx, ast.Store) and isinstance(n.value, ast.Name) and n.value.id == "self":
                                visible.add(n.attr)
            for c in mro:
                for mname, f in c.methods.items():
                    if not isinstance(f, ast.FunctionDef):
                        continue
                    for call in walk_no_nested(f):
                        if isinstance(call, ast.Call) and isinstance(call.func, ast.Attribute) and isinstance(call.func.value, ast.Name) and call.func.value.id == "self" and call.func.attr not in visible and not call.func.attr.startswith("__"):
                            chk.advisory("R20.3", key(c.module, f"{c.name}.{mname}", f"self.{call.func.attr}() [{ci.name}]"), c.module.loc(call), "self-call that resolves nowhere in the MRO (package-wide sweep)")


def _guards(fn, target):
    """tests of the `if` statements (with the branch taken) that enclose `target` in fn"""
    out = []

    def rec(stmts, acc):
        for st in stmts:
            if st is target or any(n is target for n in ast.walk(st) if not isinstance(st, (ast.If, ast.For, ast.While, ast.With, ast.Try))):
                out.extend(acc)
                return True
            if isinstance(st, ast.If):
                if rec(st.body, acc + [(norm(st.test), True)]) or rec(st.orelse, acc + [(norm(st.test), False)]):
                    return True
                if any(n is target for n in ast.walk(st.test)):
                    out.extend(acc)
                    return True
            elif isinstance(st, (ast.For, ast.While)):
                if rec(st.body, acc) or rec(st.orelse, acc):
                    return True
            elif isinstance(st, ast.With):
                if rec(st.body, acc):
                    return True
            elif isinstance(st, ast.Try):
                if rec(st.body, acc) or rec(st.orelse, acc) or rec(st.finalbody, acc) or any(rec(h.body, acc) for h in st.handlers):
                    return True
        return False

    rec(fn.body, [])
    return out


def r20_4(chk):
    chk.rule("R20.4", "the delimited reader keeps every record: in load_delimited each row the csv reader yields is appended unchanged (no filtering `continue`, no conditional or transformed append; the only early exit is the `limit` break after the append); afterwards the row list loses only the header (if header) and the legend (if with_legend); load_table drops rows only under skip_inconsistent")
    pm = chk.repo.module("parse/table.py")
    ld = pm.func("load_delimited")
    readers = {t.id for tg, v, _ in D.assignments(ld) if isinstance(v, ast.Call) and norm(v.func) == "csv.reader" for t in tg if isinstance(t, ast.Name)}
    if not readers:
        raise AnalysisError("load_delimited: no name bound to csv.reader(...)")
    loops = [f for f in walk_no_nested(ld) if isinstance(f, ast.For) and isinstance(f.iter, ast.Name) and f.iter.id in readers]
    comps = [c for c in walk_no_nested(ld) if isinstance(c, (ast.ListComp, ast.GeneratorExp)) and any(isinstance(g.iter, ast.Name) and g.iter.id in readers for g in c.generators)]
    whole = [c for c in walk_no_nested(ld) if isinstance(c, ast.Call) and call_name(c) in ("list", "tuple") and c.args and isinstance(c.args[0], ast.Name) and c.args[0].id in readers]
    if not (loops or comps or whole):
        raise AnalysisError("load_delimited: cannot find how the rows are collected from the csv reader")
    rowlists = set()
    for lp in loops:
        var = lp.target.id if isinstance(lp.target, ast.Name) else None
        k = key(pm, "load_delimited", "every row appended")
        appends = [(i, st) for i, st in enumerate(lp.body) if isinstance(st, ast.Expr) and isinstance(st.value, ast.Call) and isinstance(st.value.func, ast.Attribute) and st.value.func.attr == "append" and len(st.value.args) == 1 and isinstance(st.value.args[0], ast.Name) and st.value.args[0].id == var]
        if not appends:
            chk.violation("R20.4", k, pm.loc(lp), f"the loop over the csv reader has no unconditional `<rows>.append({var})` at the top level of its body: rows are filtered or transformed while being read, so a written row (an all-empty one, say) does not come back")
            continue
        i, st = appends[0]
        rowlists.add(norm(st.value.func.value))
        early = [n for b in lp.body[:i] for n in ast.walk(b) if isinstance(n, (ast.Continue, ast.Break, ast.Return))]
        rebinding = [b for b in lp.body[:i] for tg, v, _ in D.assignments(ast.Module(body=[b], type_ignores=[])) for t in tg if isinstance(t, ast.Name) and t.id == var]
        bad_line = early[0].lineno if early else (rebinding[0].lineno if rebinding else 0)
        chk.decide(not early and not rebinding, "R20.4", k, pm.loc(st), f"`{norm(st.value)}` is the first effect of every iteration", f"before `{norm(st.value)}` the loop body can skip or rewrite the row (line {bad_line}): a record of the file is dropped or altered on reading -- e.g. a row whose cells are all empty fails `any(row)`")
        # exits after the append are governed by the limit option only
        for b in lp.body[i + 1 :]:
            for n in ast.walk(b):
                if isinstance(n, (ast.Break, ast.Return)):
                    g = [t for t, _ in _guards(ast.Module(body=lp.body, type_ignores=[]), n)]
                    chk.decide(any("limit" in t for t in g), "R20.4", key(pm, "load_delimited", "early exit only by limit"), pm.loc(n), f"break under {g}", f"the reading loop stops early under {g or 'no condition'}, not under the limit option")
    for c in comps:
        gen = c.generators[0]
        same = isinstance(c.elt, ast.Name) and isinstance(gen.target, ast.Name) and c.elt.id == gen.target.id
        chk.decide(same and not gen.ifs and len(c.generators) == 1, "R20.4", key(pm, "load_delimited", "every row appended"), pm.loc(c), "rows collected by an unfiltered comprehension", f"`{norm(c)}` filters or rewrites the rows while reading")
    for c in whole:
        chk.ok("R20.4", key(pm, "load_delimited", "every row appended"), pm.loc(c), "rows collected by list(reader)")
    for tg, v, st in D.assignments(ld):
        for t in tg:
            if isinstance(v, (ast.ListComp, ast.Call)) and any(isinstance(g, ast.comprehension) and g.iter and isinstance(g.iter, ast.Name) and g.iter.id in readers for g in ast.walk(v)) or (isinstance(v, ast.Call) and v in whole):
                rowlists.add(norm(t))
    if not rowlists:
        raise AnalysisError("load_delimited: row list not identified")
    # what happens to the row list after collection
    allowed = {"pop(0)": "header", "pop(-1)": "with_legend"}
    n_mut = 0
    for c in walk_no_nested(ld):
        if isinstance(c, ast.Call) and isinstance(c.func, ast.Attribute) and norm(c.func.value) in rowlists and c.func.attr in ("pop", "remove", "clear", "sort", "reverse", "insert", "extend", "__delitem__"):
            sig = f"{c.func.attr}({', '.join(norm(a) for a in c.args)})"
            opt = allowed.get(sig)
            g = [t for t, br in _guards(ld, c) if br]
            # conditional expressions `x.pop(0) if header else None`
            for n in ast.walk(ld):
                if isinstance(n, ast.IfExp) and any(m is c for m in ast.walk(n.body)):
                    g.append(norm(n.test))
            n_mut += 1
            chk.decide(opt is not None and opt in g, "R20.4", key(pm, "load_delimited", f"rows.{sig}"), pm.loc(c), f"removes the {opt} line only when `{opt}` is set", f"`{norm(c)}` under {g or 'no condition'} removes a record that was written as data")
    for tg, v, st in D.assignments(ld):
        for t in tg:
            if norm(t) in rowlists and not (isinstance(v, (ast.List,)) and not v.elts) and not any(isinstance(g, ast.comprehension) and isinstance(g.iter, ast.Name) and g.iter.id in readers for g in ast.walk(v)) and not (isinstance(v, ast.Call) and v in whole):
                chk.violation("R20.4", key(pm, "load_delimited", f"rows rebound: {norm(v)[:60]}"), pm.loc(st), f"the row list is rebuilt by `{norm(v)[:80]}` after reading: records can be dropped or rewritten")
    # load_table
    im = chk.repo.module("__init__.py")
    lt = im.func("load_table")
    unpack = [(tg, v, st) for tg, v, st in D.assignments(lt) if isinstance(v, ast.Call) and call_name(v) == "load_delimited"]
    if not unpack or not isinstance(unpack[0][0][0], ast.Tuple) or len(unpack[0][0][0].elts) < 2:
        raise AnalysisError("load_table: `header, rows, ... = load_delimited(...)` not found")
    rows_name = norm(unpack[0][0][0].elts[1])
    for tg, v, st in D.assignments(lt):
        for t in tg:
            if norm(t) == rows_name:
                g = [tst for tst, br in _guards(lt, st) if br]
                chk.decide("skip_inconsistent" in g, "R20.4", key(im, "load_table", f"rows rebound: {norm(v)[:60]}"), im.loc(st), "rows are filtered only when the caller asks for skip_inconsistent", f"`{rows_name} = {norm(v)[:80]}` under {g or 'no condition'}: rows of the file are dropped without the caller asking for it")
    # the rows must reach the column builder whole
    uses = [n for n in walk_no_nested(lt) if isinstance(n, ast.Call) and call_name(n) == "zip" and any(isinstance(a, ast.Starred) and norm(a.value) == rows_name for a in n.args)]
    chk.decide(bool(uses), "R20.4", key(im, "load_table", "columns from all rows"), im.loc(uses[0]) if uses else im.loc(lt), f"columns are built by zip(header, *{rows_name})", f"the columns are no longer built from `*{rows_name}` (a slice or filter of the rows loses records)")
    chk.floor("R20.4", 5, "append, two pops, skip_inconsistent filter, zip")


ORDERING = {"unique", "sort", "argsort", "sorted", "lexsort", "searchsorted", "intersect1d", "union1d", "setdiff1d", "setxor1d", "in1d", "min", "max", "argmin", "argmax", "bisect", "bisect_left", "bisect_right", "groupby"}
EQUALITY_OPS = ["distinct_values", "count_unique", "count", "joined", "inner_join", "cross_join", "filtered", "filtered_by_column", "appended", "transposed", "get_columns", "with_new_column", "with_new_header", "get_row_indices", "to_list", "to_dict"]


def _cell_data_names(fn):
    """local names that (may) hold cell data of the receiver: derived from self.columns[...],
    self[...], <x>.array, <x>.tolist()/to_list(), self.columns.take_columns(...)"""

    def is_cell(n):
        if isinstance(n, ast.Subscript) and norm(n.value) in ("self", "self.columns", "self.array"):
            return True
        if isinstance(n, ast.Attribute) and n.attr in ("array",) and "self" in D.names_in(n):
            return True
        if isinstance(n, ast.Call) and isinstance(n.func, ast.Attribute) and n.func.attr in ("tolist", "to_list", "take_columns", "take", "iter_rows") and "self" in D.names_in(n):
            return True
        return False

    derived = set()
    changed = True
    binds = list(D.assignments(fn))
    while changed:
        changed = False
        for tg, v, _ in binds:
            if any(is_cell(n) for n in ast.walk(v)) or (D.names_in(v) & derived):
                for t in tg:
                    for nm in ast.walk(t):
                        if isinstance(nm, ast.Name) and nm.id not in derived:
                            derived.add(nm.id)
                            changed = True
    return derived, is_cell


def _ordering_uses(fn):
    derived, is_cell = _cell_data_names(fn)
    hits = []
    for c in walk_no_nested(fn):
        if not isinstance(c, ast.Call):
            continue
        nm = (call_name(c) or "").split(".")[-1]
        if nm not in ORDERING:
            continue
        operands = list(c.args) + [k.value for k in c.keywords if k.arg not in ("key",)]
        if isinstance(c.func, ast.Attribute) and not norm(c.func.value) in ("numpy", "np", "bisect", "itertools"):
            operands.append(c.func.value)
        if any(any(is_cell(n) for n in ast.walk(o)) or (D.names_in(o) & derived) for o in operands):
            hits.append(c)
    return hits


def r20_5(chk):
    chk.rule("R20.5", "cells form an equality domain only (a column of mixed types or with missing values is an object array whose elements cannot be ordered): the equality-based operations (distinct values, counting, joins, filtering, appending, transposing, column selection) apply no ordering primitive (numpy.unique/sort/argsort, sorted, min/max, ...) to cell data of the table -- on a plain list of rows these operations need == and hash only")
    m = chk.repo.module(TABLE)
    ci = m.cls("Table")
    probe = ci.resolve("sorted")
    if probe is None or not _ordering_uses(probe[1]):
        raise AnalysisError("R20.5 probe: the matcher no longer recognises the ordering primitive in Table.sorted")
    seen = set()
    work = []
    for name in EQUALITY_OPS:
        r = ci.resolve(name)
        if r is None or not isinstance(r[1], ast.FunctionDef):
            continue
        work.append((name, r[1], name))
    while work:
        name, fn, root = work.pop()
        if id(fn) in seen:
            continue
        seen.add(id(fn))
        hits = _ordering_uses(fn)
        q = f"Table.{name}"
        for h in hits:
            chk.violation("R20.5", key(m, q, f"ordering primitive {norm(h)[:60]}"), m.loc(h), f"`{norm(h)[:90]}` orders cell data" + (f" (reached from {root}())" if root != name else "") + ": for a column holding None next to text, or text next to numbers, the comparison raises TypeError (or orders arbitrarily) where a list of row tuples answers with == alone")
        if not hits:
            chk.ok("R20.5", key(m, q, "equality only"), m.loc(fn), "no ordering primitive applied to cell data")
        for c in walk_no_nested(fn):
            if isinstance(c, ast.Call) and isinstance(c.func, ast.Attribute) and norm(c.func.value) == "self" and c.func.attr not in ("sorted",):
                r = ci.resolve(c.func.attr)
                if r is not None and isinstance(r[1], ast.FunctionDef) and not c.func.attr.startswith("_repr") and c.func.attr not in ("__repr__", "__str__", "to_string", "_formatted", "_formatted_by_col"):
                    work.append((c.func.attr, r[1], root))
    chk.floor("R20.5", 14, "equality-based operations of Table")


def _self_attr_flow(ci, fn, value, depth=1):
    """data attributes of self whose value flows into `value` inside fn (through locals; property getters of the
    class are expanded one level through what they return)"""
    names = D.names_in(value)
    exprs = [value]
    binds = list(D.assignments(fn))
    # comprehension and for targets bind from their iterables
    for c in ast.walk(fn):
        if isinstance(c, ast.comprehension):
            binds.append(([c.target], c.iter, None))
    changed = True
    seen = set()
    while changed:
        changed = False
        for tg, v, _ in binds:
            tn = set()
            for t in tg:
                for el in (t.elts if isinstance(t, (ast.Tuple, ast.List)) else [t]):
                    if isinstance(el, ast.Name):
                        tn.add(el.id)
                    # stores through a local (arr[i] = self[c]) feed the local
                    if isinstance(el, ast.Subscript) and isinstance(el.value, ast.Name):
                        tn.add(el.value.id)
            tn.discard("self")
            if tn & names and id(v) not in seen:
                seen.add(id(v))
                exprs.append(v)
                new = D.names_in(v) - names
                if new:
                    names |= new
                changed = True
    out = set()
    for e in exprs:
        for n in ast.walk(e):
            if isinstance(n, ast.Attribute) and isinstance(n.value, ast.Name) and n.value.id == "self":
                if n.attr in ci.properties and depth:
                    g = ci.properties[n.attr].get("get")
                    if g is not None:
                        for r in ast.walk(g):
                            if isinstance(r, ast.Return) and r.value is not None:
                                out |= _self_attr_flow(ci, g, r.value, depth - 1)
                else:
                    out.add(n.attr)
            if isinstance(n, ast.Call) and call_name(n) == "len" and n.args and norm(n.args[0]) == "self":
                out.add("_order")
    return out


def _attr_stores(fn):
    """[(attr, stmt)] for self.<attr> = ... / self.<attr> op= ... in fn"""
    out = []
    for st in walk_no_nested(fn):
        tg = st.targets if isinstance(st, ast.Assign) else [st.target] if isinstance(st, (ast.AugAssign, ast.AnnAssign)) else []
        for t in tg:
            for el in (t.elts if isinstance(t, (ast.Tuple, ast.List)) else [t]):
                if isinstance(el, ast.Attribute) and isinstance(el.value, ast.Name) and el.value.id == "self":
                    out.append((el.attr, st))
    return out


def r20_6(chk):
    chk.rule("R20.6", "derived state stays coherent: when an attribute of Columns is computed from other attributes of the same object (self._template = DictArrayTemplate(self._order); a cached array built from the columns), every method that stores one of those source attributes stores the derived attribute again (recomputes or resets it) on every normal path afterwards -- a stale derived value labels or orders the cells of a row wrongly")
    from ..cfg import build

    m = chk.repo.module(TABLE)
    ci = m.cls("Columns")
    fns = [st for st in ci.node.body if isinstance(st, ast.FunctionDef)]
    data_attrs = {a for fn in fns for a, _ in _attr_stores(fn)}
    derived, stateful = {}, set()
    for fn in fns:
        if fn.name in ("__init__", "__setstate__"):
            continue
        for d, st in _attr_stores(fn):
            v = st.value
            if v is None or isinstance(v, ast.Constant):
                continue
            flow = _self_attr_flow(ci, fn, v)
            if d in flow:
                # updated from its own previous value: state, not a derived attribute
                stateful.add(d)
            src = {a for a in flow if a in data_attrs and a != d}
            if src:
                derived.setdefault(d, set()).update(src)
    for d in stateful:
        derived.pop(d, None)
    if "_template" not in derived or "_order" not in derived["_template"]:
        raise AnalysisError(f"R20.6: the derived pair Columns._template <- _order is no longer recognised (derived: {derived})")
    n = 0
    for d, srcs in sorted(derived.items()):
        for fn in fns:
            stores = _attr_stores(fn)
            sstores = [st for a, st in stores if a in srcs]
            if not sstores:
                continue
            q = f"Columns.{fn.name}" + (".setter" if any("setter" in norm(dd) for dd in fn.decorator_list) else "")
            g = build(fn)
            dnodes = [nd for nd in g.nodes if nd.ast is not None and nd.kind == "stmt" and any(a == d and st is nd.ast for a, st in stores)]
            for st in sstores:
                n += 1
                sn = [nd for nd in g.nodes if nd.ast is st and nd.kind == "stmt"]
                k = key(m, q, f"{d} follows `{norm(st)[:50]}`")
                if st in [x.ast for x in dnodes]:
                    chk.ok("R20.6", k, m.loc(st), "same statement")
                    continue
                if fn.name == "__init__":
                    chk.decide(bool(dnodes), "R20.6", k, m.loc(st), f"__init__ sets {d} too", f"__init__ sets the source but never {d}")
                    continue
                okd = bool(dnodes) and bool(sn) and all(g.always_followed_by(x, dnodes, exceptional=False)[0] for x in sn)
                chk.decide(okd, "R20.6", k, m.loc(st), f"self.{d} is stored again on every normal path after it", f"`{norm(st)[:70]}` changes a source of self.{d} (derived from {sorted(srcs)}) but {fn.name} can return without storing self.{d} again: the stale value is used by the next reader (rows iterated after `t.index_name = 'b'` carry the labels of the old column order)")
    chk.floor("R20.6", 4, "stores of _order in Columns")


READ_PATH = [("util/table.py", "cast_str_to_array"), ("util/table.py", "cast_str_to_numeric"), ("parse/table.py", "load_delimited"), ("__init__.py", "load_table")]


def r20_7(chk):
    chk.rule("R20.7", "text read from a delimited file is data: no function on the read path (load_table -> load_delimited -> cast_str_to_array / cast_str_to_numeric) passes it to eval/exec/compile -- an evaluated cell comes back as whatever the expression denotes ('abs' as a builtin, '1/0' as an exception), not as the text that was written; literals are parsed with ast.literal_eval. On the same path a first element is read (`values[0]`) only after the series was found non-empty, so a header-only file loads as a zero-row table")
    from ..cfg import build

    for rel, q in READ_PATH:
        m = chk.repo.module(rel)
        fn = m.func(q)
        evals = [c for c in walk_no_nested(fn) if isinstance(c, ast.Call) and call_name(c) in ("eval", "exec", "compile", "builtins.eval")]
        k = key(m, q, "cells are not evaluated")
        for c in evals:
            chk.violation("R20.7", key(m, q, f"evaluates `{norm(c)[:40]}`"), m.loc(c), f"`{norm(c)}` executes text that came from the file: the cell 'abs' is restored as the builtin function, '1/0' raises ZeroDivisionError out of load_table (and a crafted file runs code)")
        if not evals:
            chk.ok("R20.7", k, m.loc(fn), "no eval/exec/compile")
        # unguarded first-element reads of a parameter
        ps = set(params_of(fn))
        g = build(fn)
        firsts = g.nodes_containing(lambda x: isinstance(x, ast.Subscript) and isinstance(x.value, ast.Name) and x.value.id in ps and isinstance(x.slice, ast.Constant) and x.slice.value == 0 and isinstance(x.ctx, ast.Load))
        for u in firsts:
            names = {x.value.id for e in __import__("c3static.cfg", fromlist=["own_exprs"]).own_exprs(u) for x in ast.walk(e) if isinstance(x, ast.Subscript) and isinstance(x.value, ast.Name) and x.value.id in ps and isinstance(x.slice, ast.Constant) and x.slice.value == 0}
            for nm in sorted(names):
                # guarded inside the same test (`len(v) == 0 or ... v[0]`) or by a dominating emptiness test
                same = any(isinstance(b, ast.BoolOp) and any(f"len({nm})" in norm(v) or norm(v) in (f"not {nm}", nm) for v in b.values[:-1]) for e in __import__("c3static.cfg", fromlist=["own_exprs"]).own_exprs(u) for b in ast.walk(e))
                tests = [n for n in g.nodes if n.kind == "if" and (f"len({nm})" in norm(n.ast.test) or norm(n.ast.test) in (f"not {nm}", nm, f"{nm}.size == 0", f"not {nm}.size"))]
                dom = bool(tests) and g.dominated_by(u, tests)[0]
                chk.decide(same or dom, "R20.7", key(m, q, f"{nm}[0] read after an emptiness test"), m.loc(u.ast), "guarded by a length test", f"`{nm}[0]` is read without establishing that `{nm}` is non-empty: a column of a file with a header and no rows is empty, and loading such a file raises IndexError")
    probe = ast.parse("def f(values):\n    for v in values:\n        v = eval(v)\n").body[0]
    if not [c for c in ast.walk(probe) if isinstance(c, ast.Call) and call_name(c) == "eval"]:
        raise AnalysisError("R20.7 self-probe failed")
    chk.floor("R20.7", 4, "four read-path functions")


def r20_8(chk):
    chk.rule("R20.8", "list-of-rows semantics of filtering and sorting: (i) the row predicate is used through its truth value (bool(...), `if cb(row)`), never compared with == True / is True -- a predicate returning 2 or a non-empty string keeps the row in `[r for r in rows if cb(r)]`; (ii) the permutation that orders the rows comes from a stable sort (argsort(kind='stable'/'mergesort'), sorted, list.sort), as sorted(rows, key=...) is stable; (iii) Table.write appends '.gz' only to a name that carries no compression suffix of its own")
    m = chk.repo.module(TABLE)
    ci = m.cls("Table")
    fn = ci.methods["get_row_indices"]
    cmps = [c for c in walk_no_nested(fn) if isinstance(c, ast.Compare) and any(isinstance(x, ast.Call) and call_name(x) == "_callback" for x in ast.walk(c.left))]
    calls = [c for c in walk_no_nested(fn) if isinstance(c, ast.Call) and call_name(c) == "_callback"]
    if not calls:
        raise AnalysisError("Table.get_row_indices: the predicate call was not found")
    bad = [c for c in cmps if not (isinstance(c.left, ast.Call) and call_name(c.left) == "bool")]
    chk.decide(not bad, "R20.8", key(m, "Table.get_row_indices", "predicate by truth value"), m.loc(bad[0] if bad else calls[0]), "the predicate's result goes through bool(...) before it is compared with the negate flag", f"`{norm(bad[0])[:80] if bad else ''}` compares the predicate's raw result with a boolean: a truthy result that is not `True` (2, 'x', numpy.int64(3)) drops the row")
    st = ci.methods["sorted"]
    argsorts = [c for c in walk_no_nested(st) if isinstance(c, ast.Call) and isinstance(c.func, ast.Attribute) and c.func.attr in ("argsort",) or (isinstance(c, ast.Call) and call_name(c) in ("numpy.argsort", "numpy.lexsort"))]
    if not argsorts:
        raise AnalysisError("Table.sorted: no argsort found")
    for c in argsorts:
        kind = [try_kind(kw.value) for kw in c.keywords if kw.arg == "kind"]
        stable = call_name(c) == "numpy.lexsort" or (kind and kind[0] in ("stable", "mergesort"))
        chk.decide(bool(stable), "R20.8", key(m, "Table.sorted", "stable permutation"), m.loc(c), f"{norm(c)}", f"`{norm(c)}` uses numpy's default (unstable) sort: rows with equal keys change their relative order (visible above 16 rows), unlike sorted(rows, key=...)")
    # (iv) descending order by inverting the order, not by transforming the keys
    transformers = []
    for c in walk_no_nested(st):
        if isinstance(c, ast.Name) and c.id in m.functions and isinstance(c.ctx, ast.Load):
            body = m.functions[c.id]
            if any(isinstance(x, ast.Call) and isinstance(x.func, ast.Attribute) and x.func.attr == "translate" for x in ast.walk(body)) or any(isinstance(x, ast.BinOp) and isinstance(x.op, ast.Mult) and any(norm(o) in ("-1", "-1.0") for o in (x.left, x.right)) for x in ast.walk(body)):
                transformers.append(c)
        if isinstance(c, ast.Call) and isinstance(c.func, ast.Attribute) and c.func.attr == "translate":
            transformers.append(c)
    chk.decide(not transformers, "R20.8", key(m, "Table.sorted", "descending by order inversion"), m.loc(transformers[0] if transformers else st), "no key transformation for reversed columns", f"`{norm(transformers[0]) if transformers else ''}` rewrites the key values of a reversed column (character translation / negation) and then sorts ascending: no per-character map inverts the order of strings when one is a prefix of another ('a' < 'ab'), and non-text, non-numeric keys (bool) have no such method")
    w = ci.methods["write"]
    adds = [st_ for st_ in walk_no_nested(w) if isinstance(st_, ast.Assign) and norm(st_.targets[0]) == "filename" and ".gz" in norm(st_.value)]
    if not adds:
        raise AnalysisError("Table.write: the statement appending '.gz' was not found")
    sfx_names = {el.id for tg, v, _ in D.assignments(w) if isinstance(v, ast.Call) and call_name(v) == "get_format_suffixes" for t in tg if isinstance(t, (ast.Tuple, ast.List)) and len(t.elts) == 2 for el in [t.elts[1]] if isinstance(el, ast.Name)}
    for a in adds:
        gs = [t for t, br in _guards(w, a) if br]
        okg = any(any(f"{nm} is None" == g or f"not {nm}" == g for nm in sfx_names) for g in gs)
        chk.decide(okg, "R20.8", key(m, "Table.write", "'.gz' only for names without a compression suffix"), m.loc(a), f"under {gs}", f"'.gz' is appended under {gs}, not under a test of the compression suffix get_format_suffixes found: write('x.tsv.bz2') produces x.tsv.bz2.gz and nothing at the requested path")
    chk.floor("R20.8", 4, "predicate, stable sort, order inversion, compression suffix")


def r20_9(chk):
    chk.rule("R20.9", "join keys: the two key-column lists of inner_join are compared position by position, so in the natural-join branch (no columns given) both lists come from ONE ordering of the shared names (the second is a copy of the first), never from each table's own column order; and joined() hands col_prefix to whichever join it delegates to")
    m = chk.repo.module(TABLE)
    ci = m.cls("Table")
    fn = ci.methods["inner_join"]
    # the branch that computes the shared names
    branches = [i for i in walk_no_nested(fn) if isinstance(i, ast.If) and any(isinstance(st, ast.Assign) and isinstance(st.value, ast.BinOp) and isinstance(st.value.op, ast.BitAnd) for st in i.body)]
    if not branches:
        raise AnalysisError("Table.inner_join: natural-join branch (shared = set(...) & set(...)) not found")
    br = branches[0]
    assigns = {norm(st.targets[0]): st for st in br.body if isinstance(st, ast.Assign)}
    cs, co = assigns.get("columns_self"), assigns.get("columns_other")
    if cs is None or co is None:
        raise AnalysisError("Table.inner_join: natural-join branch does not bind both key lists")
    iter_roots = lambda st: {norm(g.iter) for n in ast.walk(st.value) if isinstance(n, (ast.ListComp, ast.GeneratorExp)) for g in n.generators}  # noqa: E731
    same_order = "columns_self" in D.names_in(co.value) or "columns_other" in D.names_in(cs.value) or (iter_roots(cs) == iter_roots(co) and iter_roots(cs))
    chk.decide(bool(same_order), "R20.9", key(m, "Table.inner_join", "natural-join keys from one ordering"), m.loc(co), f"columns_other = {norm(co.value)}", f"columns_self iterates {sorted(iter_roots(cs))} and columns_other iterates {sorted(iter_roots(co))}: when the shared columns appear in a different order in the two tables, column i of one list is compared with a differently named column of the other")
    j = ci.methods["joined"]
    n = 0
    for c in walk_no_nested(j):
        if isinstance(c, ast.Call) and isinstance(c.func, ast.Attribute) and norm(c.func.value) == "self" and c.func.attr in ("inner_join", "cross_join"):
            n += 1
            target = ci.methods.get(c.func.attr)
            accepts = target is not None and "col_prefix" in params_of(target)
            fwd = any(kw.arg == "col_prefix" and norm(kw.value) == "col_prefix" for kw in c.keywords)
            chk.decide(fwd or not accepts, "R20.9", key(m, "Table.joined", f"col_prefix forwarded to {c.func.attr}"), m.loc(c), "col_prefix=col_prefix", f"joined() does not pass its col_prefix to {c.func.attr}(): the option is silently ignored and the other table's columns get the default prefix")
    if n < 2:
        raise AnalysisError("Table.joined: delegation calls not found")
    chk.floor("R20.9", 3, "key ordering + two delegations")


def _unpacked_zip_star(fn):
    """`a, b = [list(]zip(*X)[)]`: unpacking the transposition of a possibly empty sequence of pairs"""
    out = []
    for st in walk_no_nested(fn):
        if isinstance(st, ast.Assign) and isinstance(st.targets[0], (ast.Tuple, ast.List)):
            v = st.value
            if isinstance(v, ast.Call) and call_name(v) in ("list", "tuple") and v.args:
                v = v.args[0]
            if isinstance(v, ast.Call) and call_name(v) == "zip" and any(isinstance(a, ast.Starred) for a in v.args):
                out.append(st)
    return out


def r20_10(chk):
    chk.rule("R20.10", "zero rows are rows too: the relational operations of Table never unpack `zip(*pairs)` into a fixed number of names -- the transposition of an empty list of pairs is empty, so the unpacking raises for a table without rows where a list of row tuples simply gives the empty result")
    m = chk.repo.module(TABLE)
    ci = m.cls("Table")
    n = 0
    for name in ("cross_join", "inner_join", "joined", "appended", "transposed", "filtered", "sorted", "count_unique", "distinct_values", "get_columns", "with_new_column"):
        fn = ci.methods.get(name)
        if not isinstance(fn, ast.FunctionDef):
            continue
        n += 1
        bad = _unpacked_zip_star(fn)
        chk.decide(not bad, "R20.10", key(m, f"Table.{name}", "no unpacking of zip(*pairs)"), m.loc(bad[0] if bad else fn), "no fixed-arity unpacking of a transposed pair list", f"`{norm(bad[0])[:80] if bad else ''}` fails with 'not enough values to unpack' when there are no pairs, i.e. when a table has no rows")
    probe = ast.parse("def f(a, b):\n    x, y = list(zip(*product(a, b)))\n").body[0]
    if not _unpacked_zip_star(probe):
        raise AnalysisError("R20.10 self-probe failed")
    chk.floor("R20.10", 8, "relational operations of Table")


def try_kind(e):
    return e.value if isinstance(e, ast.Constant) else None


def r20_11(chk):
    chk.rule("R20.11", "the delimited writers of format/table.py write cell text as it is: formatted_array(pad=False) -- the path taken by to_csv / to_tsv / to_string(sep=...) -- returns the cells without any white-space trimming; `strip()` belongs to the padded path only (after the `if not pad: return`), where the text is re-aligned anyway. A trimmed cell ('  indented', a cell holding one blank) does not come back from the delimited round trip")
    from ..cfg import build

    m = chk.repo.module("format/table.py")
    fn = m.func("formatted_array")
    g = build(fn)
    early = [nd for nd in g.nodes if nd.kind == "return" and any(isinstance(i, ast.If) and "pad" in norm(i.test) and any(r is nd.ast for r in ast.walk(i)) for i in walk_no_nested(fn))] if any(nd.kind == "return" for nd in g.nodes) else []
    if not early:
        early = [nd for nd in g.nodes if isinstance(getattr(nd, "ast", None), ast.Return) and any(isinstance(i, ast.If) and "pad" in norm(i.test) and any(r is nd.ast for r in ast.walk(i)) for i in walk_no_nested(fn))]
    if not early:
        raise AnalysisError("formatted_array: the `if not pad: return` exit was not found")
    loops = [lp for lp in walk_no_nested(fn) if isinstance(lp, ast.For) and "series" in norm(lp.iter)]
    if not loops:
        raise AnalysisError("formatted_array: the loop over the series was not found")
    cells = {x.id for x in ast.walk(loops[0].target) if isinstance(x, ast.Name)}
    trims = g.nodes_containing(lambda x: isinstance(x, ast.Call) and isinstance(x.func, ast.Attribute) and x.func.attr in ("strip", "lstrip", "rstrip") and isinstance(x.func.value, ast.Name) and x.func.value.id in cells)
    k = key(m, "formatted_array", "unpadded cells are not trimmed")
    bad = None
    for t in trims:
        seen = g.reachable([t], kinds=("n",))
        if any(id(e) in seen for e in early):
            bad = t
    chk.decide(bad is None, "R20.11", k, m.loc(bad.ast if bad else fn), f"{len(trims)} trim(s) of cell text, none on a path to the pad=False return", f"`{norm(bad.ast)[:60] if bad else ''}` trims the cell text before the `if not pad: return`: to_csv()/to_tsv() write '  indented' as 'indented' and a cell holding one blank as empty")
    chk.floor("R20.11", 1, "formatted_array")


def r20_12(chk):
    chk.rule("R20.12", "a pickle is written through a binary stream on every path: in Table.write no assignment gives `mode` a text-mode constant on a path that the pickle format can take (the compress branch set mode = 'wt' for every format, so write('x.pickle.gz') / write('x.pickle', compress=True) raised TypeError); a text-mode constant is either format-dependent or sits in a branch that excludes pickle")
    m = chk.repo.module("util/table.py")
    fn = m.func("Table.write")
    dumps = [c for c in walk_no_nested(fn) if isinstance(c, ast.Call) and norm(c.func) == "pickle.dump"]
    if not dumps:
        raise AnalysisError("Table.write: pickle.dump not found")
    n = 0
    from .c09 import _enclosing_tests

    for st in walk_no_nested(fn):
        if not (isinstance(st, ast.Assign) and len(st.targets) == 1 and norm(st.targets[0]) == "mode"):
            continue
        n += 1
        v = st.value
        k = key(m, "Table.write", f"`{norm(st)[:50]}` keeps pickle binary")
        if isinstance(v, ast.Constant) and isinstance(v.value, str) and "b" not in v.value:
            tests = _enclosing_tests(fn, st)
            excl = any("format" in t and "pickle" in t and (t.startswith("not (") or "!=" in t) for t in tests) or any("format ==" in t and "pickle" not in t and not t.startswith("not (") for t in tests)
            chk.decide(excl, "R20.12", k, m.loc(st), "in a branch that excludes the pickle format", f"`{norm(st)}` under {tests or 'no condition'} also applies when format == 'pickle': pickle.dump then writes bytes to a text stream (TypeError), so a compressed pickle cannot be written")
        else:
            dep = any(isinstance(x, ast.Name) and x.id == "format" for x in ast.walk(v)) or any(isinstance(x, ast.Name) and x.id == "mode" for x in ast.walk(v))
            chk.decide(dep or not isinstance(v, ast.Constant), "R20.12", k, m.loc(st), "format-dependent (or the caller's) mode", "mode constant")
    chk.floor("R20.12", 2, "the default and the compress-branch assignment of mode")


def r20_13(chk):
    chk.rule("R20.13", "one column name is one column: every method of util/table.py that walks its `columns` parameter element by element first turns a lone name into a one-element list (an isinstance / type test on `columns` naming str before the walk) -- take_columns, sum_columns and to_categorical do; a method that does not iterates the characters of the name (get_columns('bc') on an indexed table raised KeyError 'b')")
    m = chk.repo.module("util/table.py")
    n = 0
    for q, fn in m.all_functions():
        if "columns" not in params_of(fn) or q.split(".")[-1].startswith("_"):
            continue  # public methods only: their `columns` is documented as a name or a series of names
        iters = [x for x in walk_no_nested(fn) if isinstance(x, (ast.For, ast.comprehension)) and isinstance(x.iter, ast.Name) and x.iter.id == "columns"]
        if not iters:
            continue
        first = min(getattr(i, "lineno", None) or i.iter.lineno for i in iters)
        tests = [c for c in walk_no_nested(fn) if isinstance(c, ast.Call) and ((norm(c.func) == "isinstance" and c.args and norm(c.args[0]) == "columns" and "str" in norm(c.args[1])) or (norm(c.func) == "type" and c.args and norm(c.args[0]) == "columns")) and c.lineno <= first]
        n += 1
        chk.decide(bool(tests), "R20.13", key(m, q, "a lone column name is wrapped before the walk"), m.loc(iters[0].iter), f"`{norm(tests[0])[:40]}` precedes the walk" if tests else "", f"{q} walks `columns` (line {first}) without a str test: a single name given as a string is taken apart into characters -- make_table(header=['a','bc'], data=[[1,2]], index_name='a').get_columns('bc') raises KeyError: 'b'")
    chk.floor("R20.13", 4, "take_columns, get_columns, sum_columns, to_categorical")


def r20_14(chk):
    chk.rule("R20.14", "whether a column is numeric is decided on ALL its cells: cast_str_to_numeric tries the conversions on the whole array and leaves the column as text only when they fail -- no early exit on a look at one cell (`values[0]`): 'nan', 'inf', 'Infinity' start with a letter and are numbers, so a float column whose FIRST row is missing would come back from a delimited file as text")
    m = chk.repo.module("util/table.py")
    fn = m.func("cast_str_to_numeric")
    p0 = params_of(fn)[0]
    bad = None
    for iff in walk_no_nested(fn):
        if isinstance(iff, ast.If) and any(isinstance(x, ast.Return) for x in iff.body):
            # a look at the CONTENT of one cell (a string method, a slice of it, a comparison); an isinstance() test of
            # its type -- are these strings at all? -- is not a decision about the column's values
            cells = [x for x in ast.walk(iff.test) if isinstance(x, ast.Subscript) and norm(x.value) == p0 and isinstance(x.slice, (ast.Constant, ast.UnaryOp))]
            typed_only = [c for c in cells if any(isinstance(call, ast.Call) and norm(call.func) == "isinstance" and call.args and call.args[0] is c for call in ast.walk(iff.test))]
            if [c for c in cells if c not in typed_only]:
                bad = iff
    casts = [c for c in walk_no_nested(fn) if isinstance(c, ast.Call) and isinstance(c.func, ast.Attribute) and c.func.attr == "astype"]
    chk.decide(bad is None and bool(casts), "R20.14", key(m, "cast_str_to_numeric", "no decision on a single cell"), m.loc(bad if bad is not None else fn), "the conversions run on the whole array", f"`if {norm(bad.test)[:70] if bad is not None else ''}: return ...` decides for the whole column from one cell: a float column whose first cell is 'nan' / 'inf' is returned as text")
    chk.floor("R20.14", 1, "cast_str_to_numeric")


def r20_15(chk):
    chk.rule("R20.15", "row-wise callbacks see exactly the columns asked for: wherever Table evaluates `_callback(callback, row=row, num_columns=N)` over the rows of a sub-table, N is len(<cols>) and the sub-table is `self[:, <cols>]` (or get_columns(<cols>, with_index=False)) for the SAME <cols> -- get_columns(<cols>) silently prepends the index column when index_name is set, so the callback of with_new_column / filtered / count would get (index, a, b) for columns=[a, b], and a one-column callback a sequence instead of the cell")
    m = chk.repo.module(TABLE)
    ci = m.cls("Table")
    n = 0
    for name, fn in ci.methods.items():
        if not isinstance(fn, ast.FunctionDef):
            continue
        cbs = [c for c in ast.walk(fn) if isinstance(c, ast.Call) and call_name(c) == "_callback" and any(kw.arg == "num_columns" for kw in c.keywords)]
        if not cbs:
            continue
        n += 1
        c = cbs[0]
        q = f"Table.{name}"
        k = key(m, q, "callback rows come from the requested columns only")
        assigns = {}
        for st in walk_no_nested(fn):
            if isinstance(st, ast.Assign) and len(st.targets) == 1 and isinstance(st.targets[0], ast.Name):
                assigns.setdefault(st.targets[0].id, []).append(st.value)

        def last(nm):
            v = assigns.get(nm)
            return v[-1] if v else None

        ncol = next(kw.value for kw in c.keywords if kw.arg == "num_columns")
        if isinstance(ncol, ast.Name):
            ncol = last(ncol.id) or ncol
        cols = norm(ncol.args[0]) if isinstance(ncol, ast.Call) and call_name(ncol) == "len" and ncol.args else None
        # the iterable of the comprehension / loop whose element is passed as row=
        rowarg = next((kw.value for kw in c.keywords if kw.arg == "row"), None)
        src = None
        for x in ast.walk(fn):
            if isinstance(x, (ast.ListComp, ast.GeneratorExp)) and any(c is y for y in ast.walk(x.elt)):
                src = x.generators[0].iter
            if isinstance(x, ast.For) and any(c is y for st in x.body for y in ast.walk(st)):
                src = x.iter
        # follow local names back to the sub-table expression
        seen = 0
        subs = []
        work = [src] if src is not None else []
        while work and seen < 20:
            e = work.pop()
            seen += 1
            if isinstance(e, ast.Name) and e.id in assigns:
                work.extend(assigns[e.id][-1:])
            elif isinstance(e, ast.IfExp):
                work.extend([e.body, e.orelse])
            elif isinstance(e, ast.Attribute) and e.attr in ("array", "columns"):
                work.append(e.value)
            elif isinstance(e, ast.Call) and isinstance(e.func, ast.Attribute) and e.func.attr in ("tolist", "to_list"):
                work.append(e.func.value)
            else:
                subs.append(e)
        if cols is None or not subs:
            chk.unresolved("R20.15", k, m.loc(c), f"num_columns / row source not recognised (num_columns={norm(ncol)})")
            continue
        bad = None
        for e in subs:
            if isinstance(e, ast.Subscript) and norm(e.value) == "self" and isinstance(e.slice, ast.Tuple) and len(e.slice.elts) == 2 and isinstance(e.slice.elts[0], ast.Slice) and norm(e.slice.elts[1]) == cols:
                continue
            if isinstance(e, ast.Call) and norm(e.func) == "self.get_columns" and e.args and norm(e.args[0]) == cols and any(kw.arg == "with_index" and isinstance(kw.value, ast.Constant) and kw.value.value is False for kw in e.keywords):
                continue
            bad = e
        chk.decide(bad is None, "R20.15", k, m.loc(bad if bad is not None else c), f"rows of self[:, {cols}], num_columns=len({cols})", f"the callback is told it gets len({cols}) cells but its rows come from `{norm(bad) if bad is not None else ''}`: with index_name set the index column is prepended (or other columns are seen), so callback(row) is evaluated on the wrong cells")
    chk.floor("R20.15", 2, "get_row_indices and with_new_column")


def run(chk):
    r20_15(chk)
    r20_14(chk)
    r20_13(chk)
    r20_12(chk)
    r20_11(chk)
    r20_10(chk)
    r20_9(chk)
    r20_7(chk)
    r20_8(chk)
    r20_6(chk)
    r20_1(chk)
    r20_2(chk)
    r20_3(chk)
    r20_4(chk)
    r20_5(chk)
    chk.assume("csv.reader(dialect='excel') semantics: minimal quoting, doubled quotes, quoted fields may contain separators and line breaks")
