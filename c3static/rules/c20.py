"""C20 -- tables follow the list-of-rows model and survive delimited round-trips.

Relational semantics are not decided.  Decided:
R20.1 delimited writers speak the reader's dialect (csv.reader, dialect="excel")
R20.2 the listed table operations do not mutate the table they are called on (L5)
R20.3 every self.<method>() call on the write paths resolves in the class's MRO
"""

from __future__ import annotations

import ast

from .. import effects as E
from ..index import AnalysisError, call_name, norm, params_of, walk_no_nested
from ..report import key

TABLE = "util/table.py"
FMT = "format/table.py"

PURE_OPS = [
    "sorted", "filtered", "filtered_by_column", "joined", "inner_join", "cross_join", "appended", "transposed", "get_columns",
    "with_new_column", "with_new_header", "count", "count_unique", "distinct_values", "to_list", "to_dict", "to_rich_dict", "to_json",
    "to_csv", "to_tsv", "to_markdown", "to_rst", "to_latex", "to_dataframe", "get_row_indices", "normalized", "summed", "__getitem__",
]


def _suffix_sep_table(fn):
    """{format name: separator} from `if format == "csv": sep = sep or ","` chains"""
    out = {}
    for i in walk_no_nested(fn):
        if isinstance(i, ast.If) and isinstance(i.test, ast.Compare) and isinstance(i.test.ops[0], ast.Eq) and isinstance(i.test.comparators[0], ast.Constant):
            fmt = i.test.comparators[0].value
            for st in i.body:
                if isinstance(st, ast.Assign) and norm(st.targets[0]) == "sep" and isinstance(st.value, ast.BoolOp) and isinstance(st.value.values[-1], ast.Constant):
                    out[fmt] = st.value.values[-1].value
    return out


def r20_1(chk):
    chk.rule("R20.1", "reader: csv.reader(dialect='excel', delimiter=sep). Every delimited writer either uses csv.writer with that dialect (default quoting, quotechar, doublequote) and the same suffix->separator table as load_table, or, if hand-rolled, quotes a field on {sep, '\"', '\\n', '\\r'}, doubles embedded quotes and treats the header like the rows")
    pm = chk.repo.module("parse/table.py")
    ld = pm.func("load_delimited")
    readers = [c for c in walk_no_nested(ld) if isinstance(c, ast.Call) and norm(c.func) == "csv.reader"]
    if not readers:
        raise AnalysisError("load_delimited: csv.reader call not found")
    rk = {kw.arg: norm(kw.value) for kw in readers[0].keywords}
    chk.decide(rk.get("dialect") == "'excel'" and rk.get("delimiter") == "sep" and set(rk) <= {"dialect", "delimiter"}, "R20.1", key(pm, "load_delimited", "reader dialect"), pm.loc(readers[0]), "csv.reader(f, dialect='excel', delimiter=sep)", f"reader parameters changed: {rk}")
    tm = chk.repo.module(TABLE)
    w = tm.func("Table.write")
    writers = [c for c in walk_no_nested(w) if isinstance(c, ast.Call) and norm(c.func) == "csv.writer"]
    if not writers:
        chk.violation("R20.1", key(tm, "Table.write", "csv.writer"), tm.loc(w), "the delimited branch of Table.write no longer uses csv.writer")
    else:
        wk = {kw.arg: norm(kw.value) for kw in writers[0].keywords}
        bad = {k: v for k, v in wk.items() if k in ("quoting", "quotechar", "doublequote", "escapechar", "dialect") and v not in ("'excel'", "csv.QUOTE_MINIMAL", "'\"'", "True")}
        chk.decide(wk.get("delimiter") == "sep" and not bad and wk.get("lineterminator") in ("'\\n'", None), "R20.1", key(tm, "Table.write", "csv.writer dialect"), tm.loc(writers[0]), f"csv.writer({wk})", f"writer dialect {wk} is not what csv.reader(dialect='excel') reads back")
        rows = [c for c in walk_no_nested(w) if isinstance(c, ast.Call) and isinstance(c.func, ast.Attribute) and c.func.attr in ("writerow", "writerows")]
        hdr = any(norm(c) == "writer.writerow(self.header)" for c in rows)
        body = any(c.func.attr == "writerows" for c in rows)
        chk.decide(hdr and body, "R20.1", key(tm, "Table.write", "header and rows through the same writer"), tm.loc(w), "header and rows written by the same csv.writer", "header or rows bypass the csv writer")
    im = chk.repo.module("__init__.py")
    lt = im.func("load_table")
    wt, rt = _suffix_sep_table(w), _suffix_sep_table(lt)
    chk.decide(bool(wt) and wt == rt, "R20.1", key(tm, "Table.write", "suffix -> separator table"), tm.loc(w), f"writer and reader agree: {wt}", f"Table.write maps {wt} but load_table maps {rt}")
    # hand-rolled writer
    fm = chk.repo.module(FMT)
    sf = fm.func("separator_format")
    inner = [f for f in ast.walk(sf) if isinstance(f, ast.FunctionDef) and f is not sf]
    scope = inner[0] if inner else sf
    tests = [i for i in ast.walk(scope) if isinstance(i, ast.If)]
    cond = " ".join(norm(i.test) for i in tests)
    need = {"sep in": "the separator", "'\"' in": "a double quote", "'\\n' in": "a line feed", "'\\r' in": "a carriage return"}
    missing = [what for pat, what in need.items() if pat not in cond]
    doubles = any(isinstance(c, ast.Call) and isinstance(c.func, ast.Attribute) and c.func.attr == "replace" and [getattr(a, "value", None) for a in c.args] == ['"', '""'] for c in ast.walk(scope))
    chk.decide(not missing, "R20.1", key(fm, "separator_format", "quotes every special field"), fm.loc(scope), "fields containing the separator, a quote, LF or CR are quoted", f"a field containing {', '.join(missing)} is written bare: csv.reader splits or mis-reads it")
    chk.decide(doubles, "R20.1", key(fm, "separator_format", "doubles embedded quotes"), fm.loc(scope), "embedded quotes are doubled", "embedded double quotes are not doubled inside a quoted field")
    # header through the same quoting as rows
    hdr_joins = [c for c in walk_no_nested(sf) if isinstance(c, ast.Call) and isinstance(c.func, ast.Attribute) and c.func.attr == "join" and norm(c.func.value) == "sep"]
    qname = inner[0].name if inner else None
    hdr_ok = bool(hdr_joins) and all((qname and qname + "(" in norm(c)) or not inner for c in hdr_joins) and any("header" in norm(c) for c in hdr_joins)
    if not inner:
        # quoting done in place on rows: the header must be processed by the same code
        hdr_ok = False
    chk.decide(hdr_ok, "R20.1", key(fm, "separator_format", "header quoted like rows"), fm.loc(sf), "header and rows go through the same quoting function", "the header is joined without the quoting applied to the rows: a column name containing the separator shifts every column")
    # who calls separator_format gets sep from the same table
    chk.floor("R20.1", 7, "reader, csv writer (3), hand-rolled writer (3)")


class TableFamily(E.Family):
    name = "table"
    self_kind = "TABLE"
    attr_kinds = {
        "header": ("LIST", ("STR",)),
        "columns": ("COLUMNS",),
        "title": ("STR",),
        "legend": ("STR",),
        "shape": ("SCALAR",),
        "index_name": ("STR",),
        "_column_templates": ("DICT",),
        "_repr_policy": ("DICT",),
    }
    allowed_attrs = {"_repr_policy": "display policy only"}
    # property getters that lazily finish construction (idempotent): their writes are not model state changes
    memo_properties = {"index_name": "deferred initialisation of the row-index template from the constructor's index_name; idempotent, commented as such in Table.__getitem__"}
    param_kinds = {"other": ("TABLE",), "other_table": ("TABLE",)}

    def is_ctor_expr(self, interp, e):
        if isinstance(e, ast.Name) and e.id in ("Table",) and e.id not in interp.env:
            return "TABLE"
        return None

    def special_attr_store(self, interp, owner, attr, val, node):
        if self.self_kind in owner.kinds:
            tgt = interp.engine.property_setter(interp.owner, attr)
            if tgt is not None:
                interp.apply_summary(tgt, owner, [val], {}, node, f"{norm(node)} = ... (property setter)")
                return True
        return False


def r20_2(chk):
    chk.rule("R20.2", "none of the listed table operations mutates the table it is called on (L5): no store to a column, header or attribute, no container mutation, no property setter whose target lies exactly in the receiver's region; allow-listed: _repr_policy (display only)")
    m = chk.repo.module(TABLE)
    ci = m.cls("Table")
    fam = TableFamily(chk.repo, [ci], m)
    eng = E.Engine(fam)
    roots, names = [], []
    for name in PURE_OPS:
        r = ci.resolve(name)
        if r is None or not isinstance(r[1], (ast.FunctionDef, ast.AsyncFunctionDef)):
            continue
        roots.append((r[0], r[1], True))
        names.append((name, r))
    eng.analyse(roots)
    for name, (owner, fn) in names:
        summ = eng.summaries[(id(fn), owner.fq)]
        q = f"{owner.name}.{name}"
        if E.SELF in summ.mut:
            what, line, chain = summ.mut[E.SELF]
            via = " -> ".join(f"{c[0]} (L{c[1]})" for c in chain)
            chk.violation("R20.2", key(m, q, f"mutates receiver: {what}"), f"{m.rel}:{line}", f"`{what}` changes the table {name}() was called on" + (f" (reached via {via})" if via else "") + ": the same operation on a plain list of row tuples leaves the list alone")
        else:
            chk.ok("R20.2", key(m, q, "receiver untouched"), m.loc(fn), f"no definite receiver mutation (unresolved calls: {summ.unresolved})")
    chk.floor("R20.2", 18, "the design's 18 operations")


WRITE_PATHS = [
    ("util/table.py", "Table", "write"),
    ("util/table.py", "Table", "to_string"),
    ("util/table.py", "Table", "to_csv"),
    ("util/table.py", "Table", "to_tsv"),
    ("util/dict_array.py", "DictArray", "write"),
    ("core/tree.py", "TreeNode", "write"),
    ("core/alignment.py", "_SequenceCollectionBase", "write"),
    ("core/new_alignment.py", "SequenceCollection", "write"),
]


def _dynamic_attrs(ci):
    """names a class may get dynamically: __getattr__ defined, or setattr in __init__"""
    return any("__getattr__" in c.methods for c in ci.mro())


def r20_3(chk):
    chk.rule("R20.3", "every `self.<name>(...)` call on a write path resolves to a method, property or attribute assigned somewhere in the class's MRO (an unresolvable name raises AttributeError only when that option is used, which no test does)")
    for rel, cname, meth in WRITE_PATHS:
        m = chk.repo.module(rel)
        ci = m.cls(cname)
        r = ci.resolve(meth)
        if r is None or not isinstance(r[1], ast.FunctionDef):
            raise AnalysisError(f"{rel}::{cname}.{meth} not found")
        fn = r[1]
        # names visible on instances: methods, properties, class assigns, and self.<x> = ... anywhere in the MRO
        visible = set()
        for c in ci.mro():
            visible |= set(c.methods) | set(c.properties) | set(c.assigns) | set(c.aliases)
            for f in c.methods.values():
                if isinstance(f, ast.FunctionDef):
                    for n in ast.walk(f):
                        if isinstance(n, ast.Attribute) and isinstance(n.ctx, ast.Store) and isinstance(n.value, ast.Name) and n.value.id == "self":
                            visible.add(n.attr)
        dyn = _dynamic_attrs(ci) or ci.has_external_base()
        calls = [c for c in walk_no_nested(fn) if isinstance(c, ast.Call) and isinstance(c.func, ast.Attribute) and isinstance(c.func.value, ast.Name) and c.func.value.id == "self"]
        for c in calls:
            name = c.func.attr
            k = key(m, f"{cname}.{meth}", f"self.{name}()")
            if name in visible:
                chk.ok("R20.3", k, m.loc(c), f"self.{name} resolves")
            elif dyn:
                chk.unresolved("R20.3", k, m.loc(c), "class has __getattr__ / an external base: cannot decide")
            else:
                chk.violation("R20.3", k, m.loc(c), f"`self.{name}(...)` does not exist on {cname} or its bases: this branch of {meth}() always raises AttributeError")
    chk.floor("R20.3", 10, "self-calls on 8 write paths")
    if chk.tier == "thorough":
        # package-wide cross-reference (advisories only)
        for ci in chk.repo.all_classes():
            try:
                mro = ci.mro()
            except AnalysisError:
                continue
            if ci.has_external_base() or any("__getattr__" in c.methods for c in mro) or any(b is None for c in mro for b in c.base_infos()):
                continue
            subs = chk.repo.subclasses_of(ci)
            if subs:
                continue  # mix-ins / bases are checked through their concrete subclasses
            visible = set()
            for c in mro:
                visible |= set(c.methods) | set(c.properties) | set(c.assigns) | set(c.aliases)
                for f in c.methods.values():
                    if isinstance(f, ast.FunctionDef):
                        for n in ast.walk(f):
                            if isinstance(n, ast.Attribute) and isinstance(n.ctx, ast.Store) and isinstance(n.value, ast.Name) and n.value.id == "self":
                                visible.add(n.attr)
            for c in mro:
                for mname, f in c.methods.items():
                    if not isinstance(f, ast.FunctionDef):
                        continue
                    for call in walk_no_nested(f):
                        if isinstance(call, ast.Call) and isinstance(call.func, ast.Attribute) and isinstance(call.func.value, ast.Name) and call.func.value.id == "self" and call.func.attr not in visible and not call.func.attr.startswith("__"):
                            chk.advisory("R20.3", key(c.module, f"{c.name}.{mname}", f"self.{call.func.attr}() [{ci.name}]"), c.module.loc(call), "self-call that resolves nowhere in the MRO (package-wide sweep)")


def run(chk):
    r20_1(chk)
    r20_2(chk)
    r20_3(chk)
    chk.assume("csv.reader(dialect='excel') semantics: minimal quoting, doubled quotes, quoted fields may contain separators and line breaks")
