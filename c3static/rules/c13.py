"""C13 -- data stores hold exactly what was written, record by record.

R13.1 a mode check dominates every file-system mutation reachable from a public
      method of DataStoreDirectory (self-calls inlined to depth 3); the SQLite store
      selects a read-only handle when the mode is READONLY.
R13.2 identifier matching is exact or anchored (taint from identifier parameters).
R13.3 a completed write retires the not-completed record of the same identifier.
R13.4 sibling SQL statements of DataStoreSqlite._write persist the same facts.
R13.5 _check_writable refuses READONLY writes and APPEND overwrites.

Added in build round 2 (see DESIGN.md section 3, round-2 table):
R13.6 a write that is not refused reaches the storage: in the _write of each store every normal path from entry to exit passes the storage effect (the file ...
R13.7 within one public write of DataStoreDirectory no helper that unlinks files of a store table (md5, not_completed, log) runs after a helper that wrote ...
R13.8 DataStoreSqlite keeps two member lists over one table whose rows can change class (the UPDATE branch rewrites is_completed): each public record write ...
R13.9 one checksum per record: in DataStoreDirectory._write the checksum file's path depends on every parameter the data file's path depends on (the table ...

Added later in build rounds 2-3 (see DESIGN.md section 3, round-2/3 table):
R13.10 the member lists of a store are lazy caches (filled from the directory / table the first time they are asked for, and only while empty): a write ...
"""

from __future__ import annotations

import ast
import re

from ..cfg import build, own_exprs
from ..defuse import derived_names, expr_derives
from ..index import AnalysisError, call_name, norm, params_of, walk_no_nested
from ..literals import all_strings
from ..report import key
from .. import tables as T

DS = "app/data_store.py"
SQ = "app/sqlite_data_store.py"

MUTATORS = {"unlink", "rmdir", "mkdir", "rename", "replace", "write_text", "write_bytes", "rmtree", "remove", "touch"}


def _is_mutation(c):
    if not isinstance(c, ast.Call):
        return False
    f = c.func
    name = f.attr if isinstance(f, ast.Attribute) else f.id if isinstance(f, ast.Name) else None
    if name in MUTATORS and isinstance(f, ast.Attribute):
        # str.replace(a, b) is not a file-system mutation: Path.replace/rename take one argument
        if name in ("replace", "rename") and len(c.args) != 1:
            return False
        if name == "remove" and not (isinstance(f.value, ast.Name) and f.value.id == "os"):
            return False  # list.remove
        return True
    if name in ("open", "open_"):
        mode = c.args[1] if len(c.args) > 1 else next((kw.value for kw in c.keywords if kw.arg == "mode"), None)
        if mode is None:
            return False
        if isinstance(mode, ast.Constant):
            return isinstance(mode.value, str) and any(ch in mode.value for ch in "wax+")
        return True  # a computed mode: conservatively a write (DataStoreDirectory._write computes "w"/"wt")
    return False


def _is_readonly_guard_if(n):
    """`if <x>.mode is READONLY: raise/return` (or `mode is READONLY`)"""
    if n.kind != "if":
        return False
    t = n.ast.test
    txt = norm(t)
    if not re.fullmatch(r"(self\.)?_?mode is READONLY", txt):
        return False
    return T._always_exits(n.ast.body)


class Guards:
    """which self-methods check the mode on every normal path (fix-point, depth 3)"""

    def __init__(self, chk, ci):
        self.chk, self.ci = chk, ci
        self.memo = {}

    def resolve_self_call(self, c, cls=None):
        """(owner ClassInfo, fn) for self.m(...) / super().m(...)"""
        cls = cls or self.ci
        f = c.func
        if not isinstance(f, ast.Attribute):
            return None
        if isinstance(f.value, ast.Name) and f.value.id == "self":
            r = self.ci.resolve(f.attr)
        elif isinstance(f.value, ast.Call) and call_name(f.value) == "super":
            r = None
            mro = self.ci.mro()
            if cls in mro:
                for base in mro[mro.index(cls) + 1 :]:
                    if f.attr in base.methods:
                        r = (base, base.methods[f.attr])
                        break
        else:
            return None
        if r and isinstance(r[1], (ast.FunctionDef, ast.AsyncFunctionDef)):
            return r
        return None

    def guard_nodes(self, g, owner, depth):
        out = [n for n in g.nodes if _is_readonly_guard_if(n)]
        if depth > 0:
            for n in g.nodes:
                for e in own_exprs(n):
                    for c in ast.walk(e):
                        if isinstance(c, ast.Call):
                            r = self.resolve_self_call(c, owner)
                            if r and self.checks_mode(r[0], r[1], depth - 1):
                                out.append(n)
        return out

    def checks_mode(self, owner, fn, depth=3):
        k = (id(fn), depth)
        if k in self.memo:
            return self.memo[k]
        self.memo[k] = False
        g = build(fn)
        guards = self.guard_nodes(g, owner, depth)
        seen = g.reachable([g.entry], blocked=guards, kinds=("n",))
        res = bool(guards) and id(g.exit) not in seen
        self.memo[k] = res
        return res


def _unguarded(gd, owner, fn, depth, q):
    """mutation sites in fn (and, inlined, in self-methods it calls) that are not
    dominated by a mode check inside fn: [(chain, call)]"""
    g = build(fn)
    guards = gd.guard_nodes(g, owner, 3)
    out = []
    for n in g.nodes:
        for e in own_exprs(n):
            for c in ast.walk(e):
                if not isinstance(c, ast.Call):
                    continue
                inner = []
                if _is_mutation(c):
                    inner = [([], c)]
                elif depth > 0:
                    r = gd.resolve_self_call(c, owner)
                    if r and not gd.checks_mode(r[0], r[1]):
                        sub_q = f"{r[0].name}.{r[1].name}"
                        inner = [([sub_q] + ch, cc) for ch, cc in _unguarded(gd, r[0], r[1], depth - 1, sub_q)]
                    elif r:
                        # callee checks the mode on every path, but a mutation inside it may precede its check
                        sub_q = f"{r[0].name}.{r[1].name}"
                        inner = [([sub_q] + ch, cc) for ch, cc in _unguarded(gd, r[0], r[1], depth - 1, sub_q)]
                if not inner:
                    continue
                ok, path = g.dominated_by(n, guards)
                if not ok:
                    out.extend(inner)
    return out


def r13_1(chk):
    chk.rule("R13.1", "in DataStoreDirectory every file-system mutation reachable from a public method (self-calls inlined, depth 3) is dominated by a mode check (`_check_writable`, a base-class write that calls it, or `if mode is READONLY: raise/return`); DataStoreSqlite opens a read-only handle when the mode is READONLY")
    m = chk.repo.module(DS)
    ci = m.cls("DataStoreDirectory")
    gd = Guards(chk, ci)
    n_mut = 0
    for name, fn in ci.methods.items():
        if name.startswith("_") and name != "__init__":
            continue
        if name in ci.properties:
            # read-only views; their caches are not file-system state
            pass
        q = f"DataStoreDirectory.{name}"
        # count mutation sites for the evidence
        has = [c for c in ast.walk(fn) if _is_mutation(c)]
        bad = _unguarded(gd, ci, fn, 3, q)
        n_mut += len(has)
        if bad:
            seen = set()
            for chain, c in bad:
                k = key(m, q, "unguarded " + " > ".join(chain + [norm(c)]))
                if k in seen:
                    continue
                seen.add(k)
                chk.violation("R13.1", k, m.loc(c), f"`{norm(c)}`" + (f" (via {' > '.join(chain)})" if chain else "") + " is reachable without a preceding mode check: a READONLY store is mutated")
        else:
            reach = bool(has) or any(isinstance(c, ast.Call) and gd.resolve_self_call(c, ci) for c in ast.walk(fn))
            chk.ok("R13.1", key(m, q, "mutations guarded"), m.loc(fn), f"{len(has)} direct mutation site(s), all dominated by a mode check", nontrivial=reach)
    # guards that test a *parameter* named mode are only as good as what the callers pass: the normalised Mode
    for name, fn in ci.methods.items():
        if not isinstance(fn, ast.FunctionDef):
            continue
        for c in walk_no_nested(fn):
            if isinstance(c, ast.Call) and isinstance(c.func, ast.Attribute) and norm(c.func.value) == "self" and isinstance(ci.methods.get(c.func.attr), ast.FunctionDef):
                callee = ci.methods[c.func.attr]
                cps = [p for p in params_of(callee) if p != "self"]
                if "mode" not in cps or not any(isinstance(i, ast.If) and norm(i.test) == "mode is READONLY" and T._always_exits(i.body) for i in walk_no_nested(callee)):
                    continue
                idx = cps.index("mode")
                arg = c.args[idx] if idx < len(c.args) else next((kw.value for kw in c.keywords if kw.arg == "mode"), None)
                good = arg is not None and (norm(arg) in ("self._mode", "self.mode") or (isinstance(arg, ast.Call) and call_name(arg) == "Mode"))
                chk.decide(good, "R13.1", key(m, f"DataStoreDirectory.{name}", f"{c.func.attr}() given the normalised mode"), m.loc(c), f"passes {norm(arg) if arg is not None else None}", f"`{norm(c)}` passes the caller's raw mode argument to a helper that tests `mode is READONLY`: for mode='r' (a string) the identity test is false and a read-only store creates its directories")
    chk.floor("R13.1", 8, "public methods of DataStoreDirectory")
    # sqlite: typed handle
    s = chk.repo.module(SQ)
    dbp = s.cls("DataStoreSqlite").properties.get("db", {}).get("get")
    if dbp is None:
        raise AnalysisError("DataStoreSqlite.db property not found")
    sel = [n for n in walk_no_nested(dbp) if isinstance(n, ast.IfExp) and norm(n.test) == "self.mode is READONLY" and norm(n.body) == "open_sqlite_db_ro" and norm(n.orelse) == "open_sqlite_db_rw"]
    chk.decide(bool(sel), "R13.1", key(s, "DataStoreSqlite.db", "read-only handle"), s.loc(dbp), "open_sqlite_db_ro when mode is READONLY", "the db property no longer selects the read-only opener for READONLY mode")
    ro = s.func("open_sqlite_db_ro")
    uri = [sv for _, sv in all_strings(ro) if "mode=ro" in sv]
    chk.decide(bool(uri), "R13.1", key(s, "open_sqlite_db_ro", "mode=ro"), s.loc(ro), "connects with ?mode=ro", "read-only opener no longer uses mode=ro")


ID_PARAMS = {"unique_id", "identifier", "item"}


def base_membership(chk, rule):
    """the base-class membership test must stay one equality on the full identifier (used by R13.2 and, for the
    resume clause of apply_to, by R19.5)"""
    # the base-class membership test states the exact-match belief: it must stay one equality on the full identifier
    bm = chk.repo.module(DS)
    cf = bm.func("DataStoreABC.__contains__")
    idp = [p for p in params_of(cf) if p != "self"][0]
    rets = [r for r in walk_no_nested(cf) if isinstance(r, ast.Return) and r.value is not None]
    cmps = [c for r in rets for c in ast.walk(r.value) if isinstance(c, ast.Compare)]
    idnames = derived_names(cf, {idp})
    exact = len(cmps) == 1 and isinstance(cmps[0].ops[0], ast.Eq) and norm(cmps[0].left).endswith(".unique_id") and isinstance(cmps[0].comparators[0], ast.Name) and cmps[0].comparators[0].id in idnames and not any(isinstance(b, ast.BoolOp) for r in rets for b in ast.walk(r.value))
    chk.decide(exact, rule, key(bm, "DataStoreABC.__contains__", "membership is one exact comparison"), bm.loc(cf), "any(m.unique_id == identifier for m in self)", f"membership is decided by {[norm(c) for c in cmps]}: an identifier also 'is in' the store when only a differently located record (e.g. not_completed/<name>) matches, so append-mode writes of it are refused and a resumed run stops")


def r13_2(chk):
    chk.rule("R13.2", "identifier matching is exact or anchored: no `<x>.endswith/startswith(<identifier>)`, no `<non-constant> in <identifier>`, no `<identifier>.replace(<non-constant>, ...)`, no `Path(<identifier>).stem` (unanchored edits/matches change or hit other records)")
    n = 0
    for rel, classes in ((DS, ("DataStoreABC", "DataStoreDirectory", "ReadOnlyDataStoreZipped")), (SQ, ("DataStoreSqlite",))):
        m = chk.repo.module(rel)
        for cname in classes:
            ci = m.cls(cname)
            for name, fn in ci.methods.items():
                q = f"{cname}.{name}"
                seeds = set(p for p in params_of(fn) if p in ID_PARAMS)
                idn = derived_names(fn, seeds)
                # m.unique_id of a loop variable is an identifier too
                is_id = lambda e: expr_derives(e, idn) or any(isinstance(x, ast.Attribute) and x.attr == "unique_id" for x in ast.walk(e))  # noqa: E731
                const = lambda e: isinstance(e, ast.Constant) or (isinstance(e, ast.Name) and e.id.isupper()) or (isinstance(e, ast.Name) and e.id.startswith("_") and e.id[1:].isupper())  # noqa: E731
                hits = 0
                for c in walk_no_nested(fn):
                    bad = None
                    if isinstance(c, ast.Call) and isinstance(c.func, ast.Attribute):
                        a = c.func.attr
                        if a == "endswith" and c.args and is_id(c.func.value) and any(isinstance(x, ast.Attribute) and x.attr == "suffix" for x in ast.walk(c.args[0])) and not (isinstance(c.args[0], ast.JoinedStr) and c.args[0].values and isinstance(c.args[0].values[0], ast.Constant) and str(c.args[0].values[0].value).startswith(".")) and not (isinstance(c.args[0], ast.BinOp) and isinstance(c.args[0].left, ast.Constant) and str(c.args[0].left.value).startswith(".")):
                            bad = f"`{norm(c)}` tests for the store's suffix without the dot that separates it from the name: an identifier whose last letters spell the suffix ('lfa' for suffix 'fa') is taken to carry it already, so membership and the append-mode overwrite check look for the wrong record"
                        elif a in ("endswith", "startswith") and c.args and is_id(c.args[0]) and not const(c.args[0]):
                            bad = f"`{norm(c)}` matches an identifier as a {'suffix' if a == 'endswith' else 'prefix'} of another: records whose id merely ends/starts with it are hit too"
                        elif a == "replace" and len(c.args) == 2 and is_id(c.func.value) and not const(c.args[0]) and not isinstance(c.func.value, ast.Call):
                            bad = f"`{norm(c)}` edits every occurrence of a run-time fragment inside the identifier, not only the trailing suffix"
                    elif isinstance(c, ast.Attribute) and c.attr == "stem" and isinstance(c.value, ast.Call) and (call_name(c.value) or "").split(".")[-1] == "Path" and c.value.args and expr_derives(c.value.args[0], idn) and isinstance(c.ctx, ast.Load):
                        bad = f"`{norm(c)}` drops the last dotted component of the caller's identifier, whatever it is (not a known format suffix): identifiers that differ only after their last dot are stored under one name"
                    elif isinstance(c, ast.Compare) and len(c.ops) == 1 and isinstance(c.ops[0], (ast.In, ast.NotIn)):
                        right = c.comparators[0]
                        if is_id(right) and isinstance(right, ast.Name) and not const(c.left) and right.id in idn:
                            bad = f"`{norm(c)}` is substring containment in an identifier, not a suffix test"
                    if bad:
                        hits += 1
                        chk.violation("R13.2", key(m, q, norm(c)), m.loc(c), bad)
                if seeds or hits:
                    n += 1
                    if not hits:
                        chk.ok("R13.2", key(m, q, "identifier ops"), m.loc(fn), "only exact / anchored identifier operations")
    base_membership(chk, "R13.2")
    override_membership(chk, "R13.2")
    chk.floor("R13.2", 10, "methods taking an identifier in the two store modules")
    probe = ast.parse("def f(self, unique_id):\n    for m in self:\n        if m.unique_id.endswith(unique_id): pass\n").body[0]
    idn = derived_names(probe, {"unique_id"})
    if not any(isinstance(c, ast.Call) and c.func.attr == "endswith" and expr_derives(c.args[0], idn) for c in ast.walk(probe) if isinstance(c, ast.Call) and isinstance(c.func, ast.Attribute)):
        raise AnalysisError("R13.2 self-probe failed")


def r13_3(chk):
    chk.rule("R13.3", "write() of each store calls drop_not_completed(unique_id=<the same identifier>) on every normal path")
    for rel, cname in ((DS, "DataStoreDirectory"), (SQ, "DataStoreSqlite")):
        m = chk.repo.module(rel)
        fn = m.func(f"{cname}.write")
        g = build(fn)
        idn = derived_names(fn, {"unique_id"})
        drops = g.nodes_containing(lambda x: isinstance(x, ast.Call) and norm(x.func) == "self.drop_not_completed" and any(kw.arg == "unique_id" and expr_derives(kw.value, idn) for kw in x.keywords))
        seen = g.reachable([g.entry], blocked=drops, kinds=("n",))
        ok = bool(drops) and id(g.exit) not in seen
        chk.decide(ok, "R13.3", key(m, f"{cname}.write", "retires not-completed"), m.loc(fn), "drop_not_completed(unique_id=unique_id) on every normal path", "a completed write can return without retiring the not-completed record of the same identifier (or drops a different one)")
    chk.floor("R13.3", 2, "two stores")


def r13_4(chk):
    chk.rule("R13.4", "in DataStoreSqlite._write the UPDATE and INSERT branches for a result record persist the same columns (record_id, data, log_id, md5, is_completed)")
    m = chk.repo.module(SQ)
    fn = m.func("DataStoreSqlite._write")
    ins, upd = None, None
    for node, s in all_strings(fn):
        mi = re.match(r"\s*INSERT INTO \{table_name\}\s*\(([^)]*)\)", s)
        mu = re.match(r"\s*UPDATE \{table_name\} SET (.*?) WHERE (.*)$", s)
        if mi:
            ins = (node, {c.strip() for c in mi.group(1).split(",")})
        if mu and "record_id" in mu.group(2):
            cols = {c.split("=")[0].strip() for c in mu.group(1).split(",")} | {c.split("=")[0].strip() for c in re.split(r"\s+AND\s+", mu.group(2))}
            upd = (node, cols)
    if ins and not upd:
        # upsert form: INSERT ... ON CONFLICT(<key>) DO UPDATE SET a=excluded.a, ...
        for node, s_ in all_strings(fn):
            mu = re.search(r"ON CONFLICT\s*\(([^)]*)\)\s*DO UPDATE SET\s+(.*)$", s_, re.S)
            if mu:
                cols = {c.split("=")[0].strip() for c in mu.group(2).split(",") if c.strip()} | {c.strip() for c in mu.group(1).split(",")}
                upd = (node, cols)
    if not ins or not upd:
        raise AnalysisError("DataStoreSqlite._write: INSERT/UPDATE statements for result records not found")
    missing = ins[1] - upd[1]
    chk.decide(not missing, "R13.4", key(m, "DataStoreSqlite._write", "UPDATE vs INSERT columns"), m.loc(upd[0]), f"both branches persist {sorted(ins[1])}", f"the UPDATE branch does not persist {sorted(missing)}: rewriting an existing identifier keeps the old value")
    chk.floor("R13.4", 1, "one sibling pair")


def override_membership(chk, rule):
    """an override of __contains__ normalises the identifier and then asks the base class ONE question"""
    m = chk.repo.module(DS)
    for cname in ("DataStoreDirectory",):
        ci = m.cls(cname)
        fn = ci.methods.get("__contains__")
        if not isinstance(fn, ast.FunctionDef):
            continue
        rets = [r for r in walk_no_nested(fn) if isinstance(r, ast.Return) and r.value is not None]
        bad = [r for r in rets if not (isinstance(r.value, ast.Call) and isinstance(r.value.func, ast.Attribute) and r.value.func.attr == "__contains__" and isinstance(r.value.func.value, ast.Call) and call_name(r.value.func.value) == "super")]
        chk.decide(bool(rets) and not bad, rule, key(m, f"{cname}.__contains__", "one lookup under one name"), m.loc(bad[0] if bad else fn), "every return is a single super().__contains__(<normalised item>)", f"`{norm(bad[0])[:90] if bad else ''}` answers membership with more than one lookup (or none through the base class): an identifier is 'in' the store when only a record filed under another name exists -- e.g. not_completed/<id>.json -- and the append-mode write of a re-run is refused, so apply_to raises instead of recording the failure")


def check_identifier_form(chk, rule):
    """the overwrite check inside DataStoreDirectory._write is made on the identifier the caller passed (the form under
    which `in` answers for completed records), before that name is rewritten -- used by R13.5 and, for resume, R19.5"""
    m = chk.repo.module(DS)
    fn = m.func("DataStoreDirectory._write")
    g = build(fn)
    checks = []
    for nd in g.nodes:
        for e in own_exprs(nd):
            for c in ast.walk(e):
                if isinstance(c, ast.Call) and (norm(c.func) == "self._check_writable" or (isinstance(c.func, ast.Attribute) and isinstance(c.func.value, ast.Call) and call_name(c.func.value) == "super" and c.func.attr in ("write", "write_not_completed", "write_log"))):
                    checks.append((nd, c))
    if not checks:
        chk.ok(rule, key(m, "DataStoreDirectory._write", "overwrite check on the caller's identifier"), m.loc(fn), "no check inside _write (the public writes check first)", nontrivial=False)
        return
    for nd, c in checks:
        arg = next((kw.value for kw in c.keywords if kw.arg == "unique_id"), c.args[0] if c.args else None)
        plain = isinstance(arg, ast.Name) and arg.id == "unique_id"
        rebinds = [n2 for n2 in g.nodes if n2.kind == "stmt" and isinstance(n2.ast, ast.Assign) and any(isinstance(t, ast.Name) and t.id == "unique_id" for t in n2.ast.targets)]
        before = plain and all(not g.dominated_by(nd, [r])[0] for r in rebinds)
        chk.decide(bool(before), rule, key(m, "DataStoreDirectory._write", "overwrite check on the caller's identifier"), m.loc(c), "checked before the name is rewritten", f"`{norm(c)[:80]}` checks {'a derived name' if not plain else 'the name after it was rewritten'}: `in` answers for the identifiers of completed records, so a stored name such as not_completed/<id>.json is 'found' when only the not-completed record exists -- in append mode the re-run of a failed input is then refused and a resumed apply_to stops there")


def r13_5(chk):
    chk.rule("R13.5", "_check_writable raises for READONLY and for an existing identifier in APPEND mode; every abstract write of the base class calls it")
    m = chk.repo.module(DS)
    fn = m.func("DataStoreABC._check_writable")
    raises = T.reach_conditions(fn, lambda n: isinstance(n, ast.Raise), set())
    conds = [T.show(c) for _, c in raises]
    ro = any("self.mode is READONLY" in c and "not ?self.mode is READONLY" not in c.split(" and ")[0] for c in conds)
    # the membership test may be evaluated into a local first
    from ..defuse import assignments as _asg

    member_names = {t.id for tg, v, _ in _asg(fn) if norm(v) == "unique_id in self" for t in tg if isinstance(t, ast.Name)}
    ap = any(("unique_id in self" in c or any(f"?{nm}" in c for nm in member_names)) and "self.mode is APPEND" in c for c in conds)
    chk.decide(ro, "R13.5", key(m, "DataStoreABC._check_writable", "READONLY raises"), m.loc(fn), "raises when mode is READONLY", f"no raise guarded by `self.mode is READONLY` (conditions: {conds})")
    chk.decide(ap, "R13.5", key(m, "DataStoreABC._check_writable", "APPEND no overwrite"), m.loc(fn), "raises when the identifier exists and mode is APPEND", f"no raise guarded by `unique_id in self and self.mode is APPEND` (conditions: {conds})")
    for meth in ("write", "write_not_completed", "write_log"):
        f2 = m.func(f"DataStoreABC.{meth}")
        ok = any(isinstance(c, ast.Call) and norm(c.func) == "self._check_writable" for c in walk_no_nested(f2))
        chk.decide(ok, "R13.5", key(m, f"DataStoreABC.{meth}", "calls _check_writable"), m.loc(f2), "calls self._check_writable(unique_id)", "base-class write no longer checks the mode")
    # the sqlite store's overriding writes call the base-class check before touching the db
    s = chk.repo.module(SQ)
    for meth in ("write", "write_not_completed", "write_log"):
        f2 = s.func(f"DataStoreSqlite.{meth}")
        g = build(f2)
        sup = g.nodes_containing(lambda x: isinstance(x, ast.Call) and isinstance(x.func, ast.Attribute) and isinstance(x.func.value, ast.Call) and call_name(x.func.value) == "super")
        wr = g.nodes_containing(lambda x: isinstance(x, ast.Call) and norm(x.func) in ("self._write", "self.drop_not_completed"))
        ok = bool(sup) and all(g.dominated_by(w, sup)[0] for w in wr)
        chk.decide(ok, "R13.5", key(s, f"DataStoreSqlite.{meth}", "check before db write"), s.loc(f2), "super().<write>() (mode check) dominates every db mutation", "a db mutation is reachable before the base-class mode check")
    # the directory store: the full check (READONLY and APPEND-overwrite) precedes the storage write of every public write,
    # directly or through the base-class write that _write calls
    dci = m.cls("DataStoreDirectory")
    inner = dci.methods["_write"]
    gi = build(inner)
    inner_checks = gi.nodes_containing(lambda x: isinstance(x, ast.Call) and (norm(x.func) == "self._check_writable" or (isinstance(x.func, ast.Attribute) and isinstance(x.func.value, ast.Call) and call_name(x.func.value) == "super" and x.func.attr in ("write", "write_not_completed", "write_log"))))
    inner_store = gi.nodes_containing(lambda x: _is_mutation(x) and (call_name(x) or "").split(".")[-1] in ("open_", "open"))
    inner_ok = bool(inner_checks) and all(gi.dominated_by(w, inner_checks)[0] for w in inner_store)
    for meth in ("write", "write_not_completed", "write_log"):
        f2 = dci.methods[meth]
        g = build(f2)
        own = g.nodes_containing(lambda x: isinstance(x, ast.Call) and norm(x.func) == "self._check_writable")
        wr = g.nodes_containing(lambda x: isinstance(x, ast.Call) and norm(x.func) == "self._write")
        ok = bool(wr) and (inner_ok or (bool(own) and all(g.dominated_by(w, own)[0] for w in wr)))
        chk.decide(ok, "R13.5", key(m, f"DataStoreDirectory.{meth}", "full check before the storage write"), m.loc(f2), "_check_writable (READONLY and APPEND-overwrite) precedes the file write", "no _check_writable on the way to the file write: an APPEND store silently overwrites an existing record")
    check_identifier_form(chk, "R13.5")
    chk.floor("R13.5", 12, "2 guards + 3 base writes + 3 sqlite writes + 3 directory writes + identifier form")


def r13_6(chk):
    chk.rule("R13.6", "a write that is not refused reaches the storage: in the _write of each store every normal path from entry to exit passes the storage effect (the file opened for writing / db.execute); a silent early return drops the record that was to be written (OVERWRITE mode would never overwrite)")
    for rel, q, is_store in (
        (DS, "DataStoreDirectory._write", lambda x: _is_mutation(x) and (call_name(x) or "").split(".")[-1] in ("open_", "open")),
        (SQ, "DataStoreSqlite._write", lambda x: isinstance(x, ast.Call) and norm(x.func) == "self.db.execute"),
    ):
        m = chk.repo.module(rel)
        fn = m.func(q)
        g = build(fn)
        stores = g.nodes_containing(is_store)
        if not stores:
            raise AnalysisError(f"{q}: storage effect not found")
        seen = g.reachable([g.entry], blocked=stores, kinds=("n",))
        k = key(m, q, "every accepted write reaches the storage")
        if id(g.exit) in seen:
            path = g._path(seen, g.exit)
            rets = [n for n in path if n.kind == "return"]
            where = m.loc(rets[-1].ast) if rets else m.loc(fn)
            chk.violation("R13.6", key(m, q, f"silent return `{norm(rets[-1].ast) if rets else 'fall-through'}` before the storage effect"), where, f"a call that passed the mode check can return without writing ({g.show_path(path)}): the store does not hold what was written")
        else:
            chk.ok("R13.6", k, m.loc(fn), "no normal exit bypasses the storage effect")
    chk.floor("R13.6", 2, "two stores")


TABLE_CONSTS = ("_MD5_TABLE", "_NOT_COMPLETED_TABLE", "_LOG_TABLE")


def _table_effects(fn):
    """{('w'|'u', table constant)}: files of which store table the function opens for writing / unlinks.
    A path expression belongs to a table when it (or a local it derives from) mentions the table constant."""
    from .. import defuse as D

    by_table = {}
    for tconst in TABLE_CONSTS:
        names = set()
        changed = True
        binds = list(D.assignments(fn))
        while changed:
            changed = False
            for tg, v, _ in binds:
                if any(isinstance(n, ast.Name) and (n.id == tconst or n.id in names) for n in ast.walk(v)):
                    for t in tg:
                        for nm in ast.walk(t):
                            if isinstance(nm, ast.Name) and nm.id not in names:
                                names.add(nm.id)
                                changed = True
        by_table[tconst] = names
    eff = set()
    for c in walk_no_nested(fn):
        if not isinstance(c, ast.Call):
            continue
        # the method name also when the receiver is an expression: (md5_dir / name).unlink()
        nm = c.func.attr if isinstance(c.func, ast.Attribute) else (call_name(c) or "").split(".")[-1]
        for tconst, names in by_table.items():
            def mentions(e):
                return any(isinstance(n, ast.Name) and (n.id == tconst or n.id in names) for n in ast.walk(e))
            if nm in ("open_", "open") and c.args and mentions(c.args[0]) and any(isinstance(a, ast.Constant) and isinstance(a.value, str) and a.value[:1] in ("w", "a", "x") for a in list(c.args[1:]) + [k.value for k in c.keywords if k.arg == "mode"]):
                eff.add(("w", tconst))
            if nm in ("write_text", "write_bytes") and isinstance(c.func, ast.Attribute) and mentions(c.func.value):
                eff.add(("w", tconst))
            if nm in ("unlink", "remove") and ((isinstance(c.func, ast.Attribute) and mentions(c.func.value)) or any(mentions(a) for a in c.args)):
                eff.add(("u", tconst))
    return eff


def r13_7(chk):
    chk.rule("R13.7", "within one public write of DataStoreDirectory no helper that unlinks files of a store table (md5, not_completed, log) runs after a helper that wrote a file into the same table for the same identifier: the checksum of a record and of the not-completed record it replaces share one file name, so retiring after writing deletes the checksum just written")
    m = chk.repo.module(DS)
    ci = m.cls("DataStoreDirectory")
    helper_eff = {}
    for name, fn in ci.methods.items():
        if isinstance(fn, ast.FunctionDef):
            helper_eff[name] = _table_effects(fn)
    if ("w", "_MD5_TABLE") not in helper_eff.get("_write", set()) or ("u", "_MD5_TABLE") not in helper_eff.get("drop_not_completed", set()):
        raise AnalysisError(f"R13.7: effect extraction lost the md5 effects of _write / drop_not_completed: {helper_eff.get('_write')} {helper_eff.get('drop_not_completed')}")
    n = 0
    for meth in ("write", "write_not_completed", "write_log"):
        fn = ci.methods.get(meth)
        if not isinstance(fn, ast.FunctionDef):
            raise AnalysisError(f"DataStoreDirectory.{meth} vanished")
        calls = [c for c in walk_no_nested(fn) if isinstance(c, ast.Call) and isinstance(c.func, ast.Attribute) and norm(c.func.value) == "self" and c.func.attr in helper_eff]
        calls.sort(key=lambda c: (c.lineno, c.col_offset))
        bad = []
        for i, ci_ in enumerate(calls):
            for cj in calls[i + 1 :]:
                for kind, tb in helper_eff[ci_.func.attr]:
                    if kind == "w" and ("u", tb) in helper_eff[cj.func.attr]:
                        bad.append((ci_, cj, tb))
        n += 1
        k = key(m, f"DataStoreDirectory.{meth}", "no unlink after write in one table")
        if bad:
            a, b, tb = bad[0]
            chk.violation("R13.7", k, m.loc(b), f"`self.{b.func.attr}(...)` unlinks files of {tb} after `self.{a.func.attr}(...)` (line {a.lineno}) wrote one there under the same stem: write_not_completed('a') then write('a') leaves md5('a') == None")
        else:
            chk.ok("R13.7", k, m.loc(fn), f"helpers in order: {[c.func.attr for c in calls]}")
    chk.floor("R13.7", 3, "three public writes")


def _cache_touch(fn, attr, methods, depth=2):
    """how the function adjusts the member cache self.<attr>: 'reset' (assigned), 'remove', 'append-guarded', 'append', through self-calls too"""
    kinds = set()
    for st in walk_no_nested(fn):
        if isinstance(st, ast.Assign) and any(norm(t) == f"self.{attr}" for t in st.targets):
            kinds.add("reset")
        if isinstance(st, ast.Call) and isinstance(st.func, ast.Attribute) and norm(st.func.value) == f"self.{attr}":
            if st.func.attr == "remove":
                kinds.add("remove")
            if st.func.attr == "append":
                guarded = any(isinstance(i, ast.If) and re.search(rf"not in self\.{attr}\b", norm(i.test)) and any(n is st for n in ast.walk(i)) for i in walk_no_nested(fn))
                kinds.add("append-guarded" if guarded else "append")
        if depth and isinstance(st, ast.Call) and isinstance(st.func, ast.Attribute) and norm(st.func.value) == "self" and isinstance(methods.get(st.func.attr), ast.FunctionDef):
            kinds |= _cache_touch(methods[st.func.attr], attr, methods, depth - 1)
    return kinds


def r13_8(chk):
    chk.rule("R13.8", "DataStoreSqlite keeps two member lists over one table whose rows can change class (the UPDATE branch rewrites is_completed): each public record write adjusts BOTH lists -- the list of the class written gains the member at most once (append under a `not in` test) and the other list loses it (remove / reset) -- otherwise len(store), iteration and membership disagree with the database")
    m = chk.repo.module(SQ)
    ci = m.cls("DataStoreSqlite")
    for meth, gains, loses in (("write", "_completed", "_not_completed"), ("write_not_completed", "_not_completed", "_completed")):
        fn = ci.methods.get(meth)
        if not isinstance(fn, ast.FunctionDef):
            raise AnalysisError(f"DataStoreSqlite.{meth} vanished")
        g = _cache_touch(fn, gains, ci.methods)
        l = _cache_touch(fn, loses, ci.methods)
        chk.decide("append-guarded" in g and "append" not in g, "R13.8", key(m, f"DataStoreSqlite.{meth}", f"{gains} gains the member once"), m.loc(fn), f"self.{gains}: {sorted(g)}", f"self.{gains} is adjusted by {sorted(g) or 'nothing'}: the member is appended without a membership test (or not at all), so repeated writes of one identifier list it several times")
        chk.decide(bool(l & {"remove", "reset"}), "R13.8", key(m, f"DataStoreSqlite.{meth}", f"{loses} loses the member"), m.loc(fn), f"self.{loses}: {sorted(l)}", f"self.{loses} is not adjusted: a record that changes class stays listed in both lists (write('a') then write_not_completed('a') gives completed == not_completed == ['a'])")
    chk.floor("R13.8", 4, "two writes x two lists")


def r13_9(chk):
    chk.rule("R13.9", "one checksum per record: in DataStoreDirectory._write the checksum file's path depends on every parameter the data file's path depends on (the table `subdir` as well as the identifier) -- otherwise a completed and a not-completed record of one identifier share a checksum file and each write invalidates the other's checksum")
    from .. import defuse as D

    m = chk.repo.module(DS)
    fn = m.func("DataStoreDirectory._write")
    ps = [p for p in params_of(fn) if p not in ("self", "data")]
    def write_mode(a):
        if isinstance(a, ast.Constant):
            return isinstance(a.value, str) and a.value[:1] in ("w", "a", "x")
        if isinstance(a, ast.IfExp):
            return write_mode(a.body) and write_mode(a.orelse)
        if isinstance(a, ast.Name):
            vals = [v for tg, v, _ in D.assignments(fn) for t in tg if isinstance(t, ast.Name) and t.id == a.id]
            return bool(vals) and all(write_mode(v) for v in vals)
        return False

    opens = [c for c in walk_no_nested(fn) if isinstance(c, ast.Call) and (call_name(c) or "").split(".")[-1] in ("open_", "open") and c.args and any(write_mode(a) for a in list(c.args[1:]) + [k.value for k in c.keywords if k.arg == "mode"])]
    md5_names = D.derived_names(fn, {"_MD5_TABLE"})
    md5 = [c for c in opens if D.names_in(c.args[0]) & md5_names]
    data = [c for c in opens if not (D.names_in(c.args[0]) & md5_names)]
    if not md5 or not data:
        raise AnalysisError("DataStoreDirectory._write: data / checksum file opens not found")

    def depends(path_expr):
        out = set()
        for p_ in ps:
            dn = D.derived_names(fn, {p_})
            if D.names_in(path_expr) & dn:
                out.add(p_)
        return out

    dd, dm = depends(data[0].args[0]), depends(md5[0].args[0])
    # `suffix` only selects the extension, which the checksum name replaces by .txt
    missing = sorted((dd - dm) - {"suffix"})
    chk.decide(not missing, "R13.9", key(m, "DataStoreDirectory._write", "checksum path covers the data path's parameters"), m.loc(md5[0]), f"data path depends on {sorted(dd)}, checksum path on {sorted(dm)}", f"the data file's path depends on {sorted(dd)} but the checksum file's path only on {sorted(dm)}: records that differ in {missing} share one checksum file")
    chk.floor("R13.9", 1, "one writer")


CACHE_LOADS = {"completed", "not_completed", "members"}


def _unconditional_subexprs(e):
    """sub-expressions of e that are evaluated whenever e is (short-circuit operands and conditional arms excluded)"""
    yield e
    if isinstance(e, ast.BoolOp):
        yield from _unconditional_subexprs(e.values[0])
    elif isinstance(e, ast.IfExp):
        yield from _unconditional_subexprs(e.test)
    elif isinstance(e, (ast.Lambda, ast.ListComp, ast.SetComp, ast.DictComp, ast.GeneratorExp)):
        return
    else:
        for c in ast.iter_child_nodes(e):
            if isinstance(c, ast.expr):
                yield from _unconditional_subexprs(c)


def _pruned_nodes(g, fn, const_args):
    """CFG nodes inside `if <param> == <CONST>:` bodies that cannot run for this call (the caller passes another constant)"""
    dead = set()
    if not const_args:
        return []
    for i in ast.walk(fn):
        if isinstance(i, ast.If) and isinstance(i.test, ast.Compare) and len(i.test.ops) == 1 and isinstance(i.test.ops[0], ast.Eq) and isinstance(i.test.left, ast.Name) and i.test.left.id in const_args:
            rhs = norm(i.test.comparators[0])
            given = const_args[i.test.left.id]
            if rhs != given and (rhs.isupper() or rhs.startswith("_") and rhs[1:].isupper() or rhs[:1] in "'\"") and (given.isupper() or given.startswith("_") and given[1:].isupper() or given[:1] in "'\""):
                for b in i.body:
                    for x in ast.walk(b):
                        dead.add(id(x))
    return [n for n in g.nodes if n.ast is not None and id(n.ast) in dead]


def _loads_member_cache(ci_chain, fn, depth=3, _memo=None, which=None, const_args=None):
    """does every normal path through fn evaluate something that fills the lazy member lists: self.completed /
    .not_completed / .members, `x in self`, iteration over self, or a self/super method that does"""
    _memo = _memo if _memo is not None else {}
    if id(fn) in _memo:
        return _memo[id(fn)]
    _memo[id(fn)] = False
    g = build(fn)
    # which list has to be filled: "completed" / "not_completed" (members, `in self` and iteration fill both)
    wanted = {"members"} | ({which} if which else {"completed", "not_completed"})

    def loads(x):
        if isinstance(x, ast.Attribute) and norm(x.value) == "self" and x.attr in wanted:
            return True
        if isinstance(x, ast.Compare) and any(isinstance(o, (ast.In, ast.NotIn)) for o in x.ops) and any(norm(c) == "self" for c in x.comparators):
            return True
        if isinstance(x, ast.Call) and depth > 0:
            f = x.func
            name = None
            if isinstance(f, ast.Attribute) and norm(f.value) == "self":
                name = f.attr
            elif isinstance(f, ast.Attribute) and isinstance(f.value, ast.Call) and call_name(f.value) == "super":
                name = f.attr
            if name:
                for ci in ci_chain:
                    cal = ci.methods.get(name)
                    if isinstance(cal, ast.FunctionDef) and cal is not fn:
                        consts = {kw.arg: norm(kw.value) for kw in x.keywords if kw.arg and isinstance(kw.value, (ast.Name, ast.Constant))}
                        sub = _loads_member_cache(ci_chain, cal, depth - 1, {} if consts else _memo, which, consts)
                        if (sub[0] if isinstance(sub, tuple) else sub):
                            return True
        return False

    nodes = []
    for nd in g.nodes:
        if nd.ast is None or nd.kind == "def":
            continue
        for e in own_exprs(nd):
            if any(loads(x) for x in _unconditional_subexprs(e)):
                nodes.append(nd)
                break
    res = bool(nodes) and id(g.exit) not in g.reachable([g.entry], blocked=nodes + _pruned_nodes(g, fn, const_args), kinds=("n",))
    _memo[id(fn)] = res
    return res, nodes, g


def r13_10(chk):
    chk.rule("R13.10", "the member lists of a store are lazy caches (filled from the directory / table the first time they are asked for, and only while empty): a write appends to `self._completed` / `self._not_completed` only after something on every path has filled them (self.completed, `unique_id in self`, ... evaluated unconditionally, directly or in a method it calls) -- appending to a cache that was never loaded makes it non-empty, so the records already in the store are never listed: a store re-opened in mode 'w' and written to first shows only the new record")
    for rel, cname in ((DS, "DataStoreDirectory"), (SQ, "DataStoreSqlite")):
        m = chk.repo.module(rel)
        ci = m.cls(cname)
        chain = [c for c in ci.mro() if hasattr(c, "methods")]
        for meth in ("write", "write_not_completed"):
            fn = ci.methods.get(meth)
            if not isinstance(fn, ast.FunctionDef):
                continue
            appends = [c for c in walk_no_nested(fn) if isinstance(c, ast.Call) and isinstance(c.func, ast.Attribute) and c.func.attr in ("append", "remove") and norm(c.func.value) in ("self._completed", "self._not_completed")]
            if not appends:
                continue
            g = build(fn)
            for a in appends:
                which = norm(a.func.value).replace("self._", "")
                # nodes of this method that fill that list unconditionally
                r = _loads_member_cache(chain, fn, 3, {}, which)
                load_nodes = r[1] if isinstance(r, tuple) else []
                holder = g.nodes_containing(lambda x: x is a)
                # the CFG used inside _loads_member_cache is another build of the same function: match by line
                lines = {n.lineno for n in load_nodes}
                mine = [n for n in g.nodes if n.ast is not None and n.lineno in lines and n.kind != "def"]
                okd = bool(holder) and bool(mine) and all(g.dominated_by(h, mine)[0] for h in holder)
                chk.decide(okd, "R13.10", key(m, f"{cname}.{meth}", f"`{norm(a)[:50]}` after the cache was loaded"), m.loc(a), "dominated by an unconditional load of the member lists", f"`{norm(a)[:60]}` can run before anything has filled the lazy member lists (the only lookup on the way, `unique_id in self` inside _check_writable, is short-circuited away in mode 'w'): the list then holds just this member and the records already in the store are no longer reported by completed / members / len() / in")
    chk.floor("R13.10", 3, "cache appends of the two stores")


LAZY_CACHES = ("_completed", "_not_completed")


def r13_12(chk):
    chk.rule("R13.12", "an empty lazy cache means 'not loaded', not 'nothing there': outside the two member properties (whose `if not self._x:` IS the lazy load) no method of a store decides anything by testing self._completed / self._not_completed -- after a re-open, or right after a drop reset it, the cache is empty while the store holds records, so `elif not self._not_completed: return` in drop_not_completed silently keeps the record it was asked to drop")
    n = 0
    for rel, cname in ((DS, "DataStoreDirectory"), (SQ, "DataStoreSqlite")):
        m = chk.repo.module(rel)
        ci = m.cls(cname)
        for name, fn in ci.methods.items():
            if not isinstance(fn, ast.FunctionDef) or name in ("completed", "not_completed", "__init__"):
                continue
            tests = [t for x in walk_no_nested(fn) if isinstance(x, (ast.If, ast.IfExp, ast.While)) for t in [x.test]] + [x for x in walk_no_nested(fn) if isinstance(x, ast.Assert)]
            bad = None
            for t in tests:
                expr = t.test if isinstance(t, ast.Assert) else t
                # membership tests (`member in self._completed`) read the content after a load elsewhere; a bare truth / len test is the hazard
                for y in ast.walk(expr):
                    if isinstance(y, ast.Attribute) and y.attr in LAZY_CACHES and isinstance(y.value, ast.Name) and y.value.id == "self":
                        parent_ok = any(isinstance(c, ast.Compare) and any(isinstance(o, (ast.In, ast.NotIn)) for o in c.ops) and any(z is y for z in ast.walk(c)) for c in ast.walk(expr))
                        if not parent_ok:
                            bad = t
            n += 1
            chk.decide(bad is None, "R13.12", key(m, f"{cname}.{name}", "no decision on an unloaded cache"), m.loc(bad if bad is not None else fn), "the lazy caches are not truth-tested", f"`{norm(bad.test if isinstance(bad, ast.Assert) else bad)[:60] if bad is not None else ''}` reads the private lazy cache: it is empty before the first listing after a re-open (and after a reset), so the branch runs although the store holds such records")
    chk.floor("R13.12", 10, "methods of the two stores")


def r13_13(chk):
    chk.rule("R13.13", "what can be written can be listed: the member properties of the directory store enumerate the directory glob itself -- no filter between the glob and the member list other than the `limit` cut (no `continue`, no filtering wrapper); the writer accepts any identifier, so a listing that skips some file names (hidden files) makes a record vanish on re-open and lets append mode overwrite it")
    m = chk.repo.module(DS)
    ci = m.cls("DataStoreDirectory")
    n = 0
    for name in ("completed", "not_completed"):
        fn = ci.methods.get(name)
        if not isinstance(fn, ast.FunctionDef):
            raise AnalysisError(f"DataStoreDirectory.{name} not found")
        loops = [lp for lp in walk_no_nested(fn) if isinstance(lp, ast.For)]
        if not loops:
            raise AnalysisError(f"DataStoreDirectory.{name}: listing loop not found")
        for lp in loops:
            n += 1
            it = lp.iter
            while isinstance(it, ast.Call) and norm(it.func) in ("enumerate", "sorted", "list", "iter"):
                it = it.args[0]
            if isinstance(it, ast.Name):
                defs = [st.value for st in walk_no_nested(fn) if isinstance(st, ast.Assign) and norm(st.targets[0]) == it.id]
                it = defs[-1] if defs else it
            direct = isinstance(it, ast.Call) and isinstance(it.func, ast.Attribute) and it.func.attr in ("glob", "iterdir", "rglob")
            skips = [x for b in lp.body for x in ast.walk(b) if isinstance(x, ast.Continue)]
            chk.decide(direct and not skips, "R13.13", key(m, f"DataStoreDirectory.{name}", "lists every file the glob yields"), m.loc(lp), "iterates the glob directly; only the limit cut", f"the listing iterates `{norm(lp.iter)[:60]}`{' and skips entries with continue' if skips else ''}: files the writer can create under such names are not members after a re-open (`.x.fasta`), and append mode then overwrites them")
    chk.floor("R13.13", 2, "completed and not_completed")


def r13_14(chk):
    chk.rule("R13.14", "one identifier, one record: every SQL statement of the SQLite store that deletes or updates a result row selects it by the stored id itself (`record_id=?`), never by a function of the stored id, a LIKE pattern or an OR of alternatives -- `rtrim(record_id, '.json')=?` strips CHARACTERS, so dropping 'seq' also deletes the not-completed records 'seqs', 'seqn', 'seq.json' ...")
    import re as _re
    from ..literals import all_strings

    m = chk.repo.module(SQ)
    n = 0
    for q, fn in m.all_functions():
        for node, text in all_strings(fn):
            mm = _re.match(r"\s*(DELETE\s+FROM|UPDATE)\s+", text, _re.I)
            if not mm or "record_id" not in text:
                continue
            where = text[text.upper().find("WHERE"):] if "WHERE" in text.upper() else ""
            if "record_id" not in where:
                continue
            n += 1
            uses = _re.findall(r"[\w(]*record_id[^=<>!]*?(?:=|LIKE|<|>)[^?]*\?", where, _re.I)
            exact = bool(uses) and all(_re.fullmatch(r"record_id\s*=\s*\?", u.strip(), _re.I) for u in uses) and not _re.search(r"\bOR\b", where, _re.I) and not _re.search(r"\w+\s*\(\s*record_id", where, _re.I)
            chk.decide(exact, "R13.14", key(m, q, f"{mm.group(1).split()[0].upper()} selects by record_id=?"), m.loc(node), "record_id=? only", f"the statement `{' '.join(text.split())[:110]}` does not select the row by the exact stored id: identifiers related by a suffix or by trailing characters are hit together")
    chk.floor("R13.14", 2, "DELETE / UPDATE statements on single records")


def r13_15(chk):
    chk.rule("R13.15", "DataStoreDirectory.drop_not_completed removes only what belongs to a NOT-COMPLETED member: every file it unlinks (the record under not_completed/ and its checksum under md5/, which completed records share) is named from a member taken from self.not_completed -- inside the loop over those members, from the loop variable -- or sits under a test that the record is one of them; a path built straight from the unique_id argument deletes the checksum of a COMPLETED record of that name")
    m = chk.repo.module(DS)
    q = "DataStoreDirectory.drop_not_completed"
    fn = m.func(q)
    unlinks = [c for c in walk_no_nested(fn) if isinstance(c, ast.Call) and isinstance(c.func, ast.Attribute) and c.func.attr in ("unlink", "remove") and _is_mutation(c)]
    if not unlinks:
        raise AnalysisError(f"{q}: no unlink found")
    loops = [lp for lp in walk_no_nested(fn) if isinstance(lp, ast.For) and "not_completed" in norm(lp.iter) and isinstance(lp.target, ast.Name)]
    par = [a for a in params_of(fn) if a != "self"]
    for c in unlinks:
        k = key(m, q, f"{norm(c.func)} names a not-completed member")
        lp = next((l for l in loops if any(c is x for st in l.body for x in ast.walk(st))), None)
        ok = False
        why = ""
        if lp is not None:
            # the unlinked path derives from the loop variable
            names = {lp.target.id}
            changed = True
            while changed:
                changed = False
                for st in ast.walk(lp):
                    if isinstance(st, ast.Assign) and len(st.targets) == 1 and isinstance(st.targets[0], ast.Name) and st.targets[0].id not in names:
                        if any(isinstance(x, ast.Name) and x.id in names for x in ast.walk(st.value)):
                            names.add(st.targets[0].id)
                            changed = True
            ok = any(isinstance(x, ast.Name) and x.id in names for x in ast.walk(c.func.value))
            why = f"inside the loop over {norm(lp.iter)}, path derived from `{lp.target.id}`"
        else:
            # outside the loop: acceptable only under a test that mentions the not-completed members
            for i in walk_no_nested(fn):
                if isinstance(i, ast.If) and any(c is x for st in i.body for x in ast.walk(st)) and "not_completed" in norm(i.test):
                    ok = True
                    why = f"under `if {norm(i.test)}`"
        chk.decide(ok, "R13.15", k, m.loc(c), why, f"`{norm(c)}` is not tied to a member of self.not_completed (path built from {par}): drop_not_completed(unique_id=<a completed record>) deletes that record's md5 file")
    chk.floor("R13.15", 2, "record file and checksum file")


def run(chk):
    r13_15(chk)
    r13_14(chk)
    r13_13(chk)
    r13_12(chk)
    r13_10(chk)
    r13_9(chk)
    r13_7(chk)
    r13_8(chk)
    r13_6(chk)
    r13_1(chk)
    r13_2(chk)
    r13_3(chk)
    r13_4(chk)
    r13_5(chk)
    chk.assume("a sqlite connection opened with mode=ro rejects writes")
    chk.assume("uppercase / _UPPERCASE names are module constants (table names), not identifiers")
