"""C09 -- tree transformations preserve tips, topology and path lengths.

Path-length / topology invariance is not decided.  Decided:
R09.1 operations documented as returning a new tree (or a value) leave the receiver
      untouched (region/effect analysis, L5, with tree-specific effect facts)
R09.3 the new tree they return shares no mutable state (params dicts) with the receiver
R09.2 the Newick writer quotes every character the reader treats as structure

Added in build round 2 (see DESIGN.md section 3, round-2 table):
R09.4 JSON tree protocol: the newick written by to_rich_dict is read back by deserialise_tree with the matching convention -- blanks are munged to ...
R09.5 TreeBuilder._unique_name: a name it modifies (counter appended) is checked again against the names in use before it is handed out (recursive call or ...
R09.6 unrooted() removes one edge below the root (the first internal child is dissolved, its children are promoted): the promoted nodes keep their own ...

Added later in build rounds 2-3 (see DESIGN.md section 3, round-2/3 table):
R09.7 a node is never re-found by its own name: inside the tree classes no lookup get_node_matching_name(<node>.name) is made with the name attribute of a ...
R09.8 a loop that climbs towards the root (`n = n.parent`) while its test adds n.length is bounded by the ancestor it must not pass (`n.parent is not ...
R09.9 the clade sets behind the tree distances are computed from the tree as it is NOW: TreeNode.subsets() writes its per-node scratch attribute ...
R09.10 the tokeniser un-munges `_` only where an UNQUOTED label is completed (the writer quotes names to protect their underscores).
R09.11 to_rich_dict keys edge attributes by node name only on a (copied) tree whose unnamed nodes were named.
R09.15 the JSON reader recovers the root's name (the newick form does not carry it).
R09.14 name_unnamed_nodes knows every existing name before it hands out the first generated one.
"""

from __future__ import annotations

import ast
import re

from .. import effects as E
from .. import defuse as D
from ..index import AnalysisError, call_name, norm, params_of, walk_no_nested
from ..literals import all_strings, regex_literal_chars
from ..report import key

TREE = "core/tree.py"

NEW_TREE_OPS = [
    "copy", "deepcopy", "copy_topology", "unrooted_deepcopy", "unrooted", "rooted_at", "rooted_with_tip",
    "root_at_midpoint", "get_sub_tree", "_get_sub_tree", "sorted", "_sorted", "multifurcating", "bifurcating", "balanced",
]
VALUE_OPS = [
    "same_topology", "get_newick", "to_rich_dict", "to_json", "get_distances", "tip_to_tip_distances", "tree_distance",
    "lin_rajan_moret", "get_edge_names", "get_tip_names", "get_node_names", "same_shape", "subsets", "child_parent_map",
    "get_nodes_dict", "ascii_art", "get_xml", "max_tip_tip_distance", "total_length", "distance",
]


class TreeFamily(E.Family):
    name = "tree"
    self_kind = "NODE"
    attr_kinds = {
        "children": ("LIST", ("NODE",)),
        "params": ("DICT",),
        "name": ("STR",),
        "_parent": ("NODE",),
        "parent": ("NODE",),
        "length": ("SCALAR",),
        "name_loaded": ("SCALAR",),
    }
    # name-mangled scratch attributes written and removed by the distance code (reason: private to one traversal)
    allowed_attrs = {"__start": "name-mangled traversal scratch", "__stop": "name-mangled traversal scratch", "__leaf_set": "name-mangled traversal scratch of subsets()"}
    param_kinds = {"constructor": ("CTOR:ANY",), "n": ("NODE",), "other": ("NODE",), "tree2": ("NODE",), "parent": ("NODE",), "target": ("NODE",)}
    helper_functions = ("_copy_node",)

    def __init__(self, repo, classes, module, builder_aliases_params):
        super().__init__(repo, classes, module)
        self.builder_aliases_params = builder_aliases_params

    def is_ctor_expr(self, interp, e):
        if isinstance(e, ast.Name) and e.id in ("TreeNode", "PhyloNode") and e.id not in interp.env:
            return "NODE"
        return None

    def special_call(self, interp, call, recv, name, args, kwargs):
        if name == "_default_tree_constructor":
            return E.Val.of(["CTOR:EDGE"])
        return None

    def ctor_call(self, interp, call, kind, args, kwargs):
        site = interp.fresh(call)
        edge_style = kind == "EDGE" or (kind == "ANY" and len(args) >= 2 and not kwargs)
        if edge_style:
            edge = args[0] if args else E.BOTTOM
            children = args[1] if len(args) > 1 else kwargs.get("children", E.BOTTOM)
            if self.builder_aliases_params:
                # TreeBuilder._params_for_edge returns edge.params itself: the new node keeps the template's dict
                interp.store_into({site}, interp.contents(edge.regs), frozenset(["DICT"]))
        else:
            names = ["name", "children", "parent", "params"]
            amap = dict(zip(names, args))
            amap.update(kwargs)
            children = amap.get("children", E.BOTTOM)
            if "params" in amap:
                interp.store_into({site}, amap["params"].regs, amap["params"].kinds or frozenset(["DICT"]))
            if "parent" in amap and amap["parent"].regs:
                interp.event(amap["parent"], "parent= of a node constructor (parent.append(new node))", call)
        # adoption: each child gets a new parent and is removed from its old parent's children
        kids = interp.elems(children) if children.kinds & {"LIST", "SET"} else frozenset(t for t in interp.contents(children.regs) if t not in children.regs or not t.startswith("F"))
        if kids:
            interp.event(kids, f"children of {norm(call.func)}(...) are adopted: their parent changes and they are removed from their old parent", call)
        interp.store_into({site}, kids, frozenset(["NODE"]))
        return E.Val.of(["NODE"], [site])

    def special_attr_store(self, interp, owner, attr, val, node):
        if self.self_kind in owner.kinds or not owner.kinds:
            tgt = interp.engine.property_setter(interp.owner, attr)
            if tgt is not None:
                interp.apply_summary(tgt, owner, [val], {}, node, f"{norm(node)} = ... (property setter)")
                return True
        return False


def build_engine(chk, cls_name):
    m = chk.repo.module(TREE)
    ci = m.cls(cls_name)
    tb = m.cls("TreeBuilder")
    pfe = tb.methods.get("_params_for_edge")
    if pfe is None:
        raise AnalysisError("TreeBuilder._params_for_edge not found")
    rets = [r for r in walk_no_nested(pfe) if isinstance(r, ast.Return) and r.value is not None]
    aliases = any(norm(r.value) == "edge.params" for r in rets)
    # who builds nodes for edge_from_edge must be the builder's create_edge -> TreeNodeClass(children=list(children), ..., params=params)
    fam = TreeFamily(chk.repo, [ci], m, aliases)
    eng = E.Engine(fam)
    return m, ci, eng, aliases


def r09_1(chk):
    chk.rule("R09.1", "operations documented as returning a new tree, or a value, do not mutate the receiver: no attribute/element store, container mutator, property setter or child adoption whose target lies exactly in the receiver's region, through calls resolved within the class (least fix-point of per-method effect summaries)")
    chk.rule("R09.3", "the fresh tree returned by a 'new tree' operation holds no mutable object of the receiver (params dictionaries are copied, not shared)")
    for cls_name in ("TreeNode", "PhyloNode"):
        m, ci, eng, aliases = build_engine(chk, cls_name)
        roots = []
        names = []
        for name in NEW_TREE_OPS + VALUE_OPS:
            r = ci.resolve(name)
            if r is None or not isinstance(r[1], (ast.FunctionDef, ast.AsyncFunctionDef)):
                continue
            roots.append((r[0], r[1], True))
            names.append((name, r))
        eng.analyse(roots)
        chk.extra.setdefault("effect_fixpoint_iterations", {})[cls_name] = getattr(eng, "iterations", None)
        chk.extra.setdefault("functions_summarised", {})[cls_name] = len(eng.summaries)
        for name, (owner, fn) in names:
            # instance belongs to the class that defines the implementation; analysed once per resolving class
            summ = eng.summaries[(id(fn), owner.fq)]
            q = f"{owner.name}.{name}"
            k = key(m, q, f"receiver untouched [{cls_name}]")
            if E.SELF in summ.mut:
                what, line, chain = summ.mut[E.SELF]
                via = " -> ".join(f"{c[0]} (L{c[1]})" for c in chain)
                chk.violation("R09.1", key(m, q, f"mutates receiver: {what}"), f"{m.rel}:{line}", f"`{what}` writes an object that belongs to the tree the method was called on" + (f" (reached via {via})" if via else "") + f": {name}() is documented as leaving its tree unmodified [{cls_name}]")
            else:
                chk.ok("R09.1", k, m.loc(fn), f"no definite receiver mutation (unresolved calls: {summ.unresolved})")
            if name in NEW_TREE_OPS:
                k3 = key(m, q, f"result shares no state [{cls_name}]")
                fresh = "FRESH" in summ.ret.regs
                held = summ.ret_kinds.get(E.SELF, set())
                mutable = held & {"DICT", "LIST", "SET", "NODE", "ARRAY"}
                if fresh and mutable:
                    chk.violation("R09.3", key(m, q, f"new tree shares a {'/'.join(sorted(mutable))} with the receiver"), m.loc(fn), f"the tree returned by {name}() keeps a mutable {'/'.join(sorted(mutable))} of the original tree inside it (e.g. a node's params dict handed over instead of copied): setting a branch length or parameter on the new tree changes the original [{cls_name}]")
                elif fresh and E.SELF in summ.ret_contains:
                    chk.unresolved("R09.3", k3, m.loc(fn), "objects of unknown kind taken from the receiver (parameter values) are stored in the new tree")
                elif E.SELF in summ.ret.regs and not fresh:
                    chk.unresolved("R09.3", k3, m.loc(fn), "may return the receiver itself")
                else:
                    chk.ok("R09.3", k3, m.loc(fn), "fresh tree, nothing of the receiver stored in it")
    chk.floor("R09.1", 30, "~36 operations (violations of one implementation resolved for both classes count once)")
    chk.floor("R09.3", 14, "15 new-tree operations (counted once per implementation when violated)")


def r09_2(chk):
    chk.rule("R09.2", "every character the Newick tokeniser treats as structure (its split pattern, minus whitespace) is in the character class that makes get_newick quote a name; the writer doubles single quotes inside a quoted name and the tokeniser un-doubles them; unquoted blanks are written as underscores, which the tokeniser turns back into blanks")
    pm = chk.repo.module("parse/newick.py")
    tok = pm.func("_Tokeniser.tokens")
    pats = [c.args[0].value for c in walk_no_nested(tok) if isinstance(c, ast.Call) and norm(c.func) == "re.split" and c.args and isinstance(c.args[0], ast.Constant)]
    if not pats:
        raise AnalysisError("newick tokeniser: re.split pattern not found")
    structural, has_ws = regex_literal_chars(pats[0])
    structural = {c for c in structural if not c.isspace()}
    tm = chk.repo.module(TREE)
    gn = tm.func("TreeNode.get_newick")
    qpat = [c.args[0].value for c in walk_no_nested(gn) if isinstance(c, ast.Call) and norm(c.func) == "re.search" and c.args and isinstance(c.args[0], ast.Constant)]
    if not qpat:
        raise AnalysisError("get_newick: quoting pattern not found")
    quoted, _ = regex_literal_chars(qpat[0])
    for ch in sorted(structural):
        chk.decide(ch in quoted, "R09.2", key(tm, "TreeNode.get_newick", f"quotes {ch!r}"), tm.loc(gn), f"{ch!r} is structural for the reader and triggers quoting", f"the tokeniser splits on {ch!r} but get_newick does not quote names containing it: such a name is written bare and parsed as structure")
    chk.decide("_" in quoted, "R09.2", key(tm, "TreeNode.get_newick", "quotes '_'"), tm.loc(gn), "names with an underscore are quoted (the reader turns bare underscores into blanks)", "a name containing '_' is written bare and read back with a blank")
    dbl = any(isinstance(c, ast.Call) and isinstance(c.func, ast.Attribute) and c.func.attr == "replace" and [getattr(a, "value", None) for a in c.args] == ["'", "''"] for c in walk_no_nested(gn))
    chk.decide(dbl, "R09.2", key(tm, "TreeNode.get_newick", "doubles quotes"), tm.loc(gn), "' -> '' inside a quoted name", "single quotes inside a quoted name are not doubled")
    und = any(isinstance(i, ast.If) and "closing_quote_token * 2" in norm(i.test) for i in walk_no_nested(tok))
    chk.decide(und, "R09.2", key(pm, "_Tokeniser.tokens", "un-doubles quotes"), pm.loc(tok), "'' inside a quoted label is read as '", "the tokeniser no longer un-doubles quotes inside a quoted label")
    munge = any(isinstance(c, ast.Call) and isinstance(c.func, ast.Attribute) and c.func.attr == "replace" and [getattr(a, "value", None) for a in c.args] == [" ", "_"] for c in walk_no_nested(gn))
    unmunge = any(isinstance(c, ast.Call) and isinstance(c.func, ast.Attribute) and c.func.attr == "replace" and [getattr(a, "value", None) for a in c.args] == ["_", " "] for c in walk_no_nested(tok))
    chk.decide(munge == unmunge, "R09.2", key(tm, "TreeNode.get_newick", "blank/underscore munging symmetric"), tm.loc(gn), "writer ' '->'_' and reader '_'->' ' are both present", "blank/underscore conversion exists on one side only")
    chk.floor("R09.2", 10, "9 structural characters + 4 protocol obligations")


def _kw_or_default(call, fn, name):
    """effective value (as source text) of keyword `name` at a call of fn"""
    from ..index import param_defaults

    for kw in call.keywords:
        if kw.arg == name:
            return norm(kw.value)
    ps = [p for p in params_of(fn) if p not in ("self", "cls")]
    if name in ps and ps.index(name) < len(call.args):
        return norm(call.args[ps.index(name)])
    d = param_defaults(fn).get(name)
    return norm(d) if d is not None else None


def r09_4(chk):
    chk.rule("R09.4", "JSON tree protocol: the newick written by to_rich_dict is read back by deserialise_tree with the matching convention -- blanks are munged to underscores by the writer (escape_name) exactly when the reader un-munges them (underscore_unmunge); and the writer quotes names containing newick punctuation")
    tm = chk.repo.module(TREE)
    w = tm.func("TreeNode.to_rich_dict")
    gn = tm.func("TreeNode.get_newick")
    wc = [c for c in walk_no_nested(w) if isinstance(c, ast.Call) and isinstance(c.func, ast.Attribute) and c.func.attr == "get_newick"]
    dm = chk.repo.module("util/deserialise.py")
    r = dm.func("deserialise_tree")
    rc = [c for c in walk_no_nested(r) if isinstance(c, ast.Call) and (call_name(c) or "").endswith("make_tree")]
    im = chk.repo.module("__init__.py")
    mt = im.func("make_tree")
    if not wc or not rc:
        raise AnalysisError("tree JSON writer/reader calls not found")
    esc = _kw_or_default(wc[0], gn, "escape_name")
    unm = _kw_or_default(rc[0], mt, "underscore_unmunge")
    chk.decide(esc == unm and esc in ("True", "False"), "R09.4", key(tm, "TreeNode.to_rich_dict", "munging matches the reader"), tm.loc(wc[0]), f"writer escape_name={esc}, reader underscore_unmunge={unm}", f"to_rich_dict writes its newick with escape_name={esc} (blanks {'are' if esc == 'True' else 'are not'} turned into underscores) but deserialise_tree reads it with underscore_unmunge={unm}: names containing a blank come back changed, and their edge attributes (keyed by name) are lost")
    chk.decide(esc == "True", "R09.4", key(tm, "TreeNode.to_rich_dict", "names with newick punctuation are quoted"), tm.loc(wc[0]), "names are escaped/quoted in the JSON newick", "to_rich_dict writes node names unescaped (escape_name=False): a name containing '(' ',' ':' ';' or a quote makes the stored newick unparsable, so the JSON of such a tree cannot be loaded")
    chk.floor("R09.4", 2, "two protocol obligations")


def r09_5(chk):
    chk.rule("R09.5", "TreeBuilder._unique_name: a name it modifies (counter appended) is checked again against the names in use before it is handed out (recursive call or membership loop) -- otherwise a generated name can equal a loaded one and name lookups hit the wrong node")
    from ..cfg import build, own_exprs

    m = chk.repo.module(TREE)
    fn = m.func("TreeBuilder._unique_name")
    g = build(fn)
    p = [x for x in params_of(fn) if x != "self"][0]

    def modifies(n):
        a = n.ast
        if n.kind != "stmt":
            return False
        if isinstance(a, ast.AugAssign) and norm(a.target) == p:
            return True
        if isinstance(a, ast.Assign) and norm(a.targets[0]) == p and not isinstance(a.value, ast.Constant) and any(isinstance(x, ast.Name) and x.id == p for x in ast.walk(a.value)) and not (isinstance(a.value, ast.Call) and norm(a.value.func) == "self._unique_name"):
            return True
        return False

    mods = [n for n in g.nodes if modifies(n)]
    rechecks = g.nodes_containing(lambda x: isinstance(x, ast.Call) and norm(x.func) == "self._unique_name")
    rechecks += [n for n in g.nodes if n.kind == "loop" and isinstance(n.ast, ast.While) and f"{p} in self._used_names" in norm(n.ast.test)]
    if not mods:
        chk.unresolved("R09.5", key(m, "TreeBuilder._unique_name", "re-check"), m.loc(fn), "no modification of the name found")
        return
    for n in mods:
        ok, path = g.always_followed_by(n, rechecks, exceptional=False)
        chk.decide(ok, "R09.5", key(m, "TreeBuilder._unique_name", f"re-check after `{norm(n.ast)}`"), m.loc(n.ast), "the modified name is checked again before being returned", f"`{norm(n.ast)}` makes a new name that is returned without being checked against the names already in use")
    chk.floor("R09.5", 1, "one modification site")


def _collapse_accounting(fn):
    """for unrooted(): (loop var over self.children, names derived from <loopvar>.children [promoted],
    length stores on promoted values, names carrying <loopvar>.length, length updates that add it elsewhere)"""
    loops = [f for f in walk_no_nested(fn) if isinstance(f, ast.For) and norm(f.iter) == "self.children" and isinstance(f.target, ast.Name)]
    if not loops:
        return None
    old = loops[0].target.id
    promoted = set()
    removed = set()
    changed = True
    binds = [(tg, v) for tg, v, _ in D.assignments(fn)]
    # comprehension targets bind too
    for c in ast.walk(fn):
        if isinstance(c, ast.comprehension):
            binds.append(([c.target], c.iter))
    while changed:
        changed = False
        for tg, v in binds:
            is_prom = any(norm(n) == f"{old}.children" for n in ast.walk(v)) or bool(D.names_in(v) & promoted)
            is_rem = any(norm(n) == f"{old}.length" for n in ast.walk(v)) or (bool(D.names_in(v) & removed) and not is_prom)
            for t in tg:
                for nm in ast.walk(t):
                    if isinstance(nm, ast.Name):
                        if is_prom and nm.id not in promoted:
                            promoted.add(nm.id)
                            changed = True
                        if is_rem and nm.id not in removed and nm.id not in promoted:
                            removed.add(nm.id)
                            changed = True
    stores = []
    for st in walk_no_nested(fn):
        tgt = None
        if isinstance(st, ast.AugAssign):
            tgt, val = st.target, st.value
        elif isinstance(st, ast.Assign) and len(st.targets) == 1:
            tgt, val = st.targets[0], st.value
        if tgt is not None and isinstance(tgt, ast.Attribute) and tgt.attr == "length":
            base = D.names_in(tgt.value)
            carries = any(norm(n) == f"{old}.length" for n in ast.walk(val)) or bool(D.names_in(val) & removed)
            stores.append((st, bool(base & promoted), carries))
    return old, promoted, removed, stores


def r09_6(chk):
    chk.rule("R09.6", "unrooted() removes one edge below the root (the first internal child is dissolved, its children are promoted): the promoted nodes keep their own lengths (paths between them never crossed the removed edge) and the removed length is added to the node(s) kept on the other side -- so every tip-to-tip path keeps its length")
    m = chk.repo.module(TREE)
    fn = m.func("TreeNode.unrooted")
    r = _collapse_accounting(fn)
    if r is None:
        raise AnalysisError("TreeNode.unrooted: loop over self.children not found")
    old, promoted, removed, stores = r
    if not promoted:
        raise AnalysisError("TreeNode.unrooted: promoted children not identified")
    bad = [st for st, on_prom, _ in stores if on_prom]
    for st in bad:
        chk.violation("R09.6", key(m, "TreeNode.unrooted", "promoted nodes keep their lengths"), m.loc(st), f"`{norm(st)}` changes the length of a promoted child of the dissolved node: the path between two promoted siblings never crossed the removed edge, yet grows by twice its length (((a:1,b:2)ab:3,c:4) gives a-b = 9 instead of 3)")
    if not bad:
        chk.ok("R09.6", key(m, "TreeNode.unrooted", "promoted nodes keep their lengths"), m.loc(fn), f"no length store on values derived from {old}.children")
    moved = [st for st, on_prom, carries in stores if carries and not on_prom]
    chk.decide(bool(moved), "R09.6", key(m, "TreeNode.unrooted", "removed length re-attached on the other side"), m.loc(moved[0]) if moved else m.loc(fn), f"`{norm(moved[0])[:60]}` adds {old}.length to a kept node" if moved else "", f"the length of the dissolved node ({old}.length) is not added to any kept node: paths from the promoted nodes to the rest of the tree lose it")
    chk.floor("R09.6", 2, "two accounting obligations")


def _refound_by_name(fn):
    """calls that look a node up by the .name of a node object, or detach a node object through
    TreeNode.remove (which matches the first child of that NAME, not the object)"""
    hits = [c for c in ast.walk(fn) if isinstance(c, ast.Call) and isinstance(c.func, ast.Attribute) and c.func.attr in ("get_node_matching_name", "_get_node_matching_name") and c.args and isinstance(c.args[0], ast.Attribute) and c.args[0].attr == "name"]
    # receivers that are tree nodes: self, <x>.parent, names bound from such
    nodeish = {"self"}
    for st in ast.walk(fn):
        if isinstance(st, ast.Assign) and len(st.targets) == 1 and isinstance(st.targets[0], ast.Name) and isinstance(st.value, ast.Attribute) and st.value.attr in ("parent", "_parent"):
            nodeish.add(st.targets[0].id)
    for c in ast.walk(fn):
        if isinstance(c, ast.Call) and isinstance(c.func, ast.Attribute) and c.func.attr == "remove" and len(c.args) == 1:
            r = c.func.value
            is_node = (isinstance(r, ast.Name) and r.id in nodeish) or (isinstance(r, ast.Attribute) and r.attr in ("parent", "_parent"))
            arg_is_name_text = isinstance(c.args[0], ast.Constant) or (isinstance(c.args[0], ast.Attribute) and c.args[0].attr == "name")
            if is_node and not isinstance(c.args[0], ast.Constant):
                hits.append(c)
    return hits


def r09_7(chk):
    chk.rule("R09.7", "a node is never re-found by its own name: inside the tree classes no lookup get_node_matching_name(<node>.name) is made with the name attribute of a node object -- names of internal nodes need not be unique (None, bootstrap supports as labels), the lookup returns the first match in preorder, so the operation then works on another branch; nodes of a copy are reached through tips (unique) or structurally")
    m = chk.repo.module(TREE)
    n = 0
    for cname in ("TreeNode", "PhyloNode"):
        ci = m.cls(cname)
        for name, fn in ci.methods.items():
            if not isinstance(fn, ast.FunctionDef):
                continue
            n += 1
            hits = _refound_by_name(fn)
            for c in hits:
                chk.violation("R09.7", key(m, f"{cname}.{name}", f"re-finds a node by {norm(c.args[0])[:40]}"), m.loc(c), f"`{norm(c)}` looks a node up by the name of a node object: for a tree with duplicate or missing internal names (DndParser('((c:1,d:1)90:1,(a:1,b:1)90:4);')) the first match in preorder is another node, and the operation edits the wrong branch")
            if not hits:
                chk.ok("R09.7", key(m, f"{cname}.{name}", "no lookup by a node's own name"), m.loc(fn), "", nontrivial=False)
    probe = ast.parse("def f(self):\n    tree = self.deepcopy()\n    node = tree.get_node_matching_name(climb_node.name)\n").body[0]
    if not _refound_by_name(probe):
        raise AnalysisError("R09.7 self-probe failed")
    chk.floor("R09.7", 0, "expected-zero rule with embedded probe")


def _unbounded_climbs(fn):
    """while loops that move a node variable to its parent and read that node's length in the loop test without
    bounding the climb (a test of <n>.parent / <n> against None or another node)"""
    out, n_loops = [], 0
    for w in ast.walk(fn):
        if not isinstance(w, ast.While):
            continue
        movers = {norm(st.targets[0]) for st in ast.walk(w) if isinstance(st, ast.Assign) and len(st.targets) == 1 and isinstance(st.value, ast.Attribute) and st.value.attr == "parent" and norm(st.value.value) == norm(st.targets[0])}
        for v in movers:
            reads_len = any(isinstance(x, ast.Attribute) and x.attr == "length" and norm(x.value) == v for x in ast.walk(w.test))
            if not reads_len:
                continue
            n_loops += 1
            bounded = any(isinstance(c, ast.Compare) and isinstance(c.ops[0], (ast.IsNot, ast.NotEq, ast.Is)) and norm(c.left) in (v, f"{v}.parent") for c in ast.walk(w.test)) or any(isinstance(x, ast.Call) and isinstance(x.func, ast.Attribute) and x.func.attr in ("isroot", "is_root") and norm(x.func.value) in (v, f"{v}.parent") for x in ast.walk(w.test))
            if not bounded:
                out.append((w, v))
    return out, n_loops


def r09_8(chk):
    chk.rule("R09.8", "a loop that climbs towards the root (`n = n.parent`) while its test adds n.length is bounded by the ancestor it must not pass (`n.parent is not <lca>` / `is not None`): the root has no length, and with floating-point sums the distance test alone can carry the climb past the intended node (midpoint rooting of an already midpoint-rooted tree raised TypeError)")
    m = chk.repo.module(TREE)
    total = 0
    for cname in ("TreeNode", "PhyloNode"):
        ci = m.cls(cname)
        for name, fn in ci.methods.items():
            if not isinstance(fn, ast.FunctionDef):
                continue
            bad, n = _unbounded_climbs(fn)
            total += n
            for w, v in bad:
                chk.violation("R09.8", key(m, f"{cname}.{name}", f"climb of {v} bounded"), m.loc(w), f"`while {norm(w.test)[:80]}` climbs `{v} = {v}.parent` on a length test only: when rounding leaves the sum just short at the last common ancestor the climb goes on to the root, whose length is None (TypeError), or past the branch the midpoint is on")
            if n and not bad:
                chk.ok("R09.8", key(m, f"{cname}.{name}", "climb bounded"), m.loc(fn), f"{n} climbing loop(s), each bounded by an ancestor test")
    if total < 1:
        raise AnalysisError("R09.8: no climbing loop found (root_at_midpoint's loop vanished or changed shape)")
    chk.floor("R09.8", 1, "the midpoint climb")


def r09_9(chk):
    chk.rule("R09.9", "the clade sets behind the tree distances are computed from the tree as it is NOW: TreeNode.subsets() writes its per-node scratch attribute (__leaf_set) for every node it visits before reading it -- a value left by an earlier call is never reused (nothing invalidates it when tips are pruned or renamed, and copies inherit it), otherwise distances between equal topologies are non-zero after an in-place edit")
    from ..cfg import build, own_exprs

    m = chk.repo.module(TREE)
    fn = m.func("TreeNode.subsets")
    loops = [f for f in walk_no_nested(fn) if isinstance(f, ast.For) and isinstance(f.target, ast.Name)]
    if not loops:
        raise AnalysisError("TreeNode.subsets: traversal loop not found")
    lp = loops[0]
    v = lp.target.id
    attr = None
    for st in ast.walk(lp):
        if isinstance(st, ast.Assign) and isinstance(st.targets[0], ast.Attribute) and norm(st.targets[0].value) == v and "leaf_set" in st.targets[0].attr:
            attr = st.targets[0].attr
    if attr is None:
        raise AnalysisError("TreeNode.subsets: scratch attribute store not found")
    reads = [x for x in ast.walk(lp) if isinstance(x, ast.Attribute) and x.attr == attr and isinstance(x.ctx, ast.Load) and norm(x.value) == v]
    chk.decide(not reads, "R09.9", key(m, "TreeNode.subsets", f"{attr} of the visited node is written, never reused"), m.loc(reads[0]) if reads else m.loc(lp), f"only children's {attr} (written earlier in this post-order pass) are read", f"`{norm(reads[0]) if reads else ''}` reads the scratch attribute of the node being visited, i.e. a value left by an earlier call: after tips are pruned or renamed in place (or on a copy, which inherits the attribute) subsets() still reports the old clades and rrf / mc / urf / lrm / compare_by_subsets are non-zero for equal topologies")
    chk.floor("R09.9", 1, "one traversal")


def _inline_flags(fn, test):
    """`test` with every local name that is bound exactly once in `fn` to a comparison / boolean expression replaced by
    that expression (one level): `done = (n + 1) % k == 0; if done:` reads as `if (n + 1) % k == 0:`"""
    import copy

    binds = {}
    for st in walk_no_nested(fn):
        if isinstance(st, ast.Assign) and len(st.targets) == 1 and isinstance(st.targets[0], ast.Name):
            binds.setdefault(st.targets[0].id, []).append(st.value)
    flags = {n_: v[0] for n_, v in binds.items() if len(v) == 1 and isinstance(v[0], (ast.Compare, ast.BoolOp, ast.UnaryOp))}
    if not flags:
        return test

    class _T(ast.NodeTransformer):
        def visit_Name(self, node):
            if isinstance(node.ctx, ast.Load) and node.id in flags:
                return copy.deepcopy(flags[node.id])
            return node

    return _T().visit(copy.deepcopy(test))


def _enclosing_tests(fn, target):
    """normalised tests of the if/elif branches (taken side) that enclose `target`; local boolean flags are inlined"""
    out = []

    def rec(stmts, acc):
        for st in stmts:
            if st is target:
                out.extend(acc)
                return True
            if isinstance(st, ast.If):
                tt = norm(_inline_flags(fn, st.test))
                if rec(st.body, acc + [tt]):
                    return True
                if rec(st.orelse, acc + [f"not ({tt})"]):
                    return True
            elif isinstance(st, (ast.For, ast.While)):
                if rec(st.body, acc) or rec(st.orelse, acc):
                    return True
            elif isinstance(st, ast.With):
                if rec(st.body, acc):
                    return True
            elif isinstance(st, ast.Try):
                if rec(st.body, acc) or rec(st.orelse, acc) or rec(st.finalbody, acc) or any(rec(h.body, acc) for h in st.handlers):
                    return True
        return False

    rec(fn.body, [])
    return out


def r09_10(chk):
    chk.rule("R09.10", "un-munging is the inverse of munging only for UNQUOTED labels: the writer quotes every name that contains an underscore (R09.2) precisely so that it is read back verbatim, so in the Newick tokeniser `_` -> ' ' (under underscore_unmunge) is applied in the branch that completes an unquoted label and nowhere on the path of a quoted one (not at the common yield point)")
    m = chk.repo.module("parse/newick.py")
    fn = m.func("_Tokeniser.tokens")
    reps = [st for st in ast.walk(fn) if isinstance(st, ast.Assign) and isinstance(st.value, ast.Call) and isinstance(st.value.func, ast.Attribute) and st.value.func.attr == "replace" and [getattr(a, "value", None) for a in st.value.args[:2]] == ["_", " "]]
    if not reps:
        raise AnalysisError("_Tokeniser.tokens: the underscore replacement was not found")
    for st in reps:
        tests = _enclosing_tests(fn, st)
        in_unquoted = any("token is EOT" in t and not t.startswith("not (") for t in tests) and any("closing_quote_token" in t and t.startswith("not (") for t in tests)
        at_yield = any(t == "label_complete" for t in tests)
        chk.decide(in_unquoted and not at_yield, "R09.10", key(m, "_Tokeniser.tokens", "underscores un-munged in unquoted labels only"), m.loc(st), "inside the unquoted-label completion branch", f"`{norm(st)}` runs under {tests[-2:] if tests else 'no condition'}: a QUOTED label also passes here, so 'Mus_musculus_129S1' -- quoted by the writer to keep its underscores -- is read back as 'Mus musculus 129S1' and the tip set changes")
    chk.floor("R09.10", 1, "one replacement")


def r09_11(chk):
    chk.rule("R09.11", "the JSON form keys the per-edge attributes (lengths) by node name and the reader matches them by name, so the tree that is serialised has no unnamed node: TreeNode.to_rich_dict names the unnamed nodes -- of a copy, the receiver is not modified -- before the keying loop; otherwise every unnamed node (bifurcating()/multifurcating() create them) collapses into the one key None, the reader names them edge.N, finds no attributes and their lengths are lost")
    m = chk.repo.module("core/tree.py")
    q = "TreeNode.to_rich_dict"
    fn = m.func(q)
    keyed = [st for st in walk_no_nested(fn) if isinstance(st, ast.Assign) and isinstance(st.targets[0], ast.Subscript) and isinstance(st.targets[0].slice, ast.Attribute) and st.targets[0].slice.attr == "name"]
    k = key(m, q, "no unnamed node is keyed")
    if not keyed:
        chk.ok("R09.11", k, m.loc(fn), "edge attributes are not keyed by node name", nontrivial=False)
        chk.floor("R09.11", 0, "")
        return
    loops = [lp for lp in walk_no_nested(fn) if isinstance(lp, ast.For) and any(x is keyed[0] for x in ast.walk(lp))]
    if not loops:
        raise AnalysisError(f"{q}: keying loop not found")
    lp = loops[0]
    # the tree object whose edges are keyed
    base = lp.iter.func.value if isinstance(lp.iter, ast.Call) and isinstance(lp.iter.func, ast.Attribute) else None
    names = [c for c in walk_no_nested(fn) if isinstance(c, ast.Call) and isinstance(c.func, ast.Attribute) and c.func.attr == "name_unnamed_nodes"]
    on_self = [c for c in names if norm(c.func.value) == "self"]
    same = [c for c in names if base is not None and norm(c.func.value) == norm(base)]
    if on_self:
        chk.violation("R09.11", k, m.loc(on_self[0]), "to_rich_dict renames the nodes of the receiver (serialising a tree must not change it)")
    elif not same:
        chk.violation("R09.11", k, m.loc(lp), f"`{norm(keyed[0])[:60]}` keys the attributes by node name but nothing names the unnamed nodes of `{norm(base) if base is not None else '?'}` first: make_tree('(a:1,b:2,c:3,d:4,e:5);').bifurcating() has three unnamed nodes of length 0.0; after deserialise_object(t.to_json()) they have no length and the a-e distance is 9.0 instead of 6.0")
    else:
        # newick and attributes must come from the same (named) tree
        nw = [c for c in walk_no_nested(fn) if isinstance(c, ast.Call) and isinstance(c.func, ast.Attribute) and c.func.attr == "get_newick"]
        chk.decide(bool(nw) and all(norm(c.func.value) == norm(base) for c in nw), "R09.11", k, m.loc(lp), f"unnamed nodes of `{norm(base)}` are named; newick and attributes are taken from it", "the newick text and the attribute keys are taken from different tree objects: the names cannot match")
    chk.floor("R09.11", 1, "to_rich_dict")


def r09_12(chk):
    chk.rule("R09.12", "an operation documented as returning a NEW tree never hands back the receiver: in the methods of the new-tree table no `return self` (nor a return of a name bound to `self`) -- whatever shortcut makes re-rooting / pruning / unrooting unnecessary, the caller may edit the result in place (scale lengths, rename tips) and the receiver must not change with it")
    m = chk.repo.module(TREE)
    n = 0
    for cname in ("TreeNode", "PhyloNode"):
        ci = m.cls(cname)
        for name in NEW_TREE_OPS:
            fn = ci.methods.get(name)
            if not isinstance(fn, ast.FunctionDef):
                continue
            n += 1
            aliases = {"self"} | {st.targets[0].id for st in walk_no_nested(fn) if isinstance(st, ast.Assign) and len(st.targets) == 1 and isinstance(st.targets[0], ast.Name) and isinstance(st.value, ast.Name) and st.value.id == "self"}
            bad = [r for r in walk_no_nested(fn) if isinstance(r, ast.Return) and isinstance(r.value, ast.Name) and r.value.id in aliases]
            # a name that is bound to self on one path and to a fresh tree on another is still a leak on the first path
            chk.decide(not bad, "R09.12", key(m, f"{cname}.{name}", "never returns the receiver"), m.loc(bad[0] if bad else fn), "no return of self", f"`{norm(bad[0]) if bad else ''}` (line {bad[0].lineno if bad else 0}) returns the tree the method was called on: t2 = t.{name}(...); t2.scale_branch_lengths() / a rename on t2 changes t")
    chk.floor("R09.12", 10, "methods of the new-tree table")


def r09_13(chk):
    chk.rule("R09.13", "unrooted(): the length of the dissolved edge goes to EVERY kept child of the root, whatever the order of the children -- so it is added after the loop that finds the dissolved node, not inside it (inside, a kept child listed BEFORE the dissolved node is passed while the length is still unknown: (c:4,(a:1,b:2):3) became (c:4,a:1,b:2), a-c 8 -> 5)")
    m = chk.repo.module(TREE)
    q = "TreeNode.unrooted"
    fn = m.func(q)
    loops = [lp for lp in walk_no_nested(fn) if isinstance(lp, ast.For) and norm(lp.iter) == "self.children"]
    if not loops:
        raise AnalysisError(f"{q}: loop over self.children not found")
    lp = loops[0]
    sets = [st for st in ast.walk(lp) if isinstance(st, ast.Assign) and isinstance(st.targets[0], ast.Name) and isinstance(st.value, ast.Attribute) and st.value.attr == "length"]
    k = key(m, q, "removed length added after the children were scanned")
    if not sets:
        # R09.6 reports what happens to the length in that case; nothing to order here
        chk.ok("R09.13", k, m.loc(lp), "the dissolved edge's length is not held in a local inside the loop", nontrivial=False)
        chk.floor("R09.13", 0, "")
        return
    rl = sets[0].targets[0].id
    adds_in = [st for st in ast.walk(lp) if isinstance(st, ast.AugAssign) and isinstance(st.op, ast.Add) and any(isinstance(x, ast.Name) and x.id == rl for x in ast.walk(st.value))]
    adds_all = [st for st in walk_no_nested(fn) if isinstance(st, ast.AugAssign) and isinstance(st.op, ast.Add) and any(isinstance(x, ast.Name) and x.id == rl for x in ast.walk(st.value))]
    if adds_in:
        chk.violation("R09.13", k, m.loc(adds_in[0]), f"`{norm(adds_in[0])}` sits inside the loop over self.children in which `{rl}` is found: a kept child that precedes the dissolved node does not receive the length")
    else:
        chk.decide(bool(adds_all), "R09.13", k, m.loc(adds_all[0] if adds_all else fn), f"`{rl}` is added in a pass after the loop", f"`{rl}` is never added to the kept children")
    chk.floor("R09.13", 1, "unrooted")


def r09_14(chk):
    chk.rule("R09.14", "name_unnamed_nodes: a generated name is tested against ALL the names already in the tree -- the collection behind the `while <new> in <names>` test is filled from a complete traversal that finishes before the first name is assigned (filled on the way, a tip called node1 that comes later in the traversal is not yet known when the first unnamed node is reached: two nodes called node1, and to_rich_dict, which keys lengths by name, loses one)")
    m = chk.repo.module(TREE)
    q = "TreeNode.name_unnamed_nodes"
    fn = m.func(q)
    k = key(m, q, "names in use collected before the first assignment")
    tests = [w.test for w in walk_no_nested(fn) if isinstance(w, ast.While) and isinstance(w.test, ast.Compare) and len(w.test.ops) == 1 and isinstance(w.test.ops[0], ast.In) and isinstance(w.test.comparators[0], ast.Name)]
    if not tests:
        # another freshness idiom (a not-in filter over a generator, say): not decided here
        chk.unresolved("R09.14", k, m.loc(fn), "no `while <name> in <collection>` freshness loop")
        chk.floor("R09.14", 0, "")
        return
    coll = tests[0].comparators[0].id

    def stores_name(st):
        return any(isinstance(x, (ast.Assign, ast.AugAssign)) and any(isinstance(t, ast.Attribute) and t.attr in ("name", "_name") for t in (x.targets if isinstance(x, ast.Assign) else [x.target])) for x in ast.walk(st))

    def fills(st):
        # the collection receives existing names: bound from / extended with something that reads `.name` or a *_names() query
        for x in ast.walk(st):
            src = None
            if isinstance(x, ast.Assign) and any(isinstance(t, ast.Name) and t.id == coll for t in x.targets):
                src = x.value
            elif isinstance(x, ast.Call) and isinstance(x.func, ast.Attribute) and isinstance(x.func.value, ast.Name) and x.func.value.id == coll and x.func.attr in ("append", "add", "extend", "update"):
                src = x
            if src is not None and any((isinstance(y, ast.Attribute) and y.attr == "name") or (isinstance(y, ast.Call) and isinstance(y.func, ast.Attribute) and y.func.attr in ("get_node_names", "get_edge_names", "get_nodes_dict")) for y in ast.walk(src)):
                return True
        return False

    body = [st for st in fn.body]
    first_store = next((i for i, st in enumerate(body) if stores_name(st)), None)
    if first_store is None:
        raise AnalysisError(f"{q}: no statement assigns a node name")
    pre = [st for st in body[:first_store] if fills(st)]
    late = fills(body[first_store])
    if pre and not late:
        chk.ok("R09.14", k, m.loc(pre[0]), f"`{coll}` is filled from the whole tree before the loop that assigns names")
    elif pre:
        # also topped up inside the assigning loop: harmless (the complete set is already known)
        chk.ok("R09.14", k, m.loc(pre[0]), f"`{coll}` is filled from the whole tree before the loop that assigns names (and topped up inside it)")
    else:
        chk.violation("R09.14", k, m.loc(body[first_store]), f"`{coll}` learns the existing names only inside the loop that hands out new ones: a node named like a generated name (node1, node2 ...) that is visited later is not seen, and two nodes end up with the same name")
    chk.floor("R09.14", 1, "name_unnamed_nodes")


def r09_15(chk):
    chk.rule("R09.15", "JSON tree protocol, the root: get_newick(with_node_names=True) writes NO name for the root while to_rich_dict files the root's attributes under its real name, so the reader must recover that name -- deserialise_tree assigns the rebuilt root's name from the keys of edge_attributes (or the writer stores it separately); otherwise a root not called 'root' comes back as 'root' and its params are dropped")
    tm = chk.repo.module(TREE)
    gn = tm.func("TreeNode.get_newick")
    # does the writer blank the root's name?
    blanks = any(isinstance(i, ast.If) and "is_root" in norm(i.test) + "" and "with_node_names" in norm(i.test) and any(isinstance(st, ast.Assign) and isinstance(st.value, ast.Constant) and st.value.value == "" for st in i.body) for i in ast.walk(gn))
    w = tm.func("TreeNode.to_rich_dict")
    writes_root_name = any(isinstance(c, ast.keyword) and c.arg in ("root_name", "root") for c in ast.walk(w)) or any(isinstance(x, ast.Constant) and x.value in ("root_name",) for x in ast.walk(w))
    dm = chk.repo.module("util/deserialise.py")
    r = dm.func("deserialise_tree")
    k = key(dm, "deserialise_tree", "root name recovered")
    if not blanks:
        chk.ok("R09.15", k, dm.loc(r), "the newick writer keeps the root's name", nontrivial=False)
        chk.floor("R09.15", 0, "")
        return
    attr_names = {st.targets[0].id for st in walk_no_nested(r) if isinstance(st, ast.Assign) and isinstance(st.targets[0], ast.Name) and "edge_attributes" in norm(st.value)}
    derived = set(attr_names)
    grew = True
    while grew:
        grew = False
        for st in walk_no_nested(r):
            if isinstance(st, ast.Assign) and isinstance(st.targets[0], ast.Name) and st.targets[0].id not in derived and any(isinstance(x, ast.Name) and x.id in derived for x in ast.walk(st.value)):
                derived.add(st.targets[0].id)
                grew = True
    sets = [st for st in walk_no_nested(r) if isinstance(st, ast.Assign) and isinstance(st.targets[0], ast.Attribute) and st.targets[0].attr == "name" and any(isinstance(x, ast.Name) and x.id in derived for x in ast.walk(st.value))]
    chk.decide(bool(sets) or writes_root_name, "R09.15", k, dm.loc(sets[0] if sets else r), f"`{norm(sets[0]) if sets else 'root name stored by the writer'}`", "the root's name is written nowhere the reader looks: make_tree('((a:1,b:2)ab:3,c:4)myroot;') with params on the root comes back from JSON named 'root' and without those params")
    chk.floor("R09.15", 1, "deserialise_tree")


def run(chk):
    r09_15(chk)
    r09_14(chk)
    r09_13(chk)
    r09_12(chk)
    r09_11(chk)
    r09_10(chk)
    r09_9(chk)
    r09_8(chk)
    r09_7(chk)
    r09_6(chk)
    r09_1(chk)
    r09_2(chk)
    r09_4(chk)
    r09_5(chk)
    chk.assume("tree effect facts: node constructors and append/extend/insert adopt their children (re-parenting them); `x.parent = y` mutates x, x's old parent and y (derived from the setter); TreeBuilder.edge_from_edge keeps the template's params dict iff _params_for_edge returns edge.params")
    chk.assume("calls whose receiver kind is unknown and whose name is not a tree method are unresolved: no effect assumed, no violation reported through them")
