"""C10 -- every serialisable object round-trips.

Observational equality is not decided.  Decided: dispatch and interface.
R10.1 the deserialiser registry dispatches every serialisable subclass, unambiguously
R10.2 writer keys cover the keys its reader requires
R10.3 no effect is lost while a deserialiser rebuilds an object

Added in build round 2 (see DESIGN.md section 3, round-2 table):
R10.5 pickle protocol pairs agree: for every class defining both __getstate__ and __setstate__, the keys __setstate__ requires are written by __getstate__ ...

Added later in build rounds 2-3 (see DESIGN.md section 3, round-2/3 table):
R10.6 state that records an object's history is part of its serialised form: for each class of the curated history-state table (SeqsData.reversed_seqs, ...
"""

from __future__ import annotations

import ast

from ..index import AnalysisError, call_name, norm, params_of, strip_docstring, walk_no_nested
from ..report import key

DES = "util/deserialise.py"

# subclasses of registered classes that are deliberately not serialisable: class -> reason
NOT_SERIALISABLE = {
    "cogent3.draw.dendrogram.TreeGeometryBase": "transient layout helper built from a tree for drawing; the drawable, not the geometry, is what users keep",
    "cogent3.draw.dendrogram.SquareTreeGeometry": "as TreeGeometryBase",
    "cogent3.draw.dendrogram.AngularTreeGeometry": "as TreeGeometryBase",
    "cogent3.draw.dendrogram.CircularTreeGeometry": "as TreeGeometryBase",
    "cogent3.draw.dendrogram.RadialTreeGeometry": "as TreeGeometryBase",
    "cogent3.parse.ncbi_taxonomy.NcbiTaxonNode": "cannot be written either: its to_rich_dict raises AttributeError (no name_loaded), so no JSON of this type exists to fail on loading; taxonomy nodes are rebuilt from the NCBI dump files",
}


def registry(chk):
    """[(key, module, decorator call, function name, order)] in registration order
    per module; deserialise.py registers first (every other module imports it)"""
    out = []
    mods = [chk.repo.module(DES)] + [m for m in chk.repo.all_modules() if not m.rel.endswith(DES)]
    for m in mods:
        if "register_deserialiser" not in m.source:
            continue
        for node in m.tree.body:
            if not isinstance(node, (ast.FunctionDef, ast.ClassDef)):
                continue
            for d in node.decorator_list:
                if isinstance(d, ast.Call) and call_name(d) == "register_deserialiser":
                    for a in d.args:
                        if isinstance(a, ast.Constant) and isinstance(a.value, str):
                            out.append((a.value, m, d, node))
                        elif isinstance(a, ast.Call) and call_name(a) == "get_object_provenance" and a.args:
                            ci = chk.repo.resolve_class_expr(m, a.args[0])
                            if ci is None:
                                chk.unresolved("R10.1", key(m, node.name, f"key {norm(a)}"), m.loc(d), "cannot resolve the class whose provenance is the key")
                            else:
                                out.append((ci.fq, m, d, node))
                        else:
                            chk.unresolved("R10.1", key(m, node.name, f"key {norm(a)}"), m.loc(d), "non-literal registration key")
    return out


def _writes_own_provenance(fn):
    return any(isinstance(c, ast.Call) and call_name(c) == "get_object_provenance" and c.args and norm(c.args[0]) == "self" for c in ast.walk(fn))


def r10_1(chk):
    chk.rule("R10.1", "dispatch is substring containment in registration order: (i) every class derived from a class the registry dispatches, whose to_rich_dict writes type=get_object_provenance(self), is dispatched too; (ii) when several keys match one provenance the first registered is the most specific (or they map to one function); keys are unique")
    reg = registry(chk)
    keys = [k for k, *_ in reg]
    chk.decide(len(keys) == len(set(keys)), "R10.1", key(DES, "<registry>", "unique keys"), f"src/cogent3/{DES}:1", f"{len(keys)} keys, all distinct", f"duplicate keys {[k for k in keys if keys.count(k) > 1]}")
    chk.extra["registry_keys"] = keys

    def matches(fq):
        return [(k, m, d, f) for k, m, d, f in reg if k in fq]

    dispatched = []
    classes = list(chk.repo.all_classes())
    for ci in classes:
        r = ci.resolve("to_rich_dict")
        if not r or not isinstance(r[1], ast.FunctionDef):
            continue
        if matches(ci.fq) and _writes_own_provenance(r[1]):
            dispatched.append(ci)
    chk.extra["dispatched_classes"] = len(dispatched)
    # (i) closure under subclassing
    for ci in classes:
        r = ci.resolve("to_rich_dict")
        if not r or not isinstance(r[1], ast.FunctionDef) or not _writes_own_provenance(r[1]):
            continue
        try:
            bases = [b for b in ci.mro()[1:] if b in dispatched]
        except AnalysisError:
            continue
        if not bases:
            continue
        k = key(ci.module, ci.name, "dispatched")
        ms = matches(ci.fq)
        if ms:
            chk.ok("R10.1", k, ci.module.loc(ci.node), f"type {ci.fq!r} -> {ms[0][3].name} (key {ms[0][0]!r})")
        elif ci.fq in NOT_SERIALISABLE:
            chk.advisory("R10.1", k, ci.module.loc(ci.node), f"no deserialiser; exempt: {NOT_SERIALISABLE[ci.fq]}")
        else:
            chk.violation("R10.1", k, ci.module.loc(ci.node), f"{ci.fq} inherits to_rich_dict from {bases[0].name} (which round-trips) and writes its own provenance as type, but no registered key matches it: deserialise_object raises NotImplementedError for its JSON")
    # (ii) ambiguity
    for ci in dispatched:
        ms = matches(ci.fq)
        if len(ms) < 2:
            continue
        k = key(ci.module, ci.name, "unambiguous dispatch")
        funcs = {f.name for _, _, _, f in ms}
        first = ms[0][0]
        most_specific = max((kk for kk, *_ in ms), key=len)
        same_mod = len({m.rel for _, m, _, _ in ms}) == 1
        if len(funcs) == 1:
            chk.ok("R10.1", k, ci.module.loc(ci.node), f"keys {[kk for kk, *_ in ms]} map to one function")
        else:
            chk.decide(first == most_specific and same_mod, "R10.1", k, ci.module.loc(ci.node), f"first matching key {first!r} is the most specific of {[kk for kk, *_ in ms]}", f"keys {[kk for kk, *_ in ms]} match {ci.fq}; the first registered ({first!r}) is not the most specific or they are registered in different modules (import order would decide): the wrong deserialiser is used")
    chk.floor("R10.1", 40, "~90 dispatched classes derive from a dispatched base on the pinned tree")


# ---------------------------------------------------------------------------


def _top_level_exprs(fn):
    for st in strip_docstring(fn.body):
        if isinstance(st, (ast.If, ast.Try, ast.For, ast.While, ast.With, ast.FunctionDef)):
            continue
        yield st


def _walk_unconditional(node):
    """walk an expression/statement without entering conditional sub-expressions"""
    stack = [node]
    while stack:
        n = stack.pop()
        yield n
        for c in ast.iter_child_nodes(n):
            if isinstance(n, ast.IfExp) and c is not n.test:
                continue
            if isinstance(n, ast.BoolOp) and c is not n.values[0]:
                continue
            stack.append(c)


def reader_summary(chk, module, fn, pidx=0, depth=2):
    """(required keys, popped keys, [calls `K(..., **data)`]) of a reader for its data
    parameter, following `X.from_rich_dict(data)` and module helpers `h(data)`"""
    ps = [p for p in params_of(fn)]
    if fn.decorator_list and any(norm(d) == "classmethod" for d in fn.decorator_list):
        ps = ps[1:]
    if len(ps) <= pidx:
        return set(), set(), []
    p = ps[pidx]
    req, popped, spreads = set(), set(), []
    for st in _top_level_exprs(fn):
        for c in _walk_unconditional(st):
            if isinstance(c, ast.Call) and norm(c.func) == f"{p}.pop" and c.args and isinstance(c.args[0], ast.Constant):
                popped.add(c.args[0].value)
                if len(c.args) == 1:
                    req.add(c.args[0].value)
            elif isinstance(c, ast.Subscript) and norm(c.value) == p and isinstance(c.slice, ast.Constant) and isinstance(c.ctx, ast.Load) and isinstance(c.slice.value, str):
                req.add(c.slice.value)
            elif isinstance(c, ast.Call):
                passes = [i for i, a in enumerate(c.args) if isinstance(a, ast.Name) and a.id == p]
                if any(kw.arg is None and isinstance(kw.value, ast.Name) and kw.value.id == p for kw in c.keywords):
                    spreads.append((module, c))
                if passes and depth > 0:
                    tgt = None
                    if isinstance(c.func, ast.Attribute) and c.func.attr in ("from_rich_dict", "from_dict"):
                        ci = chk.repo.resolve_class_expr(module, c.func.value)
                        if ci is None and isinstance(c.func.value, ast.Name) and c.func.value.id in ("cls", "klass"):
                            ci = None
                        if ci is not None:
                            r = ci.resolve(c.func.attr)
                            if r and isinstance(r[1], ast.FunctionDef):
                                tgt = (r[0].module, r[1])
                    elif isinstance(c.func, ast.Name):
                        r = module.repo.resolve(module, c.func.id)
                        if r and r[0] == "func":
                            tgt = (r[1], r[2])
                    if tgt:
                        r2, p2, s2 = reader_summary(chk, tgt[0], tgt[1], passes[0], depth - 1)
                        req |= r2
                        popped |= p2
                        spreads += s2
    return req, popped, spreads


def required_reader_keys(fn):
    return None, set()


def writer_keys(fn):
    """(explicit keys, open) -- keys written into the returned dict by a to_rich_dict;
    open=True when the dict also receives keys we cannot enumerate"""
    rets = [r for r in walk_no_nested(fn) if isinstance(r, ast.Return) and r.value is not None]
    if not rets:
        return set(), True
    keys, open_ = set(), False
    names = set()
    for r in rets:
        if isinstance(r.value, ast.Name):
            names.add(r.value.id)
        elif isinstance(r.value, (ast.Dict, ast.Call)):
            k2, o2 = _dict_keys(r.value)
            keys |= k2
            open_ |= o2
        else:
            open_ = True
    for st in walk_no_nested(fn):
        if isinstance(st, ast.Assign):
            for t in st.targets:
                if isinstance(t, ast.Name) and t.id in names:
                    k2, o2 = _dict_keys(st.value)
                    keys |= k2
                    open_ |= o2
                if isinstance(t, ast.Subscript) and isinstance(t.value, ast.Name) and t.value.id in names:
                    if isinstance(t.slice, ast.Constant) and isinstance(t.slice.value, str):
                        keys.add(t.slice.value)
                    else:
                        open_ = True
        if isinstance(st, ast.AugAssign) and isinstance(st.op, ast.BitOr) and isinstance(st.target, ast.Name) and st.target.id in names:
            k2, o2 = _dict_keys(st.value)
            keys |= k2
            open_ |= o2
        if isinstance(st, ast.Expr) and isinstance(st.value, ast.Call) and isinstance(st.value.func, ast.Attribute) and st.value.func.attr == "update" and isinstance(st.value.func.value, ast.Name) and st.value.func.value.id in names:
            for a in st.value.args:
                k2, o2 = _dict_keys(a)
                keys |= k2
                open_ |= o2
            for kw in st.value.keywords:
                if kw.arg:
                    keys.add(kw.arg)
                else:
                    open_ = True
    return keys, open_


def optional_writer_keys(fn):
    """keys stored only under an `if hasattr(...)` / `if <attr>` guard: present for some objects only"""
    out = set()
    for i in walk_no_nested(fn):
        if isinstance(i, ast.If) and any(isinstance(c, ast.Call) and call_name(c) == "hasattr" for c in ast.walk(i.test)):
            for st in i.body:
                for x in ast.walk(st):
                    if isinstance(x, ast.Subscript) and isinstance(x.ctx, ast.Store) and isinstance(x.slice, ast.Constant):
                        out.add(x.slice.value)
                    if isinstance(x, ast.AugAssign) and isinstance(x.op, ast.BitOr):
                        out |= _dict_keys(x.value)[0]
    return out


def _dict_keys(v):
    if isinstance(v, ast.Dict):
        keys, open_ = set(), False
        for k in v.keys:
            if k is None:
                open_ = True
            elif isinstance(k, ast.Constant) and isinstance(k.value, str):
                keys.add(k.value)
            else:
                open_ = True
        return keys, open_
    if isinstance(v, ast.Call) and call_name(v) == "dict" and not v.args:
        keys, open_ = set(), False
        for kw in v.keywords:
            if kw.arg:
                keys.add(kw.arg)
            else:
                open_ = True
        return keys, open_
    return set(), True


def r10_2(chk):
    chk.rule("R10.2", "for each dispatched class the keys its deserialiser requires unconditionally (data.pop('k') / data['k'] at the top level) are written by the class's to_rich_dict; pairs where the writer's key set is open (copies of _serialisable, **spreads) are unresolved")
    reg = registry(chk)
    n = 0
    seen_pairs = set()
    for ci in chk.repo.all_classes():
        r = ci.resolve("to_rich_dict")
        if not r or not isinstance(r[1], ast.FunctionDef) or not _writes_own_provenance(r[1]):
            continue
        ms = [(k, m, d, f) for k, m, d, f in reg if k in ci.fq]
        if not ms:
            continue
        _, m, d, f = ms[0]
        if not isinstance(f, ast.FunctionDef):
            continue
        pair = (r[0].fq, r[1].name, f.name)
        if pair in seen_pairs:
            continue
        seen_pairs.add(pair)
        req, popped, spreads = reader_summary(chk, m, f)
        wk, open_ = writer_keys(r[1])
        k = key(r[0].module, f"{r[0].name}.to_rich_dict", f"read by {f.name}")
        missing = req - wk - {"type", "version"}
        if not req:
            chk.unresolved("R10.2", k, m.loc(f), "reader demands no key unconditionally")
            continue
        if missing and open_:
            chk.unresolved("R10.2", k, r[0].module.loc(r[1]), f"reader requires {sorted(req)}; writer's explicit keys {sorted(wk)} but its key set is open")
            continue
        n += 1
        chk.decide(not missing, "R10.2", k, r[0].module.loc(r[1]), f"reader requires {sorted(req)}, all written", f"{f.name} requires key(s) {sorted(missing)} that {r[0].name}.to_rich_dict does not write: loading raises KeyError")
        # keys left in the dict when the reader ends in cls(..., **data) must be constructor parameters
        if spreads and not open_:
            init = ci.resolve("__init__")
            if init and isinstance(init[1], ast.FunctionDef) and init[1].args.kwarg is None:
                ctor = set(params_of(init[1])) - {"self"}
                for smod, call in spreads:
                    if norm(call.func) not in ("cls", "klass", ci.name):
                        continue
                    explicit = {kw.arg for kw in call.keywords if kw.arg}
                    left = wk - popped - explicit - optional_writer_keys(r[1])
                    extra = left - ctor
                    chk.decide(not extra, "R10.2", key(r[0].module, f"{ci.name}", f"leftover keys fit {ci.name}.__init__"), smod.loc(call), f"keys left for **data {sorted(left)} are constructor parameters", f"{r[0].name}.to_rich_dict writes {sorted(extra)} which the reader neither pops nor {ci.name}.__init__ accepts: loading raises TypeError")
    chk.floor("R10.2", 8, "pairs with explicit keys on both sides")


def r10_3(chk):
    chk.rule("R10.3", "in deserialisers / from_rich_dict an object bound to a local is not rebuilt after setters were applied to it (the effects of those setters would be lost)")
    n = 0
    for mod in chk.repo.all_modules():
        for q, fn in mod.all_functions():
            name = q.split(".")[-1]
            if not (name.startswith("deserialise") or name in ("from_rich_dict", "from_dict", "from_json")):
                continue
            n += 1
            body = strip_docstring(fn.body)
            # straight-line scan of top-level statements
            last_bind = {}
            effects = {}
            for st in body:
                if isinstance(st, ast.Assign) and len(st.targets) == 1 and isinstance(st.targets[0], ast.Name) and isinstance(st.value, ast.Call):
                    v = st.targets[0].id
                    if v in last_bind and effects.get(v) and norm(st.value) == norm(last_bind[v].value):
                        chk.violation("R10.3", key(mod, q, f"{v} rebuilt after {norm(effects[v][0])}"), mod.loc(st), f"`{v}` is constructed again by `{norm(st.value)}` after `{norm(effects[v][0])}` was applied to the first object: that setting is lost in the object returned")
                    last_bind[v] = st
                    effects[v] = []
                elif isinstance(st, ast.Expr) and isinstance(st.value, ast.Call) and isinstance(st.value.func, ast.Attribute) and isinstance(st.value.func.value, ast.Name):
                    v = st.value.func.value.id
                    if v in last_bind and (st.value.func.attr.startswith("set_") or st.value.func.attr in ("update", "append", "add")):
                        effects.setdefault(v, []).append(st.value)
            chk.ok("R10.3", key(mod, q, "no lost effect"), mod.loc(fn), "scanned", nontrivial=bool(effects and any(effects.values())))
    chk.floor("R10.3", 15, "deserialise_* and from_rich_dict functions package-wide")
    probe = ast.parse("def deserialise_x(data):\n    lf = make(data)\n    lf.set_name(1)\n    lf = make(data)\n    return lf\n").body[0]
    b = probe.body
    if not (norm(b[0].value) == norm(b[2].value)):
        raise AnalysisError("R10.3 self-probe failed")


def r10_5(chk):
    chk.rule("R10.5", "pickle protocol pairs agree: for every class defining both __getstate__ and __setstate__, the keys __setstate__ requires are written by __getstate__ (dict state), or the tuple __getstate__ returns lists the attributes in the order of the __init__ parameters that `self.__init__(*args)` feeds them to (tuple state)")
    n = 0
    for ci in chk.repo.all_classes():
        gs, ss = ci.methods.get("__getstate__"), ci.methods.get("__setstate__")
        if gs is None or ss is None:
            continue
        m = ci.module
        k = key(m, ci.name, "__getstate__ / __setstate__")
        rets = [r for r in walk_no_nested(gs) if isinstance(r, ast.Return) and r.value is not None]
        sp = [p for p in params_of(ss) if p != "self"]
        if not rets or not sp:
            chk.unresolved("R10.5", k, m.loc(gs), "no return / state parameter")
            continue
        state = sp[0]
        # tuple state fed to __init__(*args)
        tup = [r.value for r in rets if isinstance(r.value, ast.Tuple)]
        star_init = any(isinstance(c, ast.Call) and norm(c.func) == "self.__init__" and any(isinstance(a, ast.Starred) and norm(a.value) == state for a in c.args) for c in walk_no_nested(ss))
        if tup and star_init:
            init = ci.resolve("__init__")
            if not init or not isinstance(init[1], ast.FunctionDef):
                chk.unresolved("R10.5", k, m.loc(gs), "__init__ not resolvable")
                continue
            ips = [p for p in params_of(init[1]) if p != "self"]
            attrs = [e.attr if isinstance(e, ast.Attribute) and norm(e.value) == "self" else None for e in tup[0].elts]
            n += 1
            good = None not in attrs and attrs == ips[: len(attrs)]
            # attribute names may carry a leading underscore
            if not good and None not in attrs:
                good = [a.lstrip("_") for a in attrs] == [p.lstrip("_") for p in ips[: len(attrs)]]
            chk.decide(good, "R10.5", k, m.loc(gs), f"state tuple {attrs} matches __init__{tuple(ips[:len(attrs)])}", f"__getstate__ returns {attrs} but __setstate__ feeds the tuple to __init__{tuple(ips)}: after unpickling the values land in the wrong parameters")
            continue
        # tuple state unpacked attribute by attribute
        unpack = [st for st in walk_no_nested(ss) if isinstance(st, ast.Assign) and isinstance(st.targets[0], ast.Tuple) and norm(st.value) == state]
        if tup and unpack:
            wa = [norm(e) for e in tup[0].elts]
            ra = [norm(e) for e in unpack[0].targets[0].elts]
            n += 1
            chk.decide(wa == ra, "R10.5", k, m.loc(gs), f"state tuple {wa} unpacked in the same order", f"__getstate__ returns {wa} but __setstate__ unpacks into {ra}: attributes are exchanged after unpickling")
            continue
        # dict state
        wk, open_ = set(), False
        for r in rets:
            if isinstance(r.value, (ast.Dict, ast.Call)) and not (isinstance(r.value, ast.Call) and call_name(r.value) != "dict"):
                k2, o2 = _dict_keys(r.value)
                wk |= k2
                open_ |= o2
            elif isinstance(r.value, ast.Name):
                k2, o2 = writer_keys(gs)
                wk |= k2
                open_ |= o2
            else:
                open_ = True
        req = set()
        for st in _top_level_exprs(ss):
            for c in _walk_unconditional(st):
                if isinstance(c, ast.Call) and norm(c.func) == f"{state}.pop" and len(c.args) == 1 and isinstance(c.args[0], ast.Constant):
                    req.add(c.args[0].value)
                elif isinstance(c, ast.Subscript) and norm(c.value) == state and isinstance(c.slice, ast.Constant) and isinstance(c.ctx, ast.Load) and isinstance(c.slice.value, str):
                    req.add(c.slice.value)
        if not req:
            chk.unresolved("R10.5", k, m.loc(ss), "__setstate__ requires no key unconditionally (conditional or delegated)")
            continue
        missing = req - wk
        if missing and open_:
            chk.unresolved("R10.5", k, m.loc(gs), f"__setstate__ requires {sorted(req)}; __getstate__'s key set is open")
            continue
        n += 1
        chk.decide(not missing, "R10.5", k, m.loc(gs), f"__setstate__ requires {sorted(req)}, all written", f"__setstate__ requires {sorted(missing)} which __getstate__ does not write: unpickling raises KeyError")
    chk.floor("R10.5", 4, "Span, LostSpan, Columns, Table on the pinned tree")


def r10_6(chk):
    chk.rule("R10.6", "state that records an object's history is part of its serialised form: for each class of the curated history-state table (SeqsData.reversed_seqs, IndelMap.termini_unknown) to_rich_dict writes that constructor parameter -- as a literal key, or through an open copy of the captured constructor arguments (_serialisable / **) -- otherwise the object reloads with the default and displays other characters")
    from . import c03

    for rel, cname, param, why in c03.HISTORY_STATE:
        m = chk.repo.module(rel)
        ci = m.cls(cname)
        r = ci.resolve("to_rich_dict")
        if r is None or not isinstance(r[1], ast.FunctionDef):
            raise AnalysisError(f"{rel}::{cname}.to_rich_dict not found")
        fn = r[1]
        keys = set()
        open_copy = False
        for x in ast.walk(fn):
            if isinstance(x, ast.Dict):
                for kx in x.keys:
                    if kx is None:
                        open_copy = True
                    elif isinstance(kx, ast.Constant) and isinstance(kx.value, str):
                        keys.add(kx.value)
            if isinstance(x, ast.Subscript) and isinstance(x.ctx, ast.Store) and isinstance(x.slice, ast.Constant) and isinstance(x.slice.value, str):
                keys.add(x.slice.value)
            if isinstance(x, ast.Attribute) and x.attr == "_serialisable":
                open_copy = True
            if isinstance(x, ast.Call) and call_name(x) in ("dict",) and any(kw.arg is None for kw in x.keywords):
                open_copy = True
            if isinstance(x, ast.keyword) and x.arg == param:
                keys.add(param)
        chk.decide(param in keys or open_copy, "R10.6", key(m, f"{cname}.to_rich_dict", f"writes {param}"), m.loc(fn), f"`{param}` written ({'open copy of the constructor arguments' if open_copy and param not in keys else 'literal key'})", f"to_rich_dict writes {sorted(keys)} but not `{param}` ({why}): after a JSON round trip the object falls back to the default and shows different characters ('??ACG-TA??' comes back as '--ACG-TA--')")
    chk.floor("R10.6", 2, "two history-state classes")


def r10_7(chk):
    chk.rule("R10.7", "what defines a substitution model is in its serialised form: every named parameter of an __init__ in the substitution-model modules is captured into self._serialisable in that __init__ (the `d = locals(); self._serialisable.update(d)` idiom, or an explicit store), or handed by name to a base-class __init__ / into **kw that does -- a parameter consumed locally (the genetic code of the codon models) is otherwise silently replaced by its default on reload")
    n = 0
    for rel in ("evolve/substitution_model.py", "evolve/ns_substitution_model.py"):
        m = chk.repo.module(rel)
        for cname, ci in m.classes.items():
            init = ci.methods.get("__init__")
            if not isinstance(init, ast.FunctionDef):
                continue
            # only classes of the model hierarchy (they own or inherit _serialisable)
            try:
                mro_names = {c.name for c in ci.mro()}
            except AnalysisError:
                continue
            if "_SubstitutionModel" not in mro_names:
                continue
            named = [a.arg for a in init.args.args[1:] + init.args.kwonlyargs if a.arg not in ("alphabet",)]
            if not named:
                continue
            src = init
            captures_locals = any(isinstance(c, ast.Call) and call_name(c) == "locals" for c in ast.walk(src)) and any(isinstance(x, ast.Attribute) and x.attr == "_serialisable" for x in ast.walk(src))
            for p_ in named:
                n += 1
                stored = any(isinstance(x, ast.Subscript) and isinstance(x.ctx, ast.Store) and isinstance(x.value, ast.Attribute) and x.value.attr == "_serialisable" and isinstance(x.slice, ast.Constant) and x.slice.value == p_ for x in ast.walk(src)) or any(isinstance(c, ast.Call) and isinstance(c.func, ast.Attribute) and c.func.attr == "update" and isinstance(c.func.value, ast.Attribute) and c.func.value.attr == "_serialisable" and any(kw.arg == p_ for kw in c.keywords) for c in ast.walk(src))
                forwarded = False
                for c in ast.walk(src):
                    if isinstance(c, ast.Call) and isinstance(c.func, ast.Attribute) and c.func.attr == "__init__":
                        if any(kw.arg == p_ for kw in c.keywords) or any(isinstance(a, ast.Name) and a.id == p_ for a in c.args):
                            forwarded = True
                    if isinstance(c, ast.Subscript) and isinstance(c.ctx, ast.Store) and isinstance(c.value, ast.Name) and c.value.id in ("kw", "kwargs") and isinstance(c.slice, ast.Constant) and c.slice.value == p_:
                        forwarded = True
                chk.decide(captures_locals or stored or forwarded, "R10.7", key(m, f"{cname}.__init__", f"parameter {p_} serialised"), m.loc(init), "captured by locals() / stored / forwarded by name", f"`{p_}` is used inside {cname}.__init__ but never reaches self._serialisable (not captured, not stored, not handed to a base __init__ by name): to_rich_dict() omits it and the model is rebuilt with the default -- get_model('CNFGTR', gc=4) reloads over the standard genetic code")
    chk.floor("R10.7", 6, "named constructor parameters in the substitution-model hierarchy")


SNAPSHOT_MODULE = "core/location.py"
# element type of the containers the module iterates over (repo naming)
ELEMENT_TYPES = {"spans": "Span"}
CTOR_LIKE = ("__init__", "_new_init", "__post_init__", "__setstate__", "__new__", "from_rich_dict", "from_spans", "from_locations", "from_aligned_segments")


def _snapshot_keys(ci):
    """constructor parameters captured by the `_serialisable` snapshot of class ci (None when it has none)"""
    for c in ci.mro():
        init = c.methods.get("__init__")
        if init is not None and any(isinstance(x, ast.Attribute) and x.attr == "_serialisable" and isinstance(x.ctx, ast.Store) for x in ast.walk(init)):
            return [a.arg for a in init.args.args[1:] + init.args.kwonlyargs]
    # dataclass style: `_serialisable` is a declared field filled by a shared __new__; the init fields are the keys
    if any(isinstance(st, ast.AnnAssign) and isinstance(st.target, ast.Name) and st.target.id == "_serialisable" for c in ci.mro() for st in c.node.body):
        fields = []
        for c in ci.mro():
            for st in c.node.body:
                if isinstance(st, ast.AnnAssign) and isinstance(st.target, ast.Name) and not st.target.id.startswith("_"):
                    init_false = isinstance(st.value, ast.Call) and any(kw.arg == "init" and isinstance(kw.value, ast.Constant) and kw.value.value is False for kw in st.value.keywords)
                    if not init_false and "InitVar" not in norm(st.annotation):
                        fields.append(st.target.id)
        return fields
    return None


def r10_8(chk):
    chk.rule("R10.8", "a constructor-argument snapshot is only as good as the object is immutable: for every class of core/location.py whose to_rich_dict starts from `self._serialisable` (taken in __init__), each snapshot key that some non-constructor code stores on an instance -- `self.k = ...` in a method, `<copy of self>.k = ...`, `span.k -= ...` on elements of `.spans` -- is overwritten in to_rich_dict from the live attribute (or the same code updates the snapshot); otherwise the JSON form describes the object as it was constructed, not as it is")
    m = chk.repo.module(SNAPSHOT_MODULE)
    n = 0
    classes = {c.name: c for c in m.classes.values()}
    for cname, ci in sorted(classes.items()):
        r = ci.resolve("to_rich_dict")
        if r is None or not isinstance(r[1], ast.FunctionDef):
            continue
        trd = r[1]
        if not any(isinstance(x, ast.Attribute) and x.attr == "_serialisable" for x in ast.walk(trd)):
            continue
        keys = _snapshot_keys(ci)
        if not keys:
            continue
        # keys that to_rich_dict refreshes from the live object
        live = set()
        for x in ast.walk(trd):
            if isinstance(x, ast.Assign):
                for t in x.targets:
                    if isinstance(t, ast.Subscript) and isinstance(t.slice, ast.Constant) and t.slice.value in keys and any(isinstance(y, ast.Attribute) and isinstance(y.value, ast.Name) and y.value.id == "self" and y.attr != "_serialisable" for y in ast.walk(x.value)):
                        live.add(t.slice.value)
            if isinstance(x, ast.Call) and isinstance(x.func, ast.Attribute) and x.func.attr == "update":
                for kw in x.keywords:
                    if kw.arg in keys and any(isinstance(y, ast.Attribute) and isinstance(y.value, ast.Name) and y.value.id == "self" for y in ast.walk(kw.value)):
                        live.add(kw.arg)
        # stores to snapshot keys outside constructors
        stores = []  # (key, node, where)
        own_names = {c.name for c in ci.mro()} | {c.name for c in classes.values() if ci in c.mro()}
        for q, fn in m.all_functions():
            owner = q.split(".")[0] if "." in q else None
            meth = q.split(".")[-1]
            typed = {}
            if owner in own_names:
                typed["self"] = True
            for st in walk_no_nested(fn):
                if isinstance(st, ast.Assign) and len(st.targets) == 1 and isinstance(st.targets[0], ast.Name) and isinstance(st.value, ast.Call):
                    cn = norm(st.value.func)
                    a0 = norm(st.value.args[0]) if st.value.args else ""
                    if owner in own_names and (cn in ("copy.copy", "copy.deepcopy", "copy", "deepcopy") and a0 == "self" or cn in ("self.__class__", "type(self)", cname)):
                        typed[st.targets[0].id] = "copy"
                if isinstance(st, (ast.For, ast.comprehension)) and isinstance(st.target, ast.Name) and isinstance(st.iter, ast.Attribute) and ELEMENT_TYPES.get(st.iter.attr) in own_names:
                    typed[st.target.id] = True
            if owner in own_names and meth in CTOR_LIKE:
                # the constructor itself (and what it delegates to) defines the snapshot
                typed.pop("self", None)
            for st in walk_no_nested(fn):
                tgts = st.targets if isinstance(st, ast.Assign) else [st.target] if isinstance(st, (ast.AugAssign, ast.AnnAssign)) else []
                for t in tgts:
                    if isinstance(t, ast.Attribute) and isinstance(t.value, ast.Name) and t.value.id in typed and t.attr in keys:
                        if typed[t.value.id] == "copy" and meth in CTOR_LIKE:
                            continue
                        # the same function refreshing the snapshot makes the store coherent
                        fresh = any(isinstance(y, ast.Subscript) and isinstance(y.ctx, ast.Store) and isinstance(y.value, ast.Attribute) and y.value.attr == "_serialisable" and norm(y.value.value) == t.value.id and isinstance(y.slice, ast.Constant) and y.slice.value == t.attr for y in ast.walk(fn))
                        if not fresh:
                            stores.append((t.attr, st, q))
        by_key = {}
        for k_, st, q in stores:
            by_key.setdefault(k_, []).append((st, q))
        for k_ in keys:
            n += 1
            kk = key(m, f"{cname}.to_rich_dict", f"snapshot key {k_} is current")
            if k_ in by_key and k_ not in live:
                st, q = by_key[k_][0]
                chk.violation("R10.8", kk, m.loc(st), f"`{norm(st)}` (in {q}) changes `{k_}` of a {cname} after construction, but {cname}.to_rich_dict reports the constructor-time snapshot `self._serialisable['{k_}']` ({len(by_key[k_])} such store(s)): the rich dict / JSON of the object describes a state it no longer has")
            else:
                chk.ok("R10.8", kk, m.loc(trd), "refreshed from the live attribute" if k_ in live else "never stored after construction", nontrivial=k_ in by_key)
    chk.floor("R10.8", 10, "snapshot keys of Span / map classes")


def r10_9(chk):
    chk.rule("R10.9", "the JSON form of a DistanceMatrix is the whole matrix in its own order: (a) DistanceMatrix.to_rich_dict lists every key of self.to_dict() -- one generator over the dict, no filter, no triangular enumeration (the reader fills a missing (b, a) from (a, b), so dropping one direction silently symmetrises an asymmetric matrix); (b) the reader rebuilds the matrix with the order of names of the original -- it does not construct from an order-free pair dict alone, for which convert2Ddistance falls back to sorted(names)")
    m = chk.repo.module("evolve/fast_distance.py")
    fn = m.func("DistanceMatrix.to_rich_dict")
    src = [st for st in walk_no_nested(fn) if isinstance(st, ast.Assign) and isinstance(st.value, ast.Call) and norm(st.value.func) == "self.to_dict" and isinstance(st.targets[0], ast.Name)]
    if not src:
        raise AnalysisError("DistanceMatrix.to_rich_dict: self.to_dict() not found")
    dv = src[0].targets[0].id
    comps = [c for c in walk_no_nested(fn) if isinstance(c, (ast.ListComp, ast.GeneratorExp)) and any(isinstance(x, ast.Name) and x.id == dv for x in ast.walk(c))]
    k = key(m, "DistanceMatrix.to_rich_dict", "every cell is listed")
    if not comps:
        chk.unresolved("R10.9", k, m.loc(fn), "the payload is not built by a comprehension over the dict")
    else:
        c = comps[0]
        whole = len(c.generators) == 1 and not c.generators[0].ifs and norm(c.generators[0].iter) in (dv, f"{dv}.items()", f"{dv}.keys()")
        chk.decide(whole, "R10.9", k, m.loc(c), f"one unfiltered generator over `{dv}`", f"`{norm(c)[:90]}` does not enumerate every key of `{dv}`: only one member of each (a, b)/(b, a) pair is stored and the reader mirrors it, so dm['a','b'] = 0.25 on a symmetric matrix comes back with dm['b','a'] == 0.25 as well")
    dm = chk.repo.module("util/deserialise.py")
    rd = dm.func("deserialise_tabular")
    # the else branch that handles DistanceMatrix: the constructor call klass(**data)
    calls = [c for c in walk_no_nested(rd) if isinstance(c, ast.Call) and isinstance(c.func, ast.Name) and c.func.id == "klass" and any(kw.arg is None for kw in c.keywords)]
    branch = [c for c in calls if any(isinstance(st, ast.Assign) and norm(st.targets[0]) == "data['dists']" for st in walk_no_nested(rd))]
    k2 = key(dm, "deserialise_tabular", "DistanceMatrix names keep their order")
    ordered = any(isinstance(x, ast.Constant) and x.value in ("names", "header", "row_order") for x in ast.walk(rd) if True) and any("from_array_names" in norm(c.func) or any(kw.arg in ("header", "names", "row_order") for kw in c.keywords) for c in walk_no_nested(rd) if isinstance(c, ast.Call))
    wr_names = any(isinstance(x, ast.keyword) and x.arg in ("names", "header") for x in ast.walk(fn)) or any(isinstance(x, ast.Constant) and x.value in ("names", "header") for x in ast.walk(fn))
    chk.decide(ordered and wr_names, "R10.9", k2, dm.loc(branch[-1] if branch else rd), "the order of names is written and restored", "DistanceMatrix.to_rich_dict carries no order of names and deserialise_tabular builds the matrix from a pair-keyed dict, for which the names are sorted: from_array_names(..., ['z','b','a']) comes back with names ['a','b','z'] and permuted array rows")
    chk.floor("R10.9", 2, "writer payload and reader order")


def r10_10(chk):
    chk.rule("R10.10", "sibling agreement of the new-style alphabet serialisers: for each alphabet class of core/new_alphabet.py that has a to_rich_dict, every named constructor parameter (__new__/__init__) is a key of the dict it writes -- CharAlphabet and KmerAlphabet write gap and missing; a class that leaves one out comes back without it (a codon alphabet with a gap state came back with gap_char None)")
    m = chk.repo.module("core/new_alphabet.py")
    n = 0
    for cname, ci in sorted(m.classes.items()):
        trd = ci.methods.get("to_rich_dict")
        if not isinstance(trd, ast.FunctionDef) or not any(isinstance(x, ast.Dict) for x in ast.walk(trd)):
            continue
        ctor = ci.methods.get("__new__") or ci.methods.get("__init__")
        if ctor is None:
            continue
        params = [a.arg for a in ctor.args.args[1:] + ctor.args.kwonlyargs]
        keys = {kx.value for d_ in ast.walk(trd) if isinstance(d_, ast.Dict) for kx in d_.keys if isinstance(kx, ast.Constant)}
        for p_ in params:
            n += 1
            chk.decide(p_ in keys, "R10.10", key(m, f"{cname}.to_rich_dict", f"constructor parameter {p_} is written"), m.loc(trd), "key present", f"{cname}({', '.join(params)}) but to_rich_dict writes only {sorted(keys - {'type', 'version'})}: `{p_}` is lost in the rich dict / JSON round trip")
    chk.floor("R10.10", 8, "parameters of CharAlphabet, KmerAlphabet and CodonAlphabet")


def r10_11(chk):
    chk.rule("R10.11", "sibling agreement of the Table property setters: the serialised form (and every derived table) is built from `_persistent_attrs`, the mapping of constructor arguments taken in __init__; each property setter whose name is one of those arguments therefore stores the new value into that mapping as well -- title, legend, space and index_name do; a setter that only changes the private attribute is lost by to_json / pickle and by every operation that builds a new table")
    m = chk.repo.module("util/table.py")
    ci = m.cls("Table")
    init = ci.methods["__init__"]
    keys = {a.arg for a in init.args.args[1:] + init.args.kwonlyargs} - {"header", "data"}
    n = 0
    for st in ci.node.body:
        if not isinstance(st, ast.FunctionDef):
            continue
        setter = [d for d in st.decorator_list if isinstance(d, ast.Attribute) and d.attr == "setter"]
        if not setter or st.name not in keys:
            continue
        n += 1
        stores = [x for x in ast.walk(st) if isinstance(x, ast.Subscript) and isinstance(x.ctx, ast.Store) and norm(x.value) == "self._persistent_attrs" and isinstance(x.slice, ast.Constant) and x.slice.value == st.name]
        chk.decide(bool(stores), "R10.11", key(m, f"Table.{st.name}.setter", "updates the persistent attributes"), m.loc(st), f"stores _persistent_attrs['{st.name}']", f"the `{st.name}` setter changes only the private attribute: t.{st.name} = <new>; deserialise_object(t.to_json()).{st.name} (and t.sorted().{st.name}, pickle) still has the constructor's value")
    chk.floor("R10.11", 4, "title, legend, space, index_name (+ format)")


MUTATORS = {"pop", "popitem", "update", "clear", "setdefault", "append", "extend", "remove", "insert", "sort", "reverse"}


def r10_12(chk):
    chk.rule("R10.12", "a reader that takes its input apart must be given something it may take apart: for every key K whose value a deserialiser in util/deserialise.py mutates (`init = data.pop(K)` followed by init.pop(...) / item stores / update ...), each to_rich_dict that writes key K builds that value afresh (a dict/list display, dict(...)/list(...)/copy call or comprehension) -- never a bare reference to an attribute of the object; otherwise inflating the rich dict once empties the live object's own record (a NotCompleted inside a result: the second to_rich_dict / pickle raised KeyError)")
    dm = chk.repo.module("util/deserialise.py")
    consumed = {}  # key -> (function name, mutating node)
    for q, fn in dm.all_functions():
        params = set(params_of(fn))
        bound = {}
        for st in walk_no_nested(fn):
            if isinstance(st, ast.Assign) and len(st.targets) == 1 and isinstance(st.targets[0], ast.Name):
                v = st.value
                k_ = None
                if isinstance(v, ast.Call) and isinstance(v.func, ast.Attribute) and v.func.attr in ("pop", "get") and isinstance(v.func.value, ast.Name) and v.func.value.id in params and v.args and isinstance(v.args[0], ast.Constant):
                    k_ = v.args[0].value
                elif isinstance(v, ast.Subscript) and isinstance(v.value, ast.Name) and v.value.id in params and isinstance(v.slice, ast.Constant):
                    k_ = v.slice.value
                if isinstance(k_, str):
                    bound[st.targets[0].id] = k_
        for x in walk_no_nested(fn):
            if isinstance(x, ast.Call) and isinstance(x.func, ast.Attribute) and x.func.attr in MUTATORS and isinstance(x.func.value, ast.Name) and x.func.value.id in bound:
                consumed.setdefault(bound[x.func.value.id], (q, x))
            if isinstance(x, (ast.Subscript,)) and isinstance(x.ctx, (ast.Store, ast.Del)) and isinstance(x.value, ast.Name) and x.value.id in bound:
                consumed.setdefault(bound[x.value.id], (q, x))
            # data[K].pop(...) / data[K][..] = ...
            if isinstance(x, ast.Call) and isinstance(x.func, ast.Attribute) and x.func.attr in MUTATORS and isinstance(x.func.value, ast.Subscript) and isinstance(x.func.value.value, ast.Name) and x.func.value.value.id in params and isinstance(x.func.value.slice, ast.Constant) and isinstance(x.func.value.slice.value, str):
                consumed.setdefault(x.func.value.slice.value, (q, x))
            if isinstance(x, ast.Subscript) and isinstance(x.ctx, (ast.Store, ast.Del)) and isinstance(x.value, ast.Subscript) and isinstance(x.value.value, ast.Name) and x.value.value.id in params and isinstance(x.value.slice, ast.Constant) and isinstance(x.value.slice.value, str):
                consumed.setdefault(x.value.slice.value, (q, x))
    if not consumed:
        raise AnalysisError("util/deserialise.py: no consumed sub-structure found (matcher broken?)")
    n = 0
    for mod in chk.repo.all_modules():
        if "to_rich_dict" not in mod.source:
            continue
        for q, fn in mod.all_functions():
            if not q.endswith("to_rich_dict"):
                continue
            for d_ in ast.walk(fn):
                pairs = []
                if isinstance(d_, ast.Dict):
                    pairs = [(kx.value, v) for kx, v in zip(d_.keys, d_.values) if isinstance(kx, ast.Constant)]
                elif isinstance(d_, ast.Call) and norm(d_.func) == "dict":
                    pairs = [(kw.arg, kw.value) for kw in d_.keywords if kw.arg]
                elif isinstance(d_, ast.Assign) and len(d_.targets) == 1 and isinstance(d_.targets[0], ast.Subscript) and isinstance(d_.targets[0].slice, ast.Constant):
                    pairs = [(d_.targets[0].slice.value, d_.value)]
                for kx, v in pairs:
                    if kx not in consumed:
                        continue
                    n += 1
                    rq, rnode = consumed[kx]
                    bare = isinstance(v, ast.Attribute) and isinstance(v.value, ast.Name) and v.value.id == "self"
                    chk.decide(not bare, "R10.12", key(mod, q, f"value of '{kx}' is built afresh"), mod.loc(v), f"`{norm(v)[:50]}` is a new structure ({rq} takes it apart)", f"`{norm(v)}` is the object's own record, handed out by reference under '{kx}'; {rq} mutates what it finds there (`{norm(rnode)[:50]}`): deserialise_object(obj.to_rich_dict()) empties the live object's record")
    chk.extra["R10.12 consumed keys"] = sorted(consumed)
    chk.floor("R10.12", 1, "NotCompleted's construction record")


def r10_13(chk):
    chk.rule("R10.13", "exported parameter rules name their own scope: in LikelihoodFunction.to_rich_dict a rule from get_param_rules() is filed under the locus / edge / bin it carries (rule['locus'] ...), never paired by position (zip / enumerate / index) with self.locus_names or another name list -- the rules come out ordered by scope key, the name lists in the user's order, so for loci=['nuclear', 'mito'] positional pairing stores each alignment under the other locus")
    m = chk.repo.module("evolve/likelihood_function.py")
    q = "LikelihoodFunction.to_rich_dict"
    fn = m.func(q)
    rule_names = {st.targets[0].id for st in walk_no_nested(fn) if isinstance(st, ast.Assign) and isinstance(st.targets[0], ast.Name) and any(isinstance(c, ast.Call) and isinstance(c.func, ast.Attribute) and c.func.attr == "get_param_rules" for c in ast.walk(st.value))}

    def from_rules(e):
        return any(isinstance(c, ast.Call) and isinstance(c.func, ast.Attribute) and c.func.attr == "get_param_rules" for c in ast.walk(e)) or any(isinstance(x, ast.Name) and x.id in rule_names for x in ast.walk(e))

    uses = [c for c in walk_no_nested(fn) if isinstance(c, ast.Call) and isinstance(c.func, ast.Attribute) and c.func.attr == "get_param_rules"]
    if not uses:
        raise AnalysisError(f"{q}: get_param_rules() not used")
    bad = [c for c in walk_no_nested(fn) if isinstance(c, ast.Call) and norm(c.func) in ("zip", "enumerate") and any(from_rules(a) for a in c.args)]
    chk.decide(not bad, "R10.13", key(m, q, "rules are filed by the scope they carry"), m.loc(bad[0] if bad else uses[0]), "no positional pairing of exported rules", f"`{norm(bad[0])[:70] if bad else ''}` pairs the exported rules with another sequence by position: for loci=['nuclear', 'mito'] the alignments are stored under each other's names and the reloaded function has a different lnL")
    chk.floor("R10.13", 1, "to_rich_dict")


def r10_14(chk):
    chk.rule("R10.14", "an object is rebuilt as what it was: the 'type' a to_rich_dict records is the provenance of the object itself (get_object_provenance(self)), not of a helper it holds -- the reader dispatches on that string, so an object that records another class comes back as that class (a MotifCountsArray / MotifFreqsArray / PSSM records its DictArrayTemplate and comes back as a plain DictArray, without its methods)")
    n = 0
    for mod in chk.repo.all_modules():
        if "get_object_provenance" not in mod.source:
            continue
        for q, fn in mod.all_functions():
            if not q.endswith("to_rich_dict"):
                continue
            typed = []
            for x in walk_no_nested(fn):
                if isinstance(x, ast.Dict):
                    typed += [v for kx, v in zip(x.keys, x.values) if isinstance(kx, ast.Constant) and kx.value == "type"]
                elif isinstance(x, ast.Call) and norm(x.func) == "dict":
                    typed += [kw.value for kw in x.keywords if kw.arg == "type"]
                elif isinstance(x, ast.Assign) and len(x.targets) == 1 and isinstance(x.targets[0], ast.Subscript) and isinstance(x.targets[0].slice, ast.Constant) and x.targets[0].slice.value == "type":
                    typed.append(x.value)
            for c in typed:
                if isinstance(c, ast.Call) and (call_name(c) or "").split(".")[-1] == "get_object_provenance" and c.args:
                    n += 1
                    a = c.args[0]
                    chk.decide(isinstance(a, ast.Name) and a.id == "self", "R10.14", key(mod, q, "records its own provenance"), mod.loc(c), "get_object_provenance(self)", f"`{norm(c)}` records the class of `{norm(a)}`, not of the object being serialised: every subclass (core/profile.py: MotifCountsArray, MotifFreqsArray, PSSM) comes back from to_json / deserialise_object as a plain DictArray")
    chk.floor("R10.14", 20, "to_rich_dict methods that record a provenance")


def r10_15(chk):
    chk.rule("R10.15", "what the writer writes the reader uses: in a class that has both to_rich_dict and from_rich_dict, a key the writer stores (other than type / version) is not popped by the reader as a bare statement whose result is thrown away -- new-type SequenceCollection wrote its annotation_db and `data['init_args'].pop('annotation_db', None)` discarded it, so an annotated collection came back without its features")
    n = 0
    for mod in chk.repo.all_modules():
        if "from_rich_dict" not in mod.source:
            continue
        for cname, ci in sorted(mod.classes.items()):
            w = ci.methods.get("to_rich_dict")
            r = ci.methods.get("from_rich_dict")
            if not (isinstance(w, ast.FunctionDef) and isinstance(r, ast.FunctionDef)):
                continue
            written = set()
            for x in ast.walk(w):
                if isinstance(x, ast.Dict):
                    written |= {kx.value for kx in x.keys if isinstance(kx, ast.Constant) and isinstance(kx.value, str)}
                if isinstance(x, ast.Call) and norm(x.func) == "dict":
                    written |= {kw.arg for kw in x.keywords if kw.arg}
                if isinstance(x, ast.Subscript) and isinstance(x.ctx, ast.Store) and isinstance(x.slice, ast.Constant) and isinstance(x.slice.value, str):
                    written.add(x.slice.value)
            written -= {"type", "version"}
            n += 1
            bad = [st for st in walk_no_nested(r) if isinstance(st, ast.Expr) and isinstance(st.value, ast.Call) and isinstance(st.value.func, ast.Attribute) and st.value.func.attr == "pop" and st.value.args and isinstance(st.value.args[0], ast.Constant) and st.value.args[0].value in written]
            chk.decide(not bad, "R10.15", key(mod, f"{cname}.from_rich_dict", "no written key is discarded"), mod.loc(bad[0] if bad else r), f"{len(written)} written key(s), none popped and dropped", f"`{norm(bad[0])[:70] if bad else ''}` throws away what {cname}.to_rich_dict stored under that key: the state it describes is missing from the rebuilt object")
    chk.floor("R10.15", 5, "classes with a to_rich_dict / from_rich_dict pair")


def r10_16(chk):
    chk.rule("R10.16", "a rich dict holds JSON types only: the annotation dbs put their constructor-argument snapshot (`_serialisable`, taken by __new__ from whatever the caller passed) into `init_args`; the `source` argument may be a pathlib.Path (it is a file location), so it is written as text -- somewhere between the snapshot and the dict `source` passes through str()/os.fspath() -- otherwise to_json() of a db opened on a Path raises TypeError")
    m = chk.repo.module("core/annotation_db.py")
    ci = m.cls("SqliteAnnotationDbMixin")
    w = ci.methods["to_rich_dict"]
    uses_snapshot = any(isinstance(x, ast.Attribute) and x.attr == "_serialisable" for x in ast.walk(w))
    k = key(m, "SqliteAnnotationDbMixin.to_rich_dict", "source written as text")
    if not uses_snapshot:
        chk.ok("R10.16", k, m.loc(w), "init_args are not taken from the constructor snapshot", nontrivial=False)
    else:
        conv = False
        for fn in [w, ci.methods.get("__new__")] + [c.methods.get("__init__") for c in m.classes.values() if ci in c.mro()]:
            if not isinstance(fn, ast.FunctionDef):
                continue
            for st in walk_no_nested(fn):
                if isinstance(st, ast.Assign) and any(isinstance(t, ast.Subscript) and isinstance(t.slice, ast.Constant) and t.slice.value == "source" for t in st.targets) and any(isinstance(c, ast.Call) and norm(c.func) in ("str", "os.fspath", "fspath") for c in ast.walk(st.value)):
                    conv = True
        chk.decide(conv, "R10.16", k, m.loc(w), "the source entry is converted to text", "the snapshot's `source` reaches init_args as the caller gave it: BasicAnnotationDb(source=pathlib.Path('x.db')).to_json() raises TypeError: Object of type PosixPath is not JSON serializable")
    chk.floor("R10.16", 1, "annotation db to_rich_dict")


SER_MUTATORS = {"pop", "popitem", "update", "clear", "setdefault", "append", "extend", "remove", "insert", "sort", "reverse"}


def r10_17(chk):
    chk.rule("R10.17", "serialising an object leaves it as it was: no to_rich_dict / to_json / __getstate__ mutates (pop / update / item store / del ...) an attribute of self, directly or through a local bound to that attribute (`info = {} if self.info is None else self.info; info.pop('Refs')` removes the references from the LIVE info object, so the object differs after being written and a second serialisation differs from the first)")
    n = 0
    for mod in chk.repo.all_modules():
        if not any(w in mod.source for w in ("to_rich_dict", "__getstate__")):
            continue
        for q, fn in mod.all_functions():
            if not q.endswith(("to_rich_dict", "to_json", "__getstate__")):
                continue
            aliases = {}
            for st in walk_no_nested(fn):
                if isinstance(st, ast.Assign) and len(st.targets) == 1 and isinstance(st.targets[0], ast.Name):
                    v = st.value
                    arms = [v] + ([v.body, v.orelse] if isinstance(v, ast.IfExp) else [])
                    if any(isinstance(a, ast.Attribute) and isinstance(a.value, ast.Name) and a.value.id == "self" for a in arms):
                        aliases.setdefault(st.targets[0].id, []).append(st)
            n += 1
            bad = None
            for x in walk_no_nested(fn):
                tgt = None
                if isinstance(x, ast.Call) and isinstance(x.func, ast.Attribute) and x.func.attr in SER_MUTATORS:
                    tgt = x.func.value
                elif isinstance(x, (ast.Assign, ast.AugAssign, ast.Delete)):
                    tg = x.targets if isinstance(x, (ast.Assign, ast.Delete)) else [x.target]
                    for t in tg:
                        if isinstance(t, ast.Subscript):
                            tgt = t.value
                if tgt is None:
                    continue
                if isinstance(tgt, ast.Name) and tgt.id in aliases:
                    # a re-binding of the local to a fresh value between the alias and the mutation clears it
                    rebinds = [st for st in walk_no_nested(fn) if isinstance(st, ast.Assign) and any(isinstance(t, ast.Name) and t.id == tgt.id for t in st.targets) and st not in aliases[tgt.id] and aliases[tgt.id][0].lineno < st.lineno < x.lineno]
                    if not rebinds:
                        bad = (x, f"`{tgt.id}` is bound to {norm(aliases[tgt.id][0].value)[:50]}")
                elif isinstance(tgt, ast.Attribute) and isinstance(tgt.value, ast.Name) and tgt.value.id == "self":
                    bad = (x, f"an attribute of self")
            chk.decide(bad is None, "R10.17", key(mod, q, "does not modify the object"), mod.loc(bad[0] if bad else fn), "no mutation of self state", f"`{norm(bad[0])[:60] if bad else ''}` edits the object being serialised ({bad[1] if bad else ''}): make_seq('ACGT', info={{'Refs': ..., 'k': 2}}).to_rich_dict() leaves the sequence without its 'Refs'")
    chk.floor("R10.17", 30, "serialiser methods of the package")


def r10_18(chk):
    chk.rule("R10.18", "when a reader re-orders a rebuilt matrix to the stored order of names -- `A[index][:, index]` relabelled with L -- index[k] is the CURRENT position of the name L[k]: the index is built by iterating the labels the result will carry (L) and looking each up in the rebuilt object's own names (`current.index(n)` or a {name: position} table enumerated from the current names); iterating the current names and looking up in L gives the inverse permutation, which agrees for identities and swaps and attaches values to the wrong pairs for any 3-cycle")
    m = chk.repo.module("util/deserialise.py")
    q = "deserialise_tabular"
    fn = m.func(q)
    n = 0
    assigns = {}
    for st in walk_no_nested(fn):
        if isinstance(st, ast.Assign) and len(st.targets) == 1 and isinstance(st.targets[0], ast.Name):
            assigns.setdefault(st.targets[0].id, []).append(st.value)
    for c in walk_no_nested(fn):
        if not (isinstance(c, ast.Call) and isinstance(c.func, ast.Attribute) and c.func.attr == "from_array_names" and len(c.args) >= 2):
            continue
        arr, labels = c.args[0], norm(c.args[1])
        idx_names = {x.id for x in ast.walk(arr) if isinstance(x, ast.Name) and x.id in assigns and isinstance(assigns[x.id][-1], ast.ListComp)}
        if not idx_names:
            continue
        n += 1
        iname = sorted(idx_names)[0]
        comp = assigns[iname][-1]
        k = key(m, q, f"{iname}[k] = current position of the k-th stored name")
        it = norm(comp.generators[0].iter)
        var = norm(comp.generators[0].target)
        elt = comp.elt
        cur = None  # what the positions are looked up in
        if isinstance(elt, ast.Call) and isinstance(elt.func, ast.Attribute) and elt.func.attr == "index" and elt.args and norm(elt.args[0]) == var:
            cur = norm(elt.func.value)
        elif isinstance(elt, ast.Subscript) and norm(elt.slice) == var and isinstance(elt.value, ast.Name) and elt.value.id in assigns:
            tbl = assigns[elt.value.id][-1]
            if isinstance(tbl, ast.DictComp) and isinstance(tbl.generators[0].iter, ast.Call) and call_name(tbl.generators[0].iter) == "enumerate":
                tgt = tbl.generators[0].target
                # {name: position}: key is the second element of the enumerate pair
                if isinstance(tgt, ast.Tuple) and norm(tbl.key) == norm(tgt.elts[1]) and norm(tbl.value) == norm(tgt.elts[0]):
                    cur = norm(tbl.generators[0].iter.args[0])
        if cur is None:
            chk.unresolved("R10.18", k, m.loc(comp), f"index built by `{norm(comp)[:70]}`: lookup idiom not recognised")
            continue
        ok = it == labels and cur != labels and cur not in (f"list({labels})", f"tuple({labels})")
        chk.decide(ok, "R10.18", k, m.loc(comp), f"for {var} in {it}: position in {cur}", f"the index iterates `{it}` and looks positions up in `{cur}`, but the re-ordered matrix is labelled with `{labels}`: that is the inverse of the permutation wanted -- a stored order such as ['c', 'a', 'b'] comes back with the right names and the distances of other pairs")
    chk.floor("R10.18", 1, "DistanceMatrix branch of deserialise_tabular")


def run(chk):
    r10_18(chk)
    r10_17(chk)
    r10_16(chk)
    r10_15(chk)
    r10_14(chk)
    r10_13(chk)
    r10_12(chk)
    r10_11(chk)
    r10_10(chk)
    r10_9(chk)
    r10_8(chk)
    r10_7(chk)
    r10_6(chk)
    r10_1(chk)
    r10_2(chk)
    r10_3(chk)
    r10_5(chk)
    # R10.4: what a view exports is the segment it displays -- the coordinate-space typing of the view classes'
    # to_rich_dict / value (decided under C01 as R01.4) is a necessary condition of the round trip of any sliced object
    from . import c01

    c01.r01_4(chk)
    # the JSON form of a tree is a newick string plus edge attributes keyed by name: writer and reader conventions must match (C09's R09.4)
    from . import c09

    c09.r09_4(chk)
    c09.r09_15(chk)
    chk.assume("util/deserialise.py is imported (and registers its keys) before any other registering module, because each of them imports register_deserialiser from it")
    chk.assume("classes listed in NOT_SERIALISABLE are outside the serialisable API (each with its reason)")
