"""C07 -- incrementally recalculated likelihoods equal a fresh calculation.

Equality of values over all histories is not decided.  Decided: the dirty-marking
discipline every history relies on.
R07.1 definition-level mutators are called only by their owner, which always notifies
R07.2 propagation marks the clients of every updated definition; the dirty set is
      cleared only after the sweep, never while updates are suspended
R07.3 suspension (context-manager generators that set state) is exception-safe
R07.4 the calculator's undo bookkeeping is restored on the failure path

Added in build round 2 (see DESIGN.md section 3, round-2 table):
R07.5 Calculator.change takes the 1-deep undo shortcut only when ALL changes of the last step are reversed in this one (for/else with break on a missing ...

Added later in build rounds 2-3 (see DESIGN.md section 3, round-2/3 table):
R07.6 no name bound by `except ... as NAME` is read after its handler in the recalculation package: Python unbinds it when the handler ends, so the read ...
R07.7 a leaf definition answers questions about its current settings from the primary state (self.assignments), not from what update() derives from it ...
R07.8 zero is a value: numeric rule fields are selected by `is not None`.
R07.9 every updated definition marks all its clients, on every path (CFG).
R07.10 no input that is free by default is hidden from the exported rules by user_param = False.
R07.12 the update routines signal a rejected step with the exception type Calculator.change rolls back on.
R07.13 adjusted_gt_minprob edits in place only an array it copied.
"""

from __future__ import annotations

import ast

from ..cfg import build, own_exprs
from ..index import AnalysisError, call_name, norm, params_of, walk_no_nested
from ..report import key

SCOPE = "recalculation/scope.py"
DEFN_MUTATORS = ("assign_all", "update_from_calculator")
# receivers that are parameter controllers / likelihood functions by the repo's naming
CONTROLLER_NAMES = {"self", "pc", "lf", "LF", "lik_fn", "likelihood_function", "result", "null", "alt", "start_point"}


def _leaf_defn_sources(fn):
    """local names bound to definitions: loop variables over self.defns /
    self.defn_for.values(), and `x = self.defn_for[...]`"""
    out = set()
    for n in walk_no_nested(fn):
        if isinstance(n, ast.For) and isinstance(n.target, ast.Name):
            it = norm(n.iter)
            if "self.defns" in it or "self.defn_for" in it:
                out.add(n.target.id)
        if isinstance(n, ast.Assign) and isinstance(n.targets[0], ast.Name) and norm(n.value).startswith("self.defn_for["):
            out.add(n.targets[0].id)
    return out


def r07_1(chk):
    chk.rule("R07.1", "definition-level assign_all / update_from_calculator are called only from ParameterController.assign_all / .update_from_calculator, and there every normal path from the call to the exit passes self.update_intermediate_values(<the changed definitions>); controller-level setters reach definition state only through self.assign_all")
    scope = chk.repo.module(SCOPE)
    pc = scope.cls("ParameterController")
    owners = {("ParameterController.assign_all", "assign_all"), ("ParameterController.update_from_calculator", "update_from_calculator")}
    n_sites = 0
    for mod in chk.repo.all_modules():
        if not any(mu in mod.source for mu in DEFN_MUTATORS):
            continue
        for q, fn in mod.all_functions():
            defn_vars = _leaf_defn_sources(fn)
            for c in walk_no_nested(fn):
                if not (isinstance(c, ast.Call) and isinstance(c.func, ast.Attribute) and c.func.attr in DEFN_MUTATORS):
                    continue
                recv = c.func.value
                rname = recv.id if isinstance(recv, ast.Name) else None
                n_sites += 1
                k = key(mod, q, norm(c.func))
                if rname in defn_vars or (isinstance(recv, ast.Subscript) and norm(recv.value) == "self.defn_for"):
                    # definition-level call
                    if mod.rel.endswith(SCOPE) and (q, c.func.attr) in owners:
                        g = build(fn)
                        node = [n for n in g.nodes if any(c is x for e in own_exprs(n) for x in ast.walk(e))][0]
                        notif = g.nodes_containing(lambda x: isinstance(x, ast.Call) and norm(x.func) == "self.update_intermediate_values" and len(x.args) == 1)
                        ok, path = g.always_followed_by(node, notif, exceptional=False)
                        # the notified list must contain the changed definition
                        arg_ok = False
                        for nn in notif:
                            for e in own_exprs(nn):
                                for x in ast.walk(e):
                                    if isinstance(x, ast.Call) and norm(x.func) == "self.update_intermediate_values" and x.args:
                                        a = x.args[0]
                                        if isinstance(a, ast.List) and any(norm(el) == rname for el in a.elts):
                                            arg_ok = True
                                        if isinstance(a, ast.Name):
                                            # a list the definition was appended to
                                            arg_ok = any(isinstance(ap, ast.Call) and norm(ap.func) == f"{a.id}.append" and ap.args and norm(ap.args[0]) == rname for ap in walk_no_nested(fn))
                        chk.decide(ok and arg_ok, "R07.1", k, mod.loc(c), "owner call followed by update_intermediate_values([...defn...]) on every normal path", "definition state is changed but dependants are not marked dirty on every path" + (f": {g.show_path(path)}" if path else "") + ("" if arg_ok else " (the changed definition is not in the notified list)"))
                    else:
                        chk.violation("R07.1", k, mod.loc(c), f"definition-level `{norm(c.func)}(...)` outside its owner: the definition's settings change without the controller marking its dependants dirty, so cached intermediate values go stale")
                elif rname in CONTROLLER_NAMES or (isinstance(recv, ast.Call) and call_name(recv) == "super"):
                    chk.ok("R07.1", k, mod.loc(c), "controller-level call (goes through the owner)", nontrivial=False)
                else:
                    chk.unresolved("R07.1", k, mod.loc(c), f"receiver `{norm(recv)}` is of unknown kind")
    chk.floor("R07.1", 2, "the two owner call sites")
    # controller-level setters of the likelihood-function classes do not touch definition settings directly
    bad_attrs = ("assignments", "uniq")
    for rel in ("evolve/parameter_controller.py", "evolve/likelihood_function.py"):
        mod = chk.repo.module(rel)
        for q, fn in mod.all_functions():
            for st in walk_no_nested(fn):
                tg = []
                if isinstance(st, ast.Assign):
                    tg = st.targets
                elif isinstance(st, ast.AugAssign):
                    tg = [st.target]
                for t in tg:
                    base = t.value if isinstance(t, ast.Subscript) else t
                    if isinstance(base, ast.Attribute) and base.attr in bad_attrs and not (isinstance(base.value, ast.Name) and base.value.id == "self"):
                        chk.violation("R07.1", key(mod, q, f"store {norm(t)}"), mod.loc(st), f"`{norm(t)} = ...` writes a definition's settings from outside the recalculation package, bypassing assign_all and its notification")
    probe = ast.parse("def f(self):\n    for defn in self.defns:\n        defn.assign_all(value=1)\n").body[0]
    if "defn" not in _leaf_defn_sources(probe):
        raise AnalysisError("R07.1 self-probe failed")


def r07_2(chk):
    chk.rule("R07.2", "_updateIntermediateValues: returns without touching the dirty set while suspended; for every dirty definition calls update() and adds its clients; clears the dirty set only after the sweep; update_intermediate_values records the changed definitions before sweeping")
    m = chk.repo.module(SCOPE)
    fn = m.func("ParameterController._updateIntermediateValues")
    g = build(fn)
    susp = [n for n in g.nodes if n.kind == "if" and norm(n.ast.test) == "self._update_suspended" and n.ast.body and isinstance(n.ast.body[-1], ast.Return)]
    clear = g.nodes_containing(lambda x: isinstance(x, ast.Call) and norm(x.func) == "self._changed.clear")
    loops = [n for n in g.nodes if n.kind == "loop" and norm(n.ast.iter) == "self.defns"]
    if not loops:
        raise AnalysisError("_updateIntermediateValues: loop over self.defns not found")
    lp = loops[0]
    in_guard = {id(x) for sn in susp for st in sn.ast.body for x in ast.walk(st)}
    ok_s = bool(susp) and all(g.dominated_by(c, susp)[0] and id(c.ast) not in in_guard for c in clear) and g.dominated_by(lp, susp)[0]
    chk.decide(ok_s, "R07.2", key(m, "ParameterController._updateIntermediateValues", "suspension respected"), m.loc(fn), "`if self._update_suspended: return` dominates the sweep and the clear", "the sweep or the clearing of the dirty set can run while updates are suspended (postponed changes are lost)")
    body_nodes = set()
    for st in lp.ast.body:
        for x in ast.walk(st):
            body_nodes.add(id(x))
    in_loop = [c for c in clear if id(c.ast) in body_nodes]
    after = bool(clear) and not in_loop and all(g.dominated_by(c, [lp])[0] for c in clear)
    chk.decide(after, "R07.2", key(m, "ParameterController._updateIntermediateValues", "clear after sweep"), m.loc(clear[0].ast) if clear else m.loc(fn), "self._changed.clear() only after the loop", "the dirty set is cleared inside the sweep (or never): clients marked during the sweep are dropped")
    v = norm(lp.ast.target)
    tests = [i for i in lp.ast.body if isinstance(i, ast.If) and norm(i.test) == f"id({v}) in self._changed"]
    good = False
    if tests:
        b = tests[0].body
        upd = any(isinstance(s, ast.Expr) and isinstance(s.value, ast.Call) and norm(s.value.func) == f"{v}.update" for s in b)
        cl = [s for s in b if isinstance(s, ast.For) and norm(s.iter) == f"{v}.clients"]
        adds = bool(cl) and any(isinstance(x, ast.Call) and norm(x.func) == "self._changed.add" and x.args and norm(x.args[0]) == f"id({norm(cl[0].target)})" for x in ast.walk(cl[0]))
        good = upd and adds
    chk.decide(good, "R07.2", key(m, "ParameterController._updateIntermediateValues", "propagates to clients"), m.loc(lp.ast), "dirty defn -> update(); every client added to the dirty set", "a dirty definition is not updated, or its clients are not marked dirty")
    # sweep order: self.defns is the reverse of the top-down order built in __init__
    init = m.func("ParameterController.__init__")
    rev = [st for st in walk_no_nested(init) if isinstance(st, ast.Assign) and norm(st.targets[0]) == "self.defns"]
    chk.decide(bool(rev) and norm(rev[0].value) == "topdown[::-1]", "R07.2", key(m, "ParameterController.__init__", "sweep order"), m.loc(rev[0]) if rev else m.loc(init), "self.defns = topdown[::-1] (arguments before clients)", "self.defns is no longer the reversed top-down order: a client could be updated before its argument")
    u = m.func("ParameterController.update_intermediate_values")
    gu = build(u)
    # recording = accumulating into the dirty set (update / |= / add); replacing it loses what was pending
    rec = [n for n in gu.nodes if n.kind == "stmt" and ((isinstance(n.ast, ast.Expr) and isinstance(n.ast.value, ast.Call) and norm(n.ast.value.func) in ("self._changed.update", "self._changed.add")) or (isinstance(n.ast, ast.AugAssign) and norm(n.ast.target) == "self._changed" and isinstance(n.ast.op, ast.BitOr)))]
    replaced = [n for n in gu.nodes if n.kind == "stmt" and isinstance(n.ast, ast.Assign) and any(norm(t) == "self._changed" for t in n.ast.targets)]
    sw = gu.nodes_containing(lambda x: isinstance(x, ast.Call) and norm(x.func) == "self._updateIntermediateValues")
    chk.decide(bool(rec and sw) and all(gu.dominated_by(s_, rec)[0] for s_ in sw) and not replaced, "R07.2", key(m, "ParameterController.update_intermediate_values", "record then sweep"), m.loc(replaced[0].ast if replaced else u), "changed definitions are added to the dirty set before every sweep", "the dirty set is replaced (`self._changed = ...`) or the sweep runs without the changed definitions being added: definitions still pending from a postponed/failed batch are never recalculated")
    chk.floor("R07.2", 5, "five obligations")


def _is_contextmanager(fn):
    return any(norm(d).split(".")[-1] == "contextmanager" for d in fn.decorator_list)


def r07_3(chk):
    chk.rule("R07.3", "every @contextmanager generator that assigns self.<attr> before its yield restores that attribute in a `finally` protecting the yield")
    n = 0
    for mod in chk.repo.all_modules():
        if "contextmanager" not in mod.source:
            continue
        for q, fn in mod.all_functions():
            if not _is_contextmanager(fn):
                continue
            yields = [y for y in walk_no_nested(fn) if isinstance(y, (ast.Yield, ast.YieldFrom))]
            if not yields:
                continue
            y_line = yields[0].lineno
            pre = set()
            for st in walk_no_nested(fn):
                if isinstance(st, ast.Assign) and st.lineno < y_line:
                    for t in st.targets:
                        for x in ast.walk(t):
                            if isinstance(x, ast.Attribute) and isinstance(x.value, ast.Name) and x.value.id == "self" and isinstance(x.ctx, ast.Store):
                                pre.add(x.attr)
            if not pre:
                continue
            n += 1
            prot = None
            for t in walk_no_nested(fn):
                if isinstance(t, ast.Try) and t.finalbody and any(any(y is x for x in ast.walk(s)) for s in t.body for y in yields):
                    prot = t
            restored = set()
            if prot is not None:
                for s in prot.finalbody:
                    for x in ast.walk(s):
                        if isinstance(x, ast.Attribute) and isinstance(x.value, ast.Name) and x.value.id == "self" and isinstance(x.ctx, ast.Store):
                            restored.add(x.attr)
            missing = pre - restored
            chk.decide(not missing, "R07.3", key(mod, q, "restore in finally"), mod.loc(fn), f"self.{', self.'.join(sorted(pre))} restored in finally", f"self.{', self.'.join(sorted(missing))} set before the yield is not restored in a finally: an exception inside the with-block leaves it set (updates stay suspended and later changes are not reflected)")
            # work deferred to the end of the block (calls on self after the yield) must run on the exceptional path too
            if prot is not None:
                trailing = [st for st in fn.body if st.lineno > (prot.end_lineno or prot.lineno) and any(isinstance(c, ast.Call) and norm(c.func).startswith("self.") for c in ast.walk(st))]
                chk.decide(not trailing, "R07.3", key(mod, q, "deferred work in finally"), mod.loc(trailing[0] if trailing else prot), "everything deferred to the end of the block runs in the finally", f"`{norm(trailing[0]) if trailing else ''}` runs only when the with-block completes normally: after a failure part-way the changes already made are never propagated (stale values until the next assignment)")
    chk.floor("R07.3", 1, "updates_postponed")
    probe = ast.parse("@contextmanager\ndef f(self):\n    self.a = 1\n    yield\n    self.a = 0\n").body[0]
    if not _is_contextmanager(probe):
        raise AnalysisError("R07.3 self-probe failed")


TRACKED = {
    "_switch": "which of the two value buffers is current",
    "last_values": "optimiser-space values of the parameters",
    "last_undo": "the 1-deep undo record",
}


def _self_stores(nodes):
    out = {}
    for st in nodes:
        for x in ast.walk(st):
            if isinstance(x, (ast.Assign, ast.AugAssign)):
                tg = x.targets if isinstance(x, ast.Assign) else [x.target]
                for t in tg:
                    base = t
                    while isinstance(base, ast.Subscript):
                        base = base.value
                    if isinstance(base, ast.Attribute) and isinstance(base.value, ast.Name) and base.value.id == "self":
                        out.setdefault(base.attr, []).append(x)
    return out


def r07_4(chk):
    chk.rule("R07.4", "Calculator.change: each of _switch, last_values, last_undo written on the way in is written again in the CalculationInterupted handler before the re-raise, _switch under the same guard")
    m = chk.repo.module("recalculation/calculation.py")
    fn = m.func("Calculator.change")
    tries = [t for t in fn.body if isinstance(t, ast.Try)]
    if not tries:
        raise AnalysisError("Calculator.change: try block not found")
    t = tries[-1]
    before = fn.body[: fn.body.index(t)]
    pre = _self_stores(before)
    hs = [h for h in t.handlers if h.type is not None and "CalculationInterupted" in norm(h.type)]
    if not hs:
        chk.violation("R07.4", key(m, "Calculator.change", "handler"), m.loc(t), "no CalculationInterupted handler: an interrupted evaluation leaves the undo bookkeeping describing values that were never computed")
        return
    h = hs[0]
    post = _self_stores(h.body)
    reraises = any(isinstance(s, ast.Raise) for s in h.body)
    for attr, why in TRACKED.items():
        if attr not in pre:
            continue
        k = key(m, "Calculator.change", f"restores {attr}")
        chk.decide(attr in post, "R07.4", k, m.loc(h), f"self.{attr} ({why}) rewritten in the failure handler", f"self.{attr} ({why}) is changed before the update but not restored when the update is interrupted: the next evaluation undoes to the wrong state")
    # _switch flips must be guarded alike
    def guard_of(stmt, body):
        for i in ast.walk(ast.Module(body=body, type_ignores=[])):
            if isinstance(i, ast.If) and any(stmt is x for s in i.body for x in ast.walk(s)):
                return norm(i.test)
        return None
    if "_switch" in pre and "_switch" in post:
        g_pre = guard_of(pre["_switch"][-1], before)
        g_post = guard_of(post["_switch"][-1], h.body)
        flips = norm(post["_switch"][-1].value) == "not self._switch"
        chk.decide(g_pre == g_post and flips, "R07.4", key(m, "Calculator.change", "_switch guard parity"), m.loc(post["_switch"][-1]), f"buffer switch flipped back under the same guard `{g_pre}`", f"buffer switch is flipped under `{g_pre}` on the way in but under `{g_post}` in the handler")
    chk.decide(reraises, "R07.4", key(m, "Calculator.change", "re-raises"), m.loc(h), "the original exception is re-raised", "the handler swallows the interruption")
    chk.floor("R07.4", 4, "3 tracked attributes + re-raise")


def r07_5(chk):
    chk.rule("R07.5", "Calculator.change takes the 1-deep undo shortcut only when ALL changes of the last step are reversed in this one (for/else with break on a missing change, all(...), or a subset test); with `any`, a partial revert silently reverts parameters the caller kept")
    m = chk.repo.module("recalculation/calculation.py")
    fn = m.func("Calculator.change")
    reset = [st for st in fn.body if isinstance(st, ast.Assign) and norm(st.targets[0]) == "self.last_undo" and norm(st.value) == "[]"]
    if not reset:
        raise AnalysisError("Calculator.change: `self.last_undo = []` not found")
    before = fn.body[: fn.body.index(reset[0])]
    flips = []
    for st in before:
        for x in ast.walk(st):
            if isinstance(x, ast.Assign) and norm(x.targets[0]) == "self._switch":
                flips.append((st, x))
    k = key(m, "Calculator.change", "undo shortcut guard")
    if not flips:
        chk.unresolved("R07.5", k, m.loc(fn), "no undo shortcut before the reset of last_undo")
        return
    top, flip = flips[0]
    verdict, why = None, ""
    for node in ast.walk(top):
        if isinstance(node, ast.For) and any(flip is x for s_ in node.orelse for x in ast.walk(s_)):
            brk = [i for i in ast.walk(ast.Module(body=node.body, type_ignores=[])) if isinstance(i, ast.If) and any(isinstance(b, ast.Break) for b in i.body) and "not in changes" in norm(i.test)]
            if norm(node.iter) == "self.last_undo" and brk:
                verdict, why = True, "for ... in self.last_undo: if <change> not in changes: break / else: undo"
        if isinstance(node, ast.If) and any(flip is x for s_ in node.body for x in ast.walk(s_)):
            t = norm(node.test)
            if "any(" in t and "last_undo" in t:
                verdict, why = False, f"guard `{t}`"
            elif ("all(" in t and "last_undo" in t) or ("<=" in t and "last_undo" in t) or "issubset" in t:
                verdict, why = True, f"guard `{t}`"
            elif isinstance(node.test, ast.Compare) and "len(" in t and "len(self.last_undo)" in t and isinstance(node.test.ops[0], ast.Eq):
                verdict, why = True, f"guard `{t}` (as many matches as changes in the last step)"
            else:
                # a guard that is the truth value of the matches found (a filtered list / an intersection of last_undo and changes)
                names = {x.id for x in ast.walk(node.test) if isinstance(x, ast.Name)}
                for st2 in ast.walk(fn):
                    if isinstance(st2, ast.Assign) and len(st2.targets) == 1 and isinstance(st2.targets[0], ast.Name) and st2.targets[0].id in names:
                        v = norm(st2.value)
                        if "last_undo" in v and "changes" in v and (isinstance(st2.value, (ast.ListComp, ast.SetComp, ast.GeneratorExp)) or "&" in v or "intersection" in v or "filter(" in v) and isinstance(node.test, (ast.Name, ast.Call)):
                            verdict, why = False, f"guard `{t}` with `{norm(st2)[:70]}` (true as soon as ONE change of the last step is matched)"
    if verdict is None:
        chk.unresolved("R07.5", k, m.loc(top), "undo shortcut guarded by an unrecognised idiom")
    else:
        chk.decide(verdict, "R07.5", k, m.loc(top), why, why + " fires when only SOME of the last changes are reversed: the others are reverted as well and the value returned is for the wrong point")
    chk.floor("R07.5", 1, "the undo shortcut")


def _reads_after_unbind(fn):
    """loads of a name bound by `except ... as NAME` that occur after that handler with no assignment to NAME in
    between (Python deletes the name when the handler ends)"""
    out = []
    for h in ast.walk(fn):
        if not isinstance(h, ast.ExceptHandler) or not h.name:
            continue
        end = h.end_lineno
        stores = sorted(n.lineno for n in ast.walk(fn) if isinstance(n, ast.Name) and n.id == h.name and isinstance(n.ctx, ast.Store) and n.lineno > end)
        # another handler binding the same name re-binds it for its own body
        inside_other = {id(x) for h2 in ast.walk(fn) if isinstance(h2, ast.ExceptHandler) and h2 is not h and h2.name == h.name for x in ast.walk(h2)}
        for n in ast.walk(fn):
            if id(n) in inside_other:
                continue
            if isinstance(n, ast.Name) and n.id == h.name and isinstance(n.ctx, ast.Load) and n.lineno > end and not any(s_ <= n.lineno for s_ in stores):
                out.append((h, n))
    return out


def r07_6(chk):
    chk.rule("R07.6", "no name bound by `except ... as NAME` is read after its handler in the recalculation package: Python unbinds it when the handler ends, so the read raises UnboundLocalError exactly on the failure path -- in Calculator.tracing_update that replaced the CalculationInterupted the caller (Calculator.change, R07.4) relies on to restore its state")
    n = 0
    hits = 0
    for m in chk.repo.modules_under("recalculation") if hasattr(chk.repo, "modules_under") else [chk.repo.module(r) for r in ("recalculation/calculation.py", "recalculation/scope.py", "recalculation/definition.py", "recalculation/setting.py")]:
        for q, fn in m.all_functions():
            hs = [h for h in ast.walk(fn) if isinstance(h, ast.ExceptHandler) and h.name]
            if not hs:
                continue
            n += 1
            bad = _reads_after_unbind(fn)
            seen = set()
            for h, x in bad:
                if (h.name, q) in seen:
                    continue
                seen.add((h.name, q))
                hits += 1
                chk.violation("R07.6", key(m, q, f"`{h.name}` read after its handler"), m.loc(x), f"`{h.name}` is bound by `except ... as {h.name}` (line {h.lineno}) and read at line {x.lineno}, after the handler has ended and unbound it: the failure path raises UnboundLocalError instead of what the code intends")
            if not bad:
                chk.ok("R07.6", key(m, q, "except-as names stay inside their handlers"), m.loc(fn), f"{len(hs)} handler(s)")
    probe = ast.parse("def f():\n    e = None\n    try:\n        g()\n    except ValueError as e:\n        pass\n    if e:\n        raise e\n").body[0]
    if not _reads_after_unbind(probe):
        raise AnalysisError("R07.6 self-probe failed")
    chk.floor("R07.6", 3, "functions with named handlers in the recalculation package")


DERIVED_DEFN_STATE = ("values", "index", "uniq")


def r07_7(chk):
    chk.rule("R07.7", "a leaf definition answers questions about its current settings from the primary state (self.assignments), not from what update() derives from it (self.values / self.index / self.uniq): those are refreshed by the deferred sweep only, so inside updates_postponed() / apply_param_rules they still describe the state before the batch -- in the methods of _LeafDefn other than update() no derived attribute is read")
    m = chk.repo.module("recalculation/scope.py")
    ci = m.cls("_LeafDefn")
    n = 0
    for name, fn in ci.methods.items():
        if not isinstance(fn, ast.FunctionDef) or name in ("update", "__init__"):
            continue
        n += 1
        reads = [x for x in ast.walk(fn) if isinstance(x, ast.Attribute) and norm(x.value) == "self" and x.attr in DERIVED_DEFN_STATE and isinstance(x.ctx, ast.Load)]
        prim = any(isinstance(x, ast.Attribute) and norm(x.value) == "self" and x.attr == "assignments" for x in ast.walk(fn))
        chk.decide(not reads, "R07.7", key(m, f"_LeafDefn.{name}", "reads the primary state only"), m.loc(reads[0] if reads else fn), "no read of values / index / uniq" + (" (reads self.assignments)" if prim else ""), f"`{norm(reads[0]) if reads else ''}` reads state that update() derives from the assignments: inside a batched update it is stale, so a later rule of the same batch (hold constant, merge scopes) starts from the value before the batch and discards the earlier rule's value")
    upd = ci.methods.get("update")
    ok_upd = isinstance(upd, ast.FunctionDef) and any(isinstance(x, ast.Attribute) and norm(x.value) == "self" and x.attr == "values" and isinstance(x.ctx, ast.Store) for x in ast.walk(upd))
    chk.decide(ok_upd, "R07.7", key(m, "_LeafDefn.update", "derives values"), m.loc(upd) if upd is not None else m.loc(ci.node), "update() is where self.values is derived", "_LeafDefn.update no longer derives self.values: the classification primary/derived of this rule is out of date")
    chk.floor("R07.7", 5, "methods of _LeafDefn")


NUMERIC_FIELDS = {"init", "lower", "upper", "value"}


def _truth_tests(test):
    """names tested by their truth value in `test`: bare `x`, `not x`, operands of and/or"""
    if isinstance(test, ast.Name):
        return [(test.id, True)]
    if isinstance(test, ast.Attribute):
        return [(norm(test), True)]
    if isinstance(test, ast.UnaryOp) and isinstance(test.op, ast.Not) and isinstance(test.operand, (ast.Name, ast.Attribute)):
        return [(norm(test.operand), False)]
    if isinstance(test, ast.BoolOp):
        return [t for v in test.values for t in _truth_tests(v)]
    return []


def r07_8(chk):
    chk.rule("R07.8", "zero is a value: where a parameter rule's numeric field (init / lower / upper / value) decides whether that field is USED, it is tested with `is not None`, never by its truth value -- a branch length an optimiser left on its 0.0 bound is exported as init=0.0, and a truthiness test silently keeps the new function's default instead")
    sites = [("evolve/parameter_controller.py", "_LikelihoodParameterController.set_param_rule"), ("recalculation/scope.py", "_LeafDefn.assign_all"), ("recalculation/definition.py", "_InputDefn.__init__"), ("recalculation/definition.py", "_InputDefn.update_from_calculator")]
    n = 0
    for rel, q in sites:
        m = chk.repo.module(rel)
        try:
            fn = m.func(q)
        except Exception:
            raise AnalysisError(f"{rel}::{q} not found (anchor moved)")
        fields = NUMERIC_FIELDS & set(params_of(fn))
        # bounds read from a setting object: <x>.lower / <x>.upper / <x>.value
        fields |= {norm(a) for a in walk_no_nested(fn) if isinstance(a, ast.Attribute) and a.attr in NUMERIC_FIELDS and isinstance(a.ctx, ast.Load) and not (isinstance(a.value, ast.Name) and a.value.id == "self")}
        bad = []
        good = 0
        for node in walk_no_nested(fn):
            if isinstance(node, ast.Compare) and isinstance(node.left, (ast.Name, ast.Attribute)) and norm(node.left) in fields and any(isinstance(o, (ast.Is, ast.IsNot)) for o in node.ops):
                good += 1
            branches = []
            if isinstance(node, ast.If):
                branches = [(node.test, node.body, node.orelse)]
            elif isinstance(node, ast.IfExp):
                branches = [(node.test, [node.body], [node.orelse])]
            elif isinstance(node, ast.BoolOp) and isinstance(node.op, ast.Or) and not isinstance(getattr(node, "_parent_assert", None), ast.Assert):
                # `init or default` picks the default for 0.0
                for v in node.values[:-1]:
                    if isinstance(v, ast.Name) and v.id in fields and not _inside_assert(fn, node) and not _is_test(fn, node):
                        bad.append((node, v.id, f"`{norm(node)}` replaces a zero {v.id} by the alternative"))
            for test, body, orelse in branches:
                for name, positive in _truth_tests(test):
                    if name not in fields:
                        continue
                    arm = body if positive else orelse
                    uses = [x for st in arm for x in ast.walk(st) if isinstance(x, (ast.Name, ast.Attribute)) and norm(x) == name and isinstance(x.ctx, ast.Load) and not isinstance(st, ast.Assert)]
                    # `x and y < x`: the comparison in the same test is a use as well
                    uses += [x for cmp_ in ast.walk(test) if isinstance(cmp_, ast.Compare) and not any(isinstance(o, (ast.Is, ast.IsNot)) for o in cmp_.ops) for x in ast.walk(cmp_) if isinstance(x, (ast.Name, ast.Attribute)) and norm(x) == name] if positive else []
                    if uses:
                        bad.append((node, name, f"`{norm(test)}` selects the branch that uses `{name}` by its truth value"))
        k = key(m, q, "numeric rule fields selected by `is not None`")
        n += 1
        if bad:
            node, name, why = bad[0]
            chk.violation("R07.8", k, m.loc(node), f"{why}: {name}=0.0 (a legitimate value, e.g. a length on its lower bound) is treated as absent")
        else:
            chk.ok("R07.8", k, m.loc(fn), f"{good} identity test(s) against None on {sorted(fields)}; no truthiness selection", nontrivial=bool(good))
    # the export side: a rule mapping is never thinned by the truth value of its entries (init / value 0.0 would go)
    for rel, q in (("recalculation/definition.py", "_InputDefn.get_param_rules"), ("recalculation/setting.py", "Setting.get_param_rule_dict"), ("evolve/likelihood_function.py", "LikelihoodFunction.get_param_rules")):
        m = chk.repo.module(rel)
        try:
            fn = m.func(q)
        except Exception:
            cands = [f for f in ast.walk(m.tree) if isinstance(f, ast.FunctionDef) and f.name == q.split(".")[-1]]
            if not cands:
                raise AnalysisError(f"{rel}::{q} not found (anchor moved)")
            fn = cands[0]
        bad = None
        for comp in [c for c in walk_no_nested(fn) if isinstance(c, (ast.DictComp, ast.ListComp, ast.GeneratorExp, ast.SetComp))]:
            for gen in comp.generators:
                vals = {x.id for x in ast.walk(gen.target) if isinstance(x, ast.Name)}
                for cond in gen.ifs:
                    tested = [nm for nm, _ in _truth_tests(cond)]
                    if any(nm in vals for nm in tested) and ".items()" in norm(gen.iter):
                        bad = comp
        n += 1
        chk.decide(bad is None, "R07.8", key(m, q, "rule entries are not dropped by truth value"), m.loc(bad if bad is not None else fn), "no truthiness filter over the entries of a rule", f"`{norm(bad)[:70] if bad is not None else ''}` leaves out every falsy entry of the exported rule: init / value 0.0 (a collapsed branch length) disappears, and on import the new function keeps its default 1.0")
    chk.floor("R07.8", 2, "set_param_rule and assign_all test their numeric fields against None")


def _inside_assert(fn, node):
    return any(isinstance(a, ast.Assert) and any(x is node for x in ast.walk(a)) for a in walk_no_nested(fn))


def _is_test(fn, node):
    return any(isinstance(i, (ast.If, ast.IfExp, ast.While)) and any(x is node for x in ast.walk(i.test)) for i in walk_no_nested(fn))


def r07_9(chk):
    chk.rule("R07.9", "refresh propagation is unconditional: in ParameterController._updateIntermediateValues every definition that was updated marks ALL its clients as changed -- on every path from `defn.update()` to the next definition; a definition can change what its clients must see (the scope -> setting index) without any of its `values` objects changing, so no shortcut may skip the marking")
    m = chk.repo.module("recalculation/scope.py")
    q = "ParameterController._updateIntermediateValues"
    fn = m.func(q)
    g = build(fn)
    outer = [st for st in walk_no_nested(fn) if isinstance(st, ast.For) and norm(st.iter) == "self.defns"]
    if len(outer) != 1:
        raise AnalysisError(f"{q}: the loop over self.defns was not found")
    outer = outer[0]
    dv = norm(outer.target)
    upd = [st for st in ast.walk(outer) if isinstance(st, ast.Expr) and isinstance(st.value, ast.Call) and norm(st.value.func) == f"{dv}.update"]
    marks = [st for st in ast.walk(outer) if isinstance(st, ast.For) and norm(st.iter) == f"{dv}.clients"]
    if not upd:
        raise AnalysisError(f"{q}: {dv}.update() was not found")
    k = key(m, q, "clients marked after every update")
    if not marks:
        chk.violation("R07.9", k, m.loc(upd[0]), f"no loop over {dv}.clients marks the clients as changed")
    else:
        mk = marks[0]
        cv = norm(mk.target)
        adds = [st for st in mk.body if isinstance(st, ast.Expr) and isinstance(st.value, ast.Call) and norm(st.value.func) == "self._changed.add" and norm(st.value.args[0]) == f"id({cv})"]
        mnodes = [n_ for st in marks for n_ in g.stmt_nodes(st)]
        unodes = g.stmt_nodes(upd[0])
        heads = [n_ for n_ in g.stmt_nodes(outer)]
        bad = None
        for u in unodes:
            starts = [b for b, kd in u.succ if kd == "n"]
            seen = g.reachable(starts, blocked=mnodes, kinds=("n",))
            for h in heads + [g.exit]:
                if id(h) in seen:
                    bad = g._path(seen, h)
        if bad is not None:
            chk.violation("R07.9", k, m.loc(upd[0]), f"a path from `{dv}.update()` reaches the next definition without marking {dv}.clients: {g.show_path(bad)}; the values computed from this definition (Q, psubs, likelihood) stay stale")
        elif not adds or len(mk.body) != len(adds):
            chk.violation("R07.9", k, m.loc(mk), f"the loop over {dv}.clients does not add every client unconditionally (`self._changed.add(id({cv}))`)")
        else:
            chk.ok("R07.9", k, m.loc(upd[0]), "every normal path from update() passes the marking loop, which adds each client")
    chk.floor("R07.9", 1, "one refresh loop")


def _class_attr(ci, name):
    for c in ci.mro():
        if name in c.assigns:
            return c.assigns[name]
    return None


def r07_10(chk):
    chk.rule("R07.10", "exported rules cover every input that is free by default: LikelihoodFunction.get_param_rules visits get_param_names(), which lists only definitions with user_param true -- so no input definition whose settings are optimisable by default (const_by_default false along its MRO) is hidden by `user_param = False`, at class level or on an instance; a hidden free input (the `<param>_partition` of a 'free' rate distribution) counts in nfp and is moved by optimise()/set_param_rule, yet its value is missing from the exported rules")
    mods = [chk.repo.module("recalculation/definition.py"), chk.repo.module("recalculation/scope.py")]
    classes = {}
    for m in mods:
        for ci in m.classes.values():
            classes[ci.name] = ci

    def free_by_default(ci):
        v = _class_attr(ci, "const_by_default")
        return isinstance(v, ast.Constant) and v.value is False

    n = 0
    # class level
    for ci in classes.values():
        v = ci.assigns.get("user_param")
        if v is None or not (isinstance(v, ast.Constant) and v.value is False):
            continue
        names = [c.name for c in ci.mro()]
        if "_LeafDefn" not in names and "_InputDefn" not in names:
            continue
        n += 1
        chk.decide(not free_by_default(ci), "R07.10", key(ci.module, ci.name, "hidden from the exported rules only if constant by default"), ci.module.loc(ci.node), "user_param False on a definition that is constant by default", f"{ci.name} is hidden from get_param_names()/get_param_rules() but its settings are free by default")
    # instance level
    for m in mods:
        for q, fn in m.all_functions():
            made = {}
            for st in walk_no_nested(fn):
                if isinstance(st, ast.Assign) and len(st.targets) == 1 and isinstance(st.targets[0], ast.Name) and isinstance(st.value, ast.Call) and (call_name(st.value) or "") in classes:
                    made[st.targets[0].id] = classes[call_name(st.value)]
            for st in walk_no_nested(fn):
                if isinstance(st, ast.Assign) and len(st.targets) == 1 and isinstance(st.targets[0], ast.Attribute) and st.targets[0].attr == "user_param" and isinstance(st.value, ast.Constant) and st.value.value is False:
                    base = st.targets[0].value
                    n += 1
                    k = key(m, q, f"{norm(base)}.user_param = False")
                    ci = made.get(base.id) if isinstance(base, ast.Name) else None
                    if ci is None:
                        chk.unresolved("R07.10", k, m.loc(st), f"class of `{norm(base)}` not resolved")
                        continue
                    chk.decide(not free_by_default(ci), "R07.10", k, m.loc(st), f"{ci.name} is constant by default", f"`{norm(st)}` hides a {ci.name} (free by default: N-1 optimiser parameters) from get_param_names(), so get_param_rules() never exports it: HKY85 with ordered_param='rate', distribution='free', bins=2: after set_param_rule('rate_partition', init=[0.05, 0.95]) a new function given the exported rules has lnL -100.4768 instead of -103.0198")
    chk.floor("R07.10", 2, "NonScalarDefn / _LeafDefn class-level flags and the partition of WeightedPartitionDefn")


def r07_11(chk):
    chk.rule("R07.11", "a rejected rule changes nothing: _LeafDefn.assign_all validates the setting of EVERY scope group before it writes any of them -- no statement that can reject the rule (`raise`, check_setting_is_valid) is reachable after a store into self.assignments; written group by group, a rule that spans several scopes and is refused for one of them (Bounds: upper < lower on one edge) is left half-applied, the definition is not marked changed, and the function's lnL no longer corresponds to its settings")
    m = chk.repo.module("recalculation/scope.py")
    q = "_LeafDefn.assign_all"
    fn = m.func(q)
    g = build(fn)
    stores = [nd for nd in g.nodes if isinstance(getattr(nd, "ast", None), ast.Assign) and any(isinstance(t, ast.Subscript) and norm(t.value) == "self.assignments" for t in nd.ast.targets)]
    rejects = [nd for nd in g.nodes if isinstance(getattr(nd, "ast", None), ast.Raise)] + g.nodes_containing(lambda x: isinstance(x, ast.Call) and isinstance(x.func, ast.Attribute) and x.func.attr == "check_setting_is_valid")
    if not stores or not rejects:
        raise AnalysisError(f"{q}: assignment stores / validation not found")
    bad = None
    for st in stores:
        seen = g.reachable([b for b, kd in st.succ if kd == "n"], kinds=("n",))
        for r in rejects:
            if id(r) in seen:
                bad = (st, r)
    chk.decide(bad is None, "R07.11", key(m, q, "validate all, then assign"), m.loc(bad[0].ast if bad else fn), f"{len(rejects)} rejecting statement(s), none reachable after a store into self.assignments", f"after `{norm(bad[0].ast)[:50] if bad else ''}` the method can still reach `{norm(bad[1].ast)[:60] if bad else ''}`: a rule refused for a later scope group has already been written for the earlier ones")
    chk.floor("R07.11", 1, "assign_all")


def r07_12(chk):
    chk.rule("R07.12", "the update routines Calculator.change runs inside its try (plain_update, tracing_update) tell it that a step was rejected in ONE way -- by raising the exception its roll-back handler catches (CalculationInterupted): every `raise` in them raises that type, and every cell.calc(...) they make is inside a try that catches ParameterOutOfBoundsError and ArithmeticError (a bare `raise` / `raise exception` in the tracing routine passes the handler by: inputs, undo list and buffer switch stay at the rejected point, only when trace=True)")
    m = chk.repo.module("recalculation/calculation.py")
    fn = m.func("Calculator.change")
    tries = [t for t in fn.body if isinstance(t, ast.Try)]
    if not tries:
        raise AnalysisError("Calculator.change: try block not found")
    t = tries[-1]
    caught = set()
    for h in t.handlers:
        if h.type is not None:
            caught |= {x.id for x in ast.walk(h.type) if isinstance(x, ast.Name)}
    broad = any(h.type is None for h in t.handlers) or bool(caught & {"Exception", "BaseException"})
    ci = m.cls("Calculator")
    routines = []
    for st in t.body:
        for c in ast.walk(st):
            if isinstance(c, ast.Call) and isinstance(c.func, ast.Attribute) and isinstance(c.func.value, ast.Name) and c.func.value.id == "self" and c.func.attr in ci.methods:
                r = ci.methods[c.func.attr]
                if isinstance(r, ast.FunctionDef) and any(isinstance(x, ast.Call) and isinstance(x.func, ast.Attribute) and x.func.attr == "calc" for x in ast.walk(r)):
                    routines.append(r)
    need = {"ParameterOutOfBoundsError", "ArithmeticError"}
    for r in routines:
        q = f"Calculator.{r.name}"
        raises = [x for x in walk_no_nested(r) if isinstance(x, ast.Raise)]
        bad = []
        for x in raises:
            tname = None
            if isinstance(x.exc, ast.Call):
                tname = norm(x.exc.func)
            elif isinstance(x.exc, ast.Name) and x.exc.id[:1].isupper():
                tname = x.exc.id
            if not (broad or (tname is not None and tname.split(".")[-1] in caught)):
                bad.append(x)
        k = key(m, q, "signals a rejected step with the type change() rolls back on")
        chk.decide(not bad, "R07.12", k, m.loc(bad[0] if bad else r), f"{len(raises)} raise statement(s), all of {sorted(caught)}", f"`{norm(bad[0]) if bad else ''}` does not raise {sorted(caught)}: Calculator.change's roll-back handler is passed by, the rejected values stay in last_values / the live buffer")
        # every evaluation of a cell is protected alike
        calcs = [x for x in walk_no_nested(r) if isinstance(x, ast.Call) and isinstance(x.func, ast.Attribute) and x.func.attr == "calc"]
        for c in calcs:
            covering = set()
            for tr in walk_no_nested(r):
                if isinstance(tr, ast.Try) and any(c is y for st in tr.body for y in ast.walk(st)):
                    for h in tr.handlers:
                        if h.type is None:
                            covering |= need
                        else:
                            covering |= {y.id for y in ast.walk(h.type) if isinstance(y, ast.Name)} | {y.attr for y in ast.walk(h.type) if isinstance(y, ast.Attribute)}
            if covering & {"Exception", "BaseException"}:
                covering |= need
            miss = need - covering
            chk.decide(not miss, "R07.12", key(m, q, "cell evaluation protected"), m.loc(c), "cell.calc(...) runs under handlers for ParameterOutOfBoundsError and ArithmeticError", f"cell.calc(...) is not under a handler for {sorted(miss)}: that error leaves change() without the roll-back (the sibling routine converts it)")
    chk.floor("R07.12", 4, "two update routines x (raise type, protected evaluation)")


def r07_13(chk):
    chk.rule("R07.13", "adjusted_gt_minprob adjusts only an array it made itself: the vector it edits in place (`+=`, `/=`, row stores, the in-place helper _adjusted_gt_minprob_vector) is bound from a copying constructor (array(...), .copy(), .astype(...)), never from asarray / the argument itself -- the likelihood function passes the motif-prob arrays held in its settings, and a query (get_motif_probs, get_param_rules) must not rewrite a constant the user set")
    m = chk.repo.module("util/misc.py")
    fn = m.func("adjusted_gt_minprob")
    k = key(m, "adjusted_gt_minprob", "in-place adjustment only of a private copy")
    par = params_of(fn)[0]
    helper = m.func("_adjusted_gt_minprob_vector") if m.has_func("_adjusted_gt_minprob_vector") else None

    def mutates_param(f):
        p0 = params_of(f)[0]
        for x in walk_no_nested(f):
            if isinstance(x, ast.AugAssign):
                b = x.target
                while isinstance(b, ast.Subscript):
                    b = b.value
                if isinstance(b, ast.Name) and b.id == p0:
                    return True
            if isinstance(x, ast.Assign):
                for tg in x.targets:
                    if isinstance(tg, ast.Subscript):
                        b = tg
                        while isinstance(b, ast.Subscript):
                            b = b.value
                        if isinstance(b, ast.Name) and b.id == p0:
                            return True
        return False

    helper_inplace = helper is not None and mutates_param(helper)
    # names edited in place in the public function
    edited = set()
    for x in walk_no_nested(fn):
        if isinstance(x, ast.AugAssign):
            b = x.target
            while isinstance(b, ast.Subscript):
                b = b.value
            if isinstance(b, ast.Name):
                edited.add(b.id)
        if isinstance(x, ast.Assign):
            for tg in x.targets:
                if isinstance(tg, ast.Subscript):
                    b = tg
                    while isinstance(b, ast.Subscript):
                        b = b.value
                    if isinstance(b, ast.Name):
                        edited.add(b.id)
        if helper_inplace and isinstance(x, ast.Call) and call_name(x) == "_adjusted_gt_minprob_vector" and x.args:
            b = x.args[0]
            while isinstance(b, ast.Subscript):
                b = b.value
            if isinstance(b, ast.Name):
                edited.add(b.id)
    if not edited:
        chk.ok("R07.13", k, m.loc(fn), "nothing is edited in place", nontrivial=False)
        chk.floor("R07.13", 0, "")
        return
    COPYING = {"array", "numpy.array", "np.array", "copy", "deepcopy", "copy.copy", "copy.deepcopy", "numpy.copy", "np.copy", "zeros", "numpy.zeros", "empty", "numpy.empty"}
    bad = []
    for nm in sorted(edited):
        binds = [x for x in walk_no_nested(fn) if isinstance(x, ast.Assign) and any(isinstance(tg, ast.Name) and tg.id == nm for tg in x.targets)]
        # later re-bindings from the in-place helper hand the same array back: only the first binding decides
        first = binds[0] if binds else None
        fresh = False
        if first is not None and isinstance(first.value, ast.Call):
            c = first.value
            cn = norm(c.func)
            no_copy_off = not any(kw.arg == "copy" and isinstance(kw.value, ast.Constant) and kw.value.value is False for kw in c.keywords)
            if cn in COPYING and no_copy_off:
                fresh = True
            if isinstance(c.func, ast.Attribute) and c.func.attr in ("copy", "astype") and no_copy_off:
                fresh = True
        if not fresh:
            bad.append((nm, first))
    if bad:
        nm, first = bad[0]
        chk.violation("R07.13", k, m.loc(first if first is not None else fn), f"`{nm}` is edited in place but is bound by `{norm(first.value) if first is not None else par}`, which can be the caller's own array: probabilities at or below minprob held in a likelihood function's settings are rewritten by a read-only query")
    else:
        chk.ok("R07.13", k, m.loc(fn), f"{sorted(edited)} edited in place, bound from a copying constructor")
    chk.floor("R07.13", 1, "adjusted_gt_minprob")


def run(chk):
    r07_13(chk)
    r07_12(chk)
    r07_11(chk)
    r07_10(chk)
    r07_9(chk)
    r07_8(chk)
    r07_7(chk)
    r07_6(chk)
    r07_5(chk)
    r07_1(chk)
    r07_2(chk)
    r07_3(chk)
    r07_4(chk)
    chk.assume("receivers named " + ", ".join(sorted(CONTROLLER_NAMES)) + " are parameter controllers (repo naming); loop variables over self.defns / self.defn_for are definitions")
