"""C11 -- likelihood is invariant under relabelling, reordering and re-rooting.

The invariances under moving the root (time-reversible models) and under splitting an edge
(time-homogeneous models) are relations between two numerical evaluations: NOT decided here
(reversibility by construction is R05.2 under C05).  The other clauses -- sequences reordered,
children of a node reordered, columns permuted, identical columns merged or repeated -- rest on
bookkeeping whose correctness is visible in the shape of the code, and that part is decided:

R11.1 leaf data is tied to a tip BY NAME: convert_alignment files the leaf built from the sequence
      called N, named N, under the key N; recursive_lht_build fetches leaves[edge.name].
R11.2 the two recursive builders (the structure builder recursive_lht_build and the calculation builder
      make_partial_likelihood_defns) walk edge.children in the same, unpermuted order, and inside the loop
      each child's partial likelihood is paired with the psub selected by that same child's name.
R11.3 column compression (_indexed): on EVERY equality pattern of up to 5 columns (all 76 set partitions)
      the function returns one representative per class, an index sending each column to its own class,
      and counts equal to the class sizes -- decided by evaluating the function body on pattern labels.
R11.4 the root weighs each unique column by its count: self.counts comes from _indexed, is what
      get_log_sum_across_sites hands to the kernel, and the kernel adds log(lh[i]) * counts[i] over all i.
R11.6 a (tips, outgroup) scope names the same edges for every rooting: get_edge_names always re-roots at the outgroup.
R11.7 a zero branch length is kept (default only for a missing length).
R09.6 / R09.13 (shared with C09) the re-rooting operations keep every path length.
R07.8 (shared with C07) a rule's numeric fields (init=0.0) are selected by `is not None`.
R11.5 child/likelihood pairing in the product: the per-child index arrays are the transposed unique
      patterns in children order, paired positionally with the children once (zip), and the kernel reads
      child_indexes[child] with likelihoods[child] for the same child.
"""

from __future__ import annotations

import ast

from ..index import AnalysisError, call_name, norm, params_of, walk_no_nested
from ..report import key

LC = "evolve/likelihood_calculation.py"
LT = "evolve/likelihood_tree.py"
LTN = "evolve/likelihood_tree_numba.py"
SM = "evolve/substitution_model.py"


def r11_1(chk):
    chk.rule("R11.1", "leaf data reaches its tip by NAME, never by position: convert_alignment stores, under the key N, the leaf made from alignment.get_gapped_seq(N) and named N (one loop variable in all three places); recursive_lht_build takes a tip's leaf as leaves[edge.name] -- reordering the sequences of the alignment or the tips of the tree cannot then change which data sits on which tip")
    m = chk.repo.module(SM)
    q = None
    for qual, fn in m.all_functions():
        if qual.endswith(".convert_alignment"):
            q = qual
            break
    if q is None:
        raise AnalysisError("convert_alignment not found")
    loops = [lp for lp in walk_no_nested(fn) if isinstance(lp, ast.For)]
    k = key(m, q, "key, sequence and leaf name are the same loop variable")
    if not loops:
        chk.unresolved("R11.1", k, m.loc(fn), "no loop over names (comprehension form not modelled)")
    else:
        lp = loops[0]
        bound = {x.id for x in ast.walk(lp.target) if isinstance(x, ast.Name)}
        stores = [st for st in ast.walk(lp) if isinstance(st, ast.Assign) and isinstance(st.targets[0], ast.Subscript)]
        gets = [c for c in ast.walk(lp) if isinstance(c, ast.Call) and isinstance(c.func, ast.Attribute) and c.func.attr in ("get_gapped_seq", "get_seq")]
        convs = [c for c in ast.walk(lp) if isinstance(c, ast.Call) and isinstance(c.func, ast.Attribute) and c.func.attr == "convert_sequence"]
        problems = []
        v = norm(stores[0].targets[0].slice) if stores else None
        if v is None or v not in bound or any(norm(st.targets[0].slice) != v for st in stores):
            problems.append("the result is not keyed by the loop's name")
        if "names" not in norm(lp.iter):
            problems.append(f"iterates `{norm(lp.iter)}`")
        if not gets or any(not c.args or norm(c.args[0]) != v for c in gets):
            problems.append(f"the sequence is fetched by `{norm(gets[0].args[0]) if gets and gets[0].args else '?'}`, the result keyed by `{v}`")
        if convs and any(len(c.args) < 2 or norm(c.args[1]) != v for c in convs):
            problems.append("the leaf is not named by the loop's name")
        chk.decide(not problems, "R11.1", k, m.loc(lp), f"result[{v}] = leaf of get_gapped_seq({v}) named {v}", "; ".join(problems) + ": a leaf is filed under another sequence's name, so the likelihood depends on the order of the sequences")
    m2 = chk.repo.module(LC)
    fn2 = m2.func("recursive_lht_build")
    ps = params_of(fn2)
    subs = [s for s in walk_no_nested(fn2) if isinstance(s, ast.Subscript) and isinstance(s.value, ast.Name) and s.value.id == ps[1]]
    chk.decide(bool(subs) and all(norm(s.slice) == f"{ps[0]}.name" for s in subs), "R11.1", key(m2, "recursive_lht_build", "tip leaf looked up by the edge's name"), m2.loc(subs[0] if subs else fn2), f"{ps[1]}[{ps[0]}.name]", f"a tip's leaf is taken as `{norm(subs[0]) if subs else '?'}`, not by the tip's own name")
    chk.floor("R11.1", 2, "convert_alignment and recursive_lht_build")


def _child_loop(fn, edge):
    """the loop whose variable is handed to the recursive call (= the loop over the children)"""
    for lp in walk_no_nested(fn):
        if isinstance(lp, ast.For) and isinstance(lp.target, ast.Name):
            if any(isinstance(c, ast.Call) and call_name(c) == fn.name and c.args and norm(c.args[0]) == lp.target.id for c in ast.walk(lp)):
                return lp
    for lp in walk_no_nested(fn):
        if isinstance(lp, ast.For) and isinstance(lp.target, ast.Name) and "children" in norm(lp.iter):
            return lp
    return None


def r11_2(chk):
    chk.rule("R11.2", "the structure builder (recursive_lht_build) and the calculation builder (make_partial_likelihood_defns) visit the children of an edge in the SAME order -- both loop over `edge.children` itself, neither sorted, reversed nor filtered -- because LikelihoodTreeEdge pairs its per-child index arrays with the child likelihoods by position; inside the calculation builder's loop the partial likelihood of a child is multiplied by the psub selected with that same child's name")
    m = chk.repo.module(LC)
    its = {}
    for q in ("recursive_lht_build", "make_partial_likelihood_defns"):
        fn = m.func(q)
        edge = params_of(fn)[0]
        lp = _child_loop(fn, edge)
        if lp is None:
            raise AnalysisError(f"{q}: loop over the children not found")
        its[q] = (norm(lp.iter), lp, edge)
        it = lp.iter
        if isinstance(it, ast.Name):
            # a local alias of the children list
            defs = [st.value for st in walk_no_nested(fn) if isinstance(st, ast.Assign) and len(st.targets) == 1 and isinstance(st.targets[0], ast.Name) and st.targets[0].id == it.id]
            if len(defs) == 1:
                it = defs[0]
        txt = norm(it)
        plain = txt in (f"{edge}.children", f"list({edge}.children)", f"tuple({edge}.children)", f"{edge}.children[:]")
        permuting = any(isinstance(x, ast.Call) and (call_name(x) or "").split(".")[-1] in ("sorted", "reversed", "set", "frozenset", "shuffle", "sample") for x in ast.walk(it)) or any(isinstance(x, ast.Slice) and (x.lower is not None or x.upper is not None or x.step is not None) for x in ast.walk(it)) or any(isinstance(x, ast.comprehension) and x.ifs for x in ast.walk(it))
        kk = key(m, q, "children visited in tree order")
        if plain:
            chk.ok("R11.2", kk, m.loc(lp), f"for {lp.target.id} in {edge}.children")
        elif permuting:
            chk.violation("R11.2", kk, m.loc(lp), f"iterates `{txt}`: the other builder walks {edge}.children as they are, so child likelihoods are multiplied through another child's column index whenever the two orders differ")
        else:
            chk.unresolved("R11.2", kk, m.loc(lp), f"iterates `{txt}`: not recognised as the children in tree order")
        # what the loop collects is appended in visiting order
        apps = [c for c in ast.walk(lp) if isinstance(c, ast.Call) and isinstance(c.func, ast.Attribute) and c.func.attr in ("append", "insert", "appendleft")]
        chk.decide(bool(apps) and all(c.func.attr == "append" for c in apps), "R11.2", key(m, q, "collected in visiting order"), m.loc(apps[0] if apps else lp), "children collected with append", f"`{norm(apps[0]) if apps else ''}` does not keep the visiting order")
    q = "make_partial_likelihood_defns"
    _, lp, edge = its[q]
    v = lp.target.id
    sel = [c for c in ast.walk(lp) if isinstance(c, ast.Call) and isinstance(c.func, ast.Attribute) and c.func.attr == "select_from_dimension"]
    rec = [c for c in ast.walk(lp) if isinstance(c, ast.Call) and call_name(c) == q]
    ok = bool(sel) and all(len(c.args) == 2 and norm(c.args[1]) == f"{v}.name" for c in sel) and bool(rec) and all(c.args and norm(c.args[0]) == v for c in rec)
    chk.decide(ok, "R11.2", key(m, q, "psub of the same child"), m.loc(sel[0] if sel else lp), f"psub selected by {v}.name for the partial likelihood of {v}", "the psub is not selected by the name of the child whose partial likelihood it multiplies")
    chk.floor("R11.2", 3, "two builders (append) + psub pairing; order when recognised")


class _Unhandled(Exception):
    pass


def _partitions(n):
    """restricted-growth strings: one list of class labels per set partition of n positions"""
    def rec(prefix, mx):
        if len(prefix) == n:
            yield list(prefix)
            return
        for v in range(mx + 2):
            yield from rec(prefix + [v], max(mx, v))
    if n == 0:
        yield []
    else:
        yield from rec([0], 0)


def _eval_indexed(fn, values):
    """evaluate the body of _indexed on a list of opaque labels (only ==/hash are meaningful on them).
    Supports the statement forms the function (and its obvious refactors) uses; anything else -> _Unhandled."""
    p = params_of(fn)[0]
    env = {p: list(values)}
    steps = [0]

    def ev(e):
        steps[0] += 1
        if steps[0] > 20000:
            raise _Unhandled("step limit")
        if isinstance(e, ast.Constant):
            return e.value
        if isinstance(e, ast.Name):
            if e.id in env:
                return env[e.id]
            if e.id in ("int", "float"):
                return e.id
            raise _Unhandled(f"name {e.id}")
        if isinstance(e, ast.List):
            return [ev(x) for x in e.elts]
        if isinstance(e, ast.Tuple):
            return tuple(ev(x) for x in e.elts)
        if isinstance(e, ast.Dict) and not e.keys:
            return {}
        if isinstance(e, ast.Subscript):
            return ev(e.value)[ev(e.slice)]
        if isinstance(e, ast.BinOp) and isinstance(e.op, (ast.Add, ast.Sub)):
            a, b = ev(e.left), ev(e.right)
            return a + b if isinstance(e.op, ast.Add) else a - b
        if isinstance(e, ast.Compare) and len(e.ops) == 1:
            a, b = ev(e.left), ev(e.comparators[0])
            op = e.ops[0]
            if isinstance(op, ast.In):
                return a in b
            if isinstance(op, ast.NotIn):
                return a not in b
            if isinstance(op, ast.Eq):
                return a == b
            if isinstance(op, ast.NotEq):
                return a != b
            if isinstance(op, ast.Is):
                return a is b
            if isinstance(op, ast.IsNot):
                return a is not b
            raise _Unhandled(norm(e))
        if isinstance(e, ast.UnaryOp) and isinstance(e.op, ast.Not):
            return not ev(e.operand)
        if isinstance(e, ast.BoolOp):
            r = None
            for x in e.values:
                r = ev(x)
                if (isinstance(e.op, ast.And) and not r) or (isinstance(e.op, ast.Or) and r):
                    break
            return r
        if isinstance(e, ast.Call):
            cn = call_name(e) or ""
            if cn == "len" and len(e.args) == 1:
                return len(ev(e.args[0]))
            if cn.split(".")[-1] == "zeros" and e.args:
                shp = ev(e.args[0])
                n = shp[0] if isinstance(shp, (list, tuple)) else shp
                return [0] * n
            if cn in ("list", "dict", "set") and not e.args:
                return {"list": list, "dict": dict, "set": set}[cn]()
            if cn == "enumerate" and len(e.args) == 1:
                return list(enumerate(ev(e.args[0])))
            if cn == "range" and len(e.args) == 1:
                return list(range(ev(e.args[0])))
            if isinstance(e.func, ast.Attribute) and e.func.attr == "get" and 1 <= len(e.args) <= 2:
                d = ev(e.func.value)
                return d.get(ev(e.args[0]), ev(e.args[1]) if len(e.args) == 2 else None)
            if isinstance(e.func, ast.Attribute) and e.func.attr == "setdefault" and len(e.args) == 2:
                d = ev(e.func.value)
                return d.setdefault(ev(e.args[0]), ev(e.args[1]))
            raise _Unhandled(f"call {norm(e)[:50]}")
        raise _Unhandled(f"expression {norm(e)[:50]}")

    def bind(t, v):
        if isinstance(t, ast.Name):
            env[t.id] = v
        elif isinstance(t, (ast.Tuple, ast.List)):
            v = list(v)
            if len(v) != len(t.elts):
                raise _Unhandled("unpack")
            for a, b in zip(t.elts, v):
                bind(a, b)
        elif isinstance(t, ast.Subscript):
            ev(t.value)[ev(t.slice)] = v
        else:
            raise _Unhandled(f"target {norm(t)}")

    class _Ret(Exception):
        def __init__(self, v):
            self.v = v

    def run(stmts):
        for st in stmts:
            if isinstance(st, ast.Expr) and isinstance(st.value, ast.Constant):
                continue
            if isinstance(st, ast.Assign):
                v = ev(st.value)
                for t in st.targets:
                    bind(t, v)
            elif isinstance(st, ast.AugAssign) and isinstance(st.op, (ast.Add, ast.Sub)):
                cur = ev(st.target)
                d = ev(st.value)
                bind(st.target, cur + d if isinstance(st.op, ast.Add) else cur - d)
            elif isinstance(st, ast.If):
                run(st.body if ev(st.test) else st.orelse)
            elif isinstance(st, ast.For) and not st.orelse:
                for item in list(ev(st.iter)):
                    bind(st.target, item)
                    run(st.body)
            elif isinstance(st, ast.Expr) and isinstance(st.value, ast.Call) and isinstance(st.value.func, ast.Attribute) and st.value.func.attr == "append" and len(st.value.args) == 1:
                ev(st.value.func.value).append(ev(st.value.args[0]))
            elif isinstance(st, ast.Expr) and isinstance(st.value, ast.Call):
                ev(st.value)
            elif isinstance(st, ast.Return):
                raise _Ret(ev(st.value))
            else:
                raise _Unhandled(f"statement {norm(st)[:50]}")

    try:
        run(fn.body)
    except _Ret as r:
        return r.v
    except (KeyError, IndexError, TypeError, AttributeError, ValueError) as e:
        return ("raises", type(e).__name__)
    raise _Unhandled("no return")


def r11_3(chk):
    chk.rule("R11.3", "column compression is exact on every equality pattern: evaluating the body of likelihood_tree._indexed on all set partitions of up to 5 columns (the function only ever asks whether two columns are equal), it returns (unique, counts, index) with one representative per class, unique[index[c]] == column c for every c, and counts[i] == size of class i -- so merging identical columns, repeating columns and permuting them cannot change the weighted sum over unique columns")
    m = chk.repo.module(LT)
    fn = m.func("_indexed")
    k = key(m, "_indexed", "exact on all equality patterns of <= 5 columns")
    bad, n = [], 0
    try:
        top = 8 if chk.tier == "thorough" else 6  # thorough: all 1 156 patterns of up to 7 columns
        for size in range(0, top):
            for lab in _partitions(size):
                n += 1
                vals = [("col", x) for x in lab]
                out = _eval_indexed(fn, vals)
                good = isinstance(out, tuple) and len(out) == 3
                if good:
                    uniq, counts, index = list(out[0]), list(out[1]), list(out[2])
                    good = (
                        len(uniq) == len(set(uniq)) == len(set(vals))
                        and len(counts) == len(uniq)
                        and len(index) == len(vals)
                        and all(isinstance(i, int) and 0 <= i < len(uniq) and uniq[i] == v for i, v in zip(index, vals))
                        and all(counts[i] == vals.count(u) for i, u in enumerate(uniq))
                    )
                if not good:
                    bad.append((lab, out))
    except _Unhandled as e:
        chk.unresolved("R11.3", k, m.loc(fn), f"_indexed uses a construct the evaluator does not model: {e}")
        chk.floor("R11.3", 0, "")
        return
    if bad:
        lab, out = bad[0]
        chk.violation("R11.3", k, m.loc(fn), f"{len(bad)} of {n} equality patterns are compressed wrongly, e.g. columns with pattern {lab} give {out!r}: identical columns are not merged with their multiplicity, so lnL changes when columns repeat or move")
    else:
        chk.ok("R11.3", k, m.loc(fn), f"all {n} equality patterns of 0..{top - 1} columns: unique/index/counts consistent")
    chk.extra["R11.3_patterns"] = n
    # both users of the compression unpack it in the order it is returned
    for q in ("_LikelihoodTreeEdge.__init__", "make_likelihood_tree_leaf"):
        f2 = m.func(q)
        uses = [st for st in walk_no_nested(f2) if isinstance(st, ast.Assign) and isinstance(st.value, ast.Call) and call_name(st.value) == "_indexed"]
        for st in uses:
            t = st.targets[0]
            names = [norm(x) for x in t.elts] if isinstance(t, (ast.Tuple, ast.List)) else []
            okk = len(names) == 3 and "count" in names[1] and "index" in names[2] and "uniq" in names[0]
            chk.decide(okk, "R11.3", key(m, q, "unpacks (unique, counts, index) in order"), m.loc(st), f"{names}", f"`{norm(t)}` does not take (unique, counts, index) in the order _indexed returns them")
    chk.floor("R11.3", 3, "_indexed + its two users")


def r11_4(chk):
    chk.rule("R11.4", "each unique column is weighted by its multiplicity exactly once: _LikelihoodTreeEdge keeps the counts _indexed returned (plus a zero for the extra gap column) as self.counts, get_log_sum_across_sites hands self.counts to the kernel, and the kernel accumulates log(lhs)[i] * counts[i] over range(len(counts)) -- no other weight, no skipped column")
    m = chk.repo.module(LT)
    init = m.func("_LikelihoodTreeEdge.__init__")
    st = [s for s in walk_no_nested(init) if isinstance(s, ast.Assign) and any(norm(t) == "self.counts" for t in s.targets)]
    src_ok = bool(st) and any(isinstance(x, ast.Name) and x.id == "counts" for x in ast.walk(st[-1].value))
    idx = [s for s in walk_no_nested(init) if isinstance(s, ast.Assign) and isinstance(s.value, ast.Call) and call_name(s.value) == "_indexed"]
    from_indexed = bool(idx) and isinstance(idx[0].targets[0], (ast.Tuple, ast.List)) and len(idx[0].targets[0].elts) == 3 and norm(idx[0].targets[0].elts[1]) == "counts"
    rebinds = [s for s in walk_no_nested(init) if isinstance(s, (ast.Assign, ast.AugAssign)) and any(norm(t) == "counts" for t in (s.targets if isinstance(s, ast.Assign) else [s.target]))]
    chk.decide(src_ok and from_indexed and not rebinds, "R11.4", key(m, "_LikelihoodTreeEdge.__init__", "self.counts are the multiplicities"), m.loc(st[-1] if st else init), "self.counts = array(counts) with counts from _indexed", "self.counts is not (only) the multiplicities returned by _indexed")
    g = m.func("LikelihoodTreeEdge.get_log_sum_across_sites")
    calls = [c for c in walk_no_nested(g) if isinstance(c, ast.Call) and (call_name(c) or "").endswith("get_log_sum_across_sites")]
    chk.decide(bool(calls) and all(len(c.args) == 2 and norm(c.args[1]) == "self.counts" for c in calls), "R11.4", key(m, "LikelihoodTreeEdge.get_log_sum_across_sites", "passes self.counts"), m.loc(calls[0] if calls else g), "kernel called with (lhs, self.counts)", "the kernel is not given self.counts as weights")
    mk = chk.repo.module(LTN)
    kf = mk.func("get_log_sum_across_sites")
    ps = params_of(kf)
    loops = [lp for lp in walk_no_nested(kf) if isinstance(lp, ast.For) and isinstance(lp.target, ast.Name)]
    ok = False
    detail = "no accumulation loop"
    if loops:
        lp = loops[0]
        i = lp.target.id
        full = norm(lp.iter) in (f"range(len({ps[1]}))", f"range({ps[1]}.shape[0])", f"range(len({ps[0]}))", f"range({ps[0]}.shape[0])")
        acc = [s for s in ast.walk(lp) if isinstance(s, ast.AugAssign) and isinstance(s.op, ast.Add)]
        prod = bool(acc) and isinstance(acc[0].value, ast.BinOp) and isinstance(acc[0].value.op, ast.Mult)
        if prod:
            sides = sorted([norm(acc[0].value.left), norm(acc[0].value.right)])
            logs = {s.targets[0].id for s in walk_no_nested(kf) if isinstance(s, ast.Assign) and isinstance(s.targets[0], ast.Name) and isinstance(s.value, ast.Call) and (call_name(s.value) or "").endswith("log") and s.value.args and norm(s.value.args[0]) == ps[0]}
            want = [sorted([f"{ps[1]}[{i}]", f"{l}[{i}]"]) for l in logs] + [sorted([f"{ps[1]}[{i}]", f"numpy.log({ps[0]}[{i}])"]), sorted([f"{ps[1]}[{i}]", f"log({ps[0]}[{i}])"])]
            prod = sides in want
        ok = full and prod
        detail = f"res += {norm(acc[0].value) if acc else '?'} for {i} in {norm(lp.iter)}"
    else:
        # vectorised form: (log(lhs) * counts).sum() / dot
        txt = " ".join(norm(r.value) for r in walk_no_nested(kf) if isinstance(r, ast.Return) and r.value is not None)
        if "log" in txt and ps[1] in txt and ("sum" in txt or "dot" in txt):
            ok, detail = True, f"vectorised: {txt}"
    chk.decide(ok, "R11.4", key(mk, "get_log_sum_across_sites", "sum of log(lh[i]) * counts[i] over every unique column"), mk.loc(kf), detail, f"{detail}: not the count-weighted sum of the log column likelihoods over all unique columns")
    chk.floor("R11.4", 3, "source of counts, hand-over, kernel")


def r11_5(chk):
    chk.rule("R11.5", "a child's likelihoods are read through that child's own column index: in _LikelihoodTreeEdge.__init__ the column patterns are zip(*assignments) with one assignment list per child in children order, self.indexes is the transposed unique patterns, and _indexed_children = zip(self.indexes, children); the kernel sum_input_likelihoods takes child_indexes[child] and likelihoods[child] with the same subscript")
    m = chk.repo.module(LT)
    init = m.func("_LikelihoodTreeEdge.__init__")
    kk = key(m, "_LikelihoodTreeEdge.__init__", "assignments per child in children order")
    asg = [s for s in walk_no_nested(init) if isinstance(s, ast.Assign) and norm(s.targets[0]) == "assignments"]
    comp_ok = any(isinstance(s.value, ast.ListComp) and norm(s.value.generators[0].iter) == "children" and not s.value.generators[0].ifs for s in asg)
    loop_ok = any(isinstance(lp, ast.For) and norm(lp.iter) in ("enumerate(children)", "children") and any(isinstance(c, ast.Call) and norm(c.func) == "assignments.append" for c in ast.walk(lp)) for lp in walk_no_nested(init))
    chk.decide(comp_ok and loop_ok, "R11.5", kk, m.loc(asg[0] if asg else init), "one entry per child, in children order, on both construction paths", "the per-child assignment lists are not built over `children` in order on both paths")
    z = [s for s in walk_no_nested(init) if isinstance(s, ast.Assign) and norm(s.targets[0]) == "self._indexed_children"]
    chk.decide(bool(z) and norm(z[0].value) in ("list(zip(self.indexes, children))", "tuple(zip(self.indexes, children))", "zip(self.indexes, children)"), "R11.5", key(m, "_LikelihoodTreeEdge.__init__", "indexes paired with children positionally"), m.loc(z[0] if z else init), "zip(self.indexes, children)", f"`{norm(z[0].value) if z else '?'}` does not pair the i-th index array with the i-th child")
    ix = [s for s in walk_no_nested(init) if isinstance(s, ast.Assign) and norm(s.targets[0]) == "self.indexes"]
    kix = key(m, "_LikelihoodTreeEdge.__init__", "indexes are the transposed unique patterns")
    if not ix or "self.uniq" not in norm(ix[0].value):
        chk.unresolved("R11.5", kix, m.loc(ix[0] if ix else init), "self.indexes is not built from self.uniq in a recognised way")
    else:
        txt = norm(ix[0].value)
        chk.decide("transpose(self.uniq)" in txt or "self.uniq.T" in txt or "swapaxes(self.uniq" in txt, "R11.5", kix, m.loc(ix[0]), "self.indexes from transpose(self.uniq)", "self.indexes is built from self.uniq without transposing it: rows are unique columns, not children")
    mk = chk.repo.module(LTN)
    kf = mk.func("sum_input_likelihoods")
    ps = params_of(kf)
    loops = [lp for lp in walk_no_nested(kf) if isinstance(lp, ast.For) and isinstance(lp.target, ast.Name)]
    ok = False
    if loops:
        c = loops[0].target.id
        subs = {norm(s.value): norm(s.slice) for s in ast.walk(loops[0]) if isinstance(s, ast.Subscript) and isinstance(s.value, ast.Name) and s.value.id in (ps[0], ps[2])}
        ok = subs.get(ps[0]) == c and subs.get(ps[2]) == c
    chk.decide(ok, "R11.5", key(mk, "sum_input_likelihoods", "index and likelihoods of the same child"), mk.loc(kf), f"{ps[0]}[child] with {ps[2]}[child]", "the kernel reads a child's likelihoods through another child's index")
    chk.floor("R11.5", 3, "assignments, zip, kernel (transpose when recognised)")


def r11_6(chk):
    chk.rule("R11.6", "a parameter scope given as (two tips, outgroup) denotes the same edges however the tree happens to be rooted: TreeNode.get_edge_names, when an outgroup is named, ALWAYS computes the clade on a copy re-rooted at that outgroup -- the re-binding from outgroup.unrooted_deepcopy() sits directly in the `outgroup_name is not None` block (after the tip check), under no further condition, and the connecting node is looked up on the re-rooted tree")
    m = chk.repo.module("core/tree.py")
    q = "TreeNode.get_edge_names"
    fn = m.func(q)
    k = key(m, q, "re-rooted at the outgroup unconditionally")
    blocks = [i for i in fn.body if isinstance(i, ast.If) and "outgroup_name" in norm(i.test)]
    if not blocks:
        chk.violation("R11.6", k, m.loc(fn), "no `outgroup_name is not None` block: the clade is read off the tree as rooted, so the same (tips, outgroup) scope names different edges for different rootings")
        chk.floor("R11.6", 1, "get_edge_names")
        return
    b = blocks[0]
    REROOT = ("unrooted_deepcopy", "rooted_at", "rooted_with_tip", "unrooted")
    top = [st for st in b.body if isinstance(st, ast.Assign) and isinstance(st.value, ast.Call) and isinstance(st.value.func, ast.Attribute) and st.value.func.attr in REROOT]
    nested = [st for x in b.body if not isinstance(x, ast.Assign) for st in ast.walk(x) if isinstance(st, ast.Assign) and isinstance(st.value, ast.Call) and isinstance(st.value.func, ast.Attribute) and st.value.func.attr in REROOT]
    if top:
        tgt = norm(top[0].targets[0])
        uses = [c for st in fn.body[fn.body.index(b) + 1:] for c in ast.walk(st) if isinstance(c, ast.Call) and isinstance(c.func, ast.Attribute) and c.func.attr == "get_connecting_node"]
        on_new = bool(uses) and all(norm(c.func.value) == tgt for c in uses)
        chk.decide(on_new, "R11.6", k, m.loc(top[0]), f"`{norm(top[0])}` then {tgt}.get_connecting_node(...)", f"the tree is re-rooted into `{tgt}` but the connecting node is looked up on `{norm(uses[0].func.value) if uses else '?'}`")
    elif nested:
        chk.violation("R11.6", k, m.loc(nested[0]), f"`{norm(nested[0])}` happens only under a further condition: for the rootings that skip it the last common ancestor of the two tips can be the root, and the clade then takes in the outgroup's own edge -- the same scope gives different edge sets (and lnL) for different rootings of one tree")
    else:
        chk.violation("R11.6", k, m.loc(b), "the outgroup block no longer re-roots the tree")
    chk.floor("R11.6", 1, "get_edge_names")


def r11_7(chk):
    chk.rule("R11.7", "a branch length of exactly zero is a length: where the likelihood function takes its initial lengths from the tree (evolve/parameter_controller.py) the default replaces only a MISSING length (`is None`), never a falsy one -- `edge.length or default` turns the zero-length edge that splitting an edge into (0, L) creates (tree.bifurcating() does so by default) into an edge of length 1.0, and lnL changes")
    m = chk.repo.module("evolve/parameter_controller.py")
    n = 0
    for q, fn in m.all_functions():
        for x in walk_no_nested(fn):
            hit = None
            if isinstance(x, ast.BoolOp) and isinstance(x.op, ast.Or) and isinstance(x.values[0], ast.Attribute) and x.values[0].attr == "length":
                hit = x
            elif isinstance(x, ast.IfExp) and isinstance(x.test, ast.Attribute) and x.test.attr == "length":
                hit = x
            elif isinstance(x, ast.If) and ((isinstance(x.test, ast.Attribute) and x.test.attr == "length") or (isinstance(x.test, ast.UnaryOp) and isinstance(x.test.op, ast.Not) and isinstance(x.test.operand, ast.Attribute) and x.test.operand.attr == "length")):
                hit = x.test
            if hit is not None:
                n += 1
                chk.violation("R11.7", key(m, q, f"length default on None only: {norm(hit)[:60]}"), m.loc(hit), f"`{norm(hit)[:60]}` treats a length of 0.0 as missing: (a:0.1,b:0.2,(c:0.3)x:0.0,d:0.4) is evaluated with x = 1.0")
        sets = [c for c in walk_no_nested(fn) if isinstance(c, ast.Call) and isinstance(c.func, ast.Attribute) and c.func.attr == "set_param_rule" and c.args and norm(c.args[0]) == "'length'" and any(kw.arg == "init" for kw in c.keywords)]
        for c in sets:
            chk.ok("R11.7", key(m, q, "initial length from the tree"), m.loc(c), f"`{norm(c)[:70]}`")
    chk.floor("R11.7", 1, "set_default_tree_parameter_rules")


def run(chk):
    r11_1(chk)
    r11_7(chk)
    r11_6(chk)
    r11_2(chk)
    r11_3(chk)
    r11_4(chk)
    r11_5(chk)
    # moving the root is done with the tree's own re-rooting operations: that they keep every path length (the dissolved
    # root edge's length goes to all kept children, promoted nodes keep theirs) is C09's R09.6 / R09.13, and a necessary
    # condition of "lnL does not change when the root is moved" -- shared here
    from . import c09

    c09.r09_6(chk)
    c09.r09_13(chk)
    # a zero-length piece of a split edge must also survive being SET as a rule (set_param_rule('length', init=0.0)): the
    # numeric fields of a parameter rule are selected by `is not None` -- C07's R07.8, the same clause as R11.7 one step later
    from . import c07

    c07.r07_8(chk)
    chk.assume("tree edge names are unique (enforced when a likelihood function is made) and set_alignment asserts that sequence names and tip names coincide")
    chk.assume("not decided: invariance under moving the root (time-reversible models) and under splitting an edge (time-homogeneous models); these are numerical identities")
