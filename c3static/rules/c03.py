"""C03 -- alignment operations equal the same operations on the gapped strings.

That rows equal the string model (indel-map slicing, gap bookkeeping) is not decided.
Decided:
R03.1 operations are functions of their receiver: none of the listed operations
      mutates the alignment / collection it is called on (L5)
R03.2 the array-backed and the annotatable alignment classes expose the same
      operations with the same parameters and defaults
R03.3 state that records the history (reverse complemented; terminal gaps unknown)
      is carried by every functional update that rebuilds the object

Added in build round 2 (see DESIGN.md section 3, round-2 table):
R03.4 an Aligned is a (gap map, ungapped sequence) pair: in every binary/indexing method of Aligned, whenever the map of the result is computed from the ...
R03.5 rows of two collections are associated by name, never by position: no zip(...) in a collection method pairs rows/names of self with rows/names of the ...
R03.6 the array-backed and the annotatable alignment class mean the same thing by 'gap' in their sibling implementations: both test the single gap ...
R03.7 the two branches of an option give the same callee the same kind of value: where both branches of one `if` call the same function with the same ...
R03.8 slicing a gap map clamps like slicing a string: in IndelMap.__getitem__[slice] every arithmetic use of the slice's stop (a length `stop - start`, an ...

Added later in build rounds 2-3 (see DESIGN.md section 3, round-2/3 table):
R03.10 an integer index on an aligned sequence / gap map selects one position for EVERY index a string accepts: where the int overload of __getitem__ ...
R03.11 the index-type dispatch of Alignment.__getitem__ is exhaustive: the object it returns is assigned on every path that reaches the return (each ...
R03.12 a column predicate is used through its truth value: in the filtered() implementations the value of predicate(...) reaches comparisons (==, !=) only ...
R03.13 building a collection from rows that belong to another collection leaves those rows alone: the _construct_* helpers of the alignment module never ...
R03.9 concatenating gap maps keeps the map canonical: IndelMap.__add__ merges a gap run that ends the left map with one that starts the right map (a test ...
"""

from __future__ import annotations

import ast

from .. import effects as E
from .. import defuse as D
from ..index import AnalysisError, call_name, norm, param_defaults, params_of, walk_no_nested
from ..report import key

ALN = "core/alignment.py"

PURE_OPS = [
    "__getitem__", "rc", "reverse_complement", "take_seqs", "take_seqs_if", "take_positions", "take_positions_if", "filtered",
    "no_degenerates", "omit_gap_pos", "omit_gap_seqs", "omit_gap_runs", "omit_bad_seqs", "get_degapped_relative_to", "degap",
    "sample", "__add__", "add_seqs", "to_type", "to_moltype", "to_dna", "to_rna", "get_translation", "trim_stop_codons",
    "with_masked_annotations", "copy", "deepcopy", "to_dict", "to_rich_dict", "to_fasta", "to_phylip", "get_gapped_seq", "get_seq",
    "iter_seqs", "iter_positions", "get_identical_sets", "counts_per_seq", "counts_per_pos", "get_gap_array", "is_ragged", "get_lengths",
    "pad_seqs", "with_modified_termini", "get_similar", "matching_ref", "sliding_windows", "variable_positions", "iupac_consensus", "majority_consensus",
    "counts", "get_motif_probs", "probs_per_pos", "entropy_per_pos", "strand_symmetry", "has_terminal_stop", "get_ambiguous_positions", "to_json", "to_nexus",
]
ALIGNED_OPS = ["__getitem__", "rc", "to_dna", "to_rna", "to_moltype", "get_gapped_seq", "deepcopy", "copy", "to_rich_dict", "to_json", "with_termini_unknown", "remapped_to", "__add__", "gap_vector"]


class AlnFamily(E.Family):
    name = "alignment"
    self_kind = "ALN"
    attr_kinds = {
        "names": ("LIST", ("STR",)),
        "named_seqs": ("DICT", ("SEQ",)),
        "_named_seqs": ("DICT", ("SEQ",)),
        "seqs": ("LIST", ("SEQ",)),
        "_seqs": ("LIST", ("SEQ",)),
        "seq_data": ("ARRAY",),
        "array_seqs": ("ARRAY",),
        "array_positions": ("ARRAY",),
        "info": ("DICT",),
        "_repr_policy": ("DICT",),
        "name": ("STR",),
        "seq_len": ("SCALAR",),
        "map": ("MAP",),
        "data": ("SEQ",),
    }
    allowed_attrs = {
        "_named_seqs": "idempotent memo of names -> rows, filled on first access",
        "_repr_policy": "display policy only; never read by the operations of the model",
    }
    param_kinds = {"other": ("ALN",)}

    def __init__(self, repo, classes, module, self_kind="ALN"):
        super().__init__(repo, classes, module)
        self.self_kind = self_kind

    def is_ctor_expr(self, interp, e):
        if isinstance(e, ast.Name) and e.id in ("Alignment", "ArrayAlignment", "SequenceCollection", "Aligned") and e.id not in interp.env:
            return self.self_kind
        return None

    def special_attr_store(self, interp, owner, attr, val, node):
        if self.self_kind in owner.kinds:
            tgt = interp.engine.property_setter(interp.owner, attr)
            if tgt is not None:
                interp.apply_summary(tgt, owner, [val], {}, node, f"{norm(node)} = ... (property setter)")
                return True
        return False


def r03_1(chk):
    chk.rule("R03.1", "none of the listed alignment/collection operations (MRO-resolved for ArrayAlignment, Alignment, SequenceCollection, and for Aligned) mutates its receiver: no store, in-place ndarray write, container mutator or setter whose target lies exactly in the receiver's region, through calls resolved within the class (L5); allow-listed: _named_seqs (memo), _repr_policy (display)")
    m = chk.repo.module(ALN)
    n_fn = 0
    for cls_name, ops, kind in (("ArrayAlignment", PURE_OPS, "ALN"), ("Alignment", PURE_OPS, "ALN"), ("SequenceCollection", PURE_OPS, "ALN"), ("Aligned", ALIGNED_OPS, "ALN")):
        ci = m.cls(cls_name)
        fam = AlnFamily(chk.repo, [ci], m, kind)
        eng = E.Engine(fam)
        roots, names = [], []
        for name in ops:
            r = ci.resolve(name)
            if r is None or not isinstance(r[1], (ast.FunctionDef, ast.AsyncFunctionDef)):
                continue
            roots.append((r[0], r[1], True))
            names.append((name, r))
        eng.analyse(roots)
        chk.extra.setdefault("functions_summarised", {})[cls_name] = len(eng.summaries)
        for name, (owner, fn) in names:
            n_fn += 1
            summ = eng.summaries[(id(fn), owner.fq)]
            q = f"{owner.name}.{name}"
            if E.SELF in summ.mut:
                what, line, chain = summ.mut[E.SELF]
                via = " -> ".join(f"{c[0]} (L{c[1]})" for c in chain)
                chk.violation("R03.1", key(m, q, f"mutates receiver: {what}"), f"{m.rel}:{line}", f"`{what}` changes the object {name}() was called on" + (f" (reached via {via})" if via else "") + f": later operations on the same alignment then answer differently from the same operations on the original strings [{cls_name}]")
            else:
                chk.ok("R03.1", key(m, q, f"receiver untouched [{cls_name}]"), m.loc(fn), f"no definite receiver mutation (unresolved calls: {summ.unresolved})")
    chk.floor("R03.1", 120, "~45 operations x 3 classes + Aligned")


def r03_2(chk):
    chk.rule("R03.2", "for every public operation present on both ArrayAlignment and Alignment whose implementations are different functions, parameter names and defaults agree (a parameter missing on one side is accepted only under **kwargs there)")
    m = chk.repo.module(ALN)
    a, b = m.cls("ArrayAlignment"), m.cls("Alignment")
    ta, tb = a.method_table(), b.method_table()
    n = 0
    for name in sorted(set(ta) & set(tb)):
        if name.startswith("_"):
            continue  # dunder methods are called positionally: parameter names are not part of their interface
        ra, rb = ta[name], tb[name]
        if not ra or not rb or ra[1] is rb[1]:
            continue
        if not isinstance(ra[1], ast.FunctionDef) or not isinstance(rb[1], ast.FunctionDef):
            continue
        fa, fb = ra[1], rb[1]
        pa, pb = [p for p in params_of(fa) if p != "self"], [p for p in params_of(fb) if p != "self"]
        da, db = param_defaults(fa), param_defaults(fb)
        kwa, kwb = fa.args.kwarg is not None, fb.args.kwarg is not None
        va, vb = (fa.args.kwarg.arg if kwa else None), (fb.args.kwarg.arg if kwb else None)
        problems = []
        for p in pa:
            if p in (va, fa.args.vararg.arg if fa.args.vararg else None):
                continue
            if p not in pb:
                if not kwb:
                    problems.append(f"`{p}` accepted by ArrayAlignment only")
            elif (p in da) != (p in db) or (p in da and norm(da[p]) != norm(db[p])):
                problems.append(f"default of `{p}`: {norm(da[p]) if p in da else 'required'} vs {norm(db[p]) if p in db else 'required'}")
        for p in pb:
            if p in (vb, fb.args.vararg.arg if fb.args.vararg else None):
                continue
            if p not in pa and not kwa:
                problems.append(f"`{p}` accepted by Alignment only")
        n += 1
        k = key(m, f"{name}", f"{ra[0].name} vs {rb[0].name}")
        chk.decide(not problems, "R03.2", k, f"{m.loc(fa)} / {m.loc(fb)}", "same parameters and defaults", "; ".join(problems) + ": the two alignment classes answer the same call differently")
    chk.floor("R03.2", 12, "19 sibling pairs on the pinned tree")


# ---------------------------------------------------------------------------
HISTORY_STATE = [
    # (module, class, constructor parameter, reason)
    ("core/new_alignment.py", "SeqsData", "reversed_seqs", "records that this collection has been reverse complemented"),
    ("core/location.py", "IndelMap", "termini_unknown", "terminal gaps display as '?' rather than '-'"),
]


def _empty_gap_pos(call):
    """reconstruction with provably no gaps: gap_pos=<empty array literal>"""
    for kw in call.keywords:
        if kw.arg == "gap_pos":
            t = norm(kw.value)
            return t.startswith("numpy.array([]") or t.startswith("array([]") or t in ("numpy.empty(0, dtype=_DEFAULT_GAP_DTYPE)",) or "numpy.array([]," in t
    return False


def r03_3(chk):
    chk.rule("R03.3", "every self.__class__(...) / cls(...) reconstruction inside an instance method of a class written in the immutable-update style supplies the history-state constructor parameter(s) of that class (reconstructions that provably have no gaps are exempt for termini_unknown)")
    for rel, cname, param, why in HISTORY_STATE:
        m = chk.repo.module(rel)
        ci = m.cls(cname)
        init = ci.methods.get("__init__")
        is_dc = any("dataclass" in norm(d) for d in ci.decorators)
        fields = [st.target.id for st in ci.node.body if isinstance(st, ast.AnnAssign) and isinstance(st.target, ast.Name)] if is_dc else []
        if not ((init is not None and param in params_of(init)) or param in fields):
            raise AnalysisError(f"{rel}::{cname} constructor has no parameter {param}")
        # every function in the class body (singledispatch variants share the name `_`)
        fns = [st for st in ci.node.body if isinstance(st, (ast.FunctionDef, ast.AsyncFunctionDef))]
        for fn in fns:
            name = fn.name
            if any(norm(d) in ("classmethod", "staticmethod") for d in fn.decorator_list):
                continue
            reg = [norm(d) for d in fn.decorator_list if ".register" in norm(d)]
            if name == "_" and reg:
                ann = fn.args.args[1].annotation if len(fn.args.args) > 1 else None
                name = f"{reg[0].split('.')[0]}[{norm(ann) if ann is not None else '?'}]"
            for c in walk_no_nested(fn):
                if not (isinstance(c, ast.Call) and norm(c.func) in ("self.__class__", "type(self)", cname)):
                    continue
                q = f"{cname}.{name}"
                # distinguish several reconstruction sites in one method by their argument text
                k = key(m, q, f"carries {param}: {norm(c)[:90]}")
                supplied = any(kw.arg == param for kw in c.keywords) or any(kw.arg is None for kw in c.keywords)
                if not supplied and param == "termini_unknown" and _empty_gap_pos(c):
                    chk.ok("R03.3", k, m.loc(c), "no gaps in the rebuilt map: nothing to display", nontrivial=False)
                    continue
                chk.decide(supplied, "R03.3", k, m.loc(c), f"{param} passed on", f"{name}() rebuilds the {cname} without `{param}` ({why}): the result silently falls back to the default and forgets its history")
    chk.floor("R03.3", 10, "6 SeqsData + 16 IndelMap reconstruction sites on the pinned tree")


def _block_of(fn, stmt):
    """the statement list that directly contains stmt"""
    for node in ast.walk(fn):
        for fld in ("body", "orelse", "finalbody"):
            blk = getattr(node, fld, None)
            if isinstance(blk, list) and any(s is stmt for s in blk):
                return blk
    return fn.body


def r03_4(chk):
    chk.rule("R03.4", "an Aligned is a (gap map, ungapped sequence) pair: in every binary/indexing method of Aligned, whenever the map of the result is computed from the other operand / index, the data of the result is computed from it too, in the same block (a map combined with only one side's data gives rows of the wrong length)")
    m = chk.repo.module(ALN)
    ci = m.cls("Aligned")
    fns = [st for st in ci.node.body if isinstance(st, (ast.FunctionDef, ast.AsyncFunctionDef))]
    exempt = {"remapped_to": "re-gapping: the same ungapped sequence under a different map, by design", "with_termini_unknown": "display flag of the map only"}
    n = 0
    for fn in fns:
        ps = [p for p in params_of(fn) if p != "self"]
        if not ps or fn.name in exempt or fn.name in ("__init__", "from_rich_dict", "make_feature"):
            continue
        p = ps[0]
        rets = [c for r in walk_no_nested(fn) if isinstance(r, ast.Return) and isinstance(r.value, ast.Call) and norm(r.value.func) in ("Aligned", "self.__class__") for c in [r.value]]
        for c in rets:
            margs = [kw.value for kw in c.keywords if kw.arg == "map"] or c.args[:1]
            dargs = [kw.value for kw in c.keywords if kw.arg == "data"] or c.args[1:2]
            if not margs or not dargs:
                continue
            ma, da = margs[0], dargs[0]
            name = fn.name
            reg = [norm(d) for d in fn.decorator_list if ".register" in norm(d)]
            if name == "_" and reg:
                ann = fn.args.args[1].annotation if len(fn.args.args) > 1 else None
                name = f"{reg[0].split('.')[0]}[{norm(ann) if ann is not None else '?'}]"
            q = f"Aligned.{name}"

            def deps(expr, block, upto):
                """does expr depend on parameter p, looking through assignments in `block` before statement `upto`"""
                names = {x.id for x in ast.walk(expr) if isinstance(x, ast.Name)}
                if p in names:
                    return True
                for st in block:
                    if st is upto:
                        break
                    if isinstance(st, ast.Assign):
                        tg = st.targets[0]
                        tn = [e.id for e in tg.elts if isinstance(e, ast.Name)] if isinstance(tg, ast.Tuple) else [tg.id] if isinstance(tg, ast.Name) else []
                        if set(tn) & names and any(isinstance(x, ast.Name) and x.id == p for x in ast.walk(st.value)):
                            return True
                        if set(tn) & names:
                            # one level of indirection
                            inner = {x.id for x in ast.walk(st.value) if isinstance(x, ast.Name)}
                            for st2 in block:
                                if st2 is st:
                                    break
                                if isinstance(st2, ast.Assign) and isinstance(st2.targets[0], ast.Name) and st2.targets[0].id in inner and any(isinstance(x, ast.Name) and x.id == p for x in ast.walk(st2.value)):
                                    return True
                return False

            # sites where the map variable is bound: each must have the data bound from p in the same block
            sites = []
            if isinstance(ma, ast.Name):
                for st in walk_no_nested(fn):
                    if isinstance(st, ast.Assign):
                        tg = st.targets[0]
                        if isinstance(tg, ast.Tuple) and isinstance(st.value, ast.Tuple) and len(tg.elts) == len(st.value.elts):
                            pairs = {e.id: v for e, v in zip(tg.elts, st.value.elts) if isinstance(e, ast.Name)}
                            if ma.id in pairs:
                                sites.append((st, pairs[ma.id], pairs.get(da.id) if isinstance(da, ast.Name) else None))
                        elif isinstance(tg, ast.Name) and tg.id == ma.id:
                            sites.append((st, st.value, None))
                        elif isinstance(tg, ast.Tuple) and any(isinstance(e, ast.Name) and e.id == ma.id for e in tg.elts):
                            sites.append((st, st.value, st.value if isinstance(da, ast.Name) and any(isinstance(e, ast.Name) and e.id == da.id for e in tg.elts) else None))
            else:
                sites.append((None, ma, da))
            for st, mexpr, dexpr in sites:
                block = _block_of(fn, st) if st is not None else fn.body
                m_dep = deps(mexpr, block, st)
                if not m_dep:
                    continue
                n += 1
                if dexpr is not None:
                    d_dep = deps(dexpr, block, st)
                else:
                    # the data variable bound elsewhere in the same block
                    d_dep = False
                    if isinstance(da, ast.Name):
                        for st2 in block:
                            if isinstance(st2, ast.Assign):
                                tg = st2.targets[0]
                                tn = [e.id for e in tg.elts if isinstance(e, ast.Name)] if isinstance(tg, ast.Tuple) else [tg.id] if isinstance(tg, ast.Name) else []
                                if da.id in tn and deps(st2.value, block, st2):
                                    d_dep = True
                    else:
                        d_dep = deps(da, block, None)
                where = m.loc(st if st is not None else c)
                chk.decide(d_dep, "R03.4", key(m, q, f"map `{norm(mexpr)}` and data move together"), where, f"map and data both computed from `{p}`", f"the result's map `{norm(mexpr)}` is computed from `{p}` but its data is not: the gap map and the sequence it describes no longer have matching lengths")
    chk.floor("R03.4", 3, "__add__, __getitem__ variants")


OTHER_PARAMS = ("other", "ref_aln", "template", "seqs")


def _positional_pairings(fn):
    """zip(...) calls that pair something of self with something of another collection parameter"""
    ps = [p for p in params_of(fn) if p in OTHER_PARAMS]
    out = []
    if not ps:
        return out
    for c in walk_no_nested(fn):
        if isinstance(c, ast.Call) and call_name(c) == "zip" and len(c.args) >= 2:
            roots = []
            for a in c.args:
                names = {x.id for x in ast.walk(a) if isinstance(x, ast.Name)}
                roots.append(("self" if "self" in names else None, next((p for p in ps if p in names), None)))
            if any(r[0] for r in roots) and any(r[1] for r in roots) and not all(r[0] and r[1] for r in roots):
                out.append(c)
    return out


def r03_5(chk):
    chk.rule("R03.5", "rows of two collections are associated by name, never by position: no zip(...) in a collection method pairs rows/names of self with rows/names of the other collection")
    n = 0
    for rel, classes in ((ALN, ("_SequenceCollectionBase", "SequenceCollection", "AlignmentI", "ArrayAlignment", "Alignment")), ("core/new_alignment.py", ("SequenceCollection",))):
        m = chk.repo.module(rel)
        for cname in classes:
            ci = m.cls(cname)
            for name, fn in ci.methods.items():
                if not isinstance(fn, ast.FunctionDef) or not any(p in OTHER_PARAMS for p in params_of(fn)):
                    continue
                n += 1
                hits = _positional_pairings(fn)
                q = f"{cname}.{name}"
                for c in hits:
                    chk.violation("R03.5", key(m, q, f"positional pairing {norm(c)}"), m.loc(c), f"`{norm(c)}` pairs the rows of the two collections by position: when the other collection lists the same names in another order, each name receives the wrong row")
                if not hits:
                    chk.ok("R03.5", key(m, q, "rows paired by name"), m.loc(fn), "no positional pairing of self with the other collection", nontrivial=False)
    probe = ast.parse("def __add__(self, other):\n    return [a + b for a, b in zip(self.seqs, other.seqs)]\n").body[0]
    if not _positional_pairings(probe):
        raise AnalysisError("R03.5 self-probe failed")
    chk.floor("R03.5", 0, "expected-zero rule with embedded probe")


GAP_SIBLINGS = ["get_degapped_relative_to", "get_gap_array", "no_degenerates", "omit_gap_pos", "iupac_consensus"]
GAP_HELPERS = ("get_gap_array", "count_gaps_per_pos", "count_gaps_per_seq", "gap_vector")


def _gap_vocabulary(fn):
    """what the function means by 'gap': the single gap character (`.gap`), the set including ambiguity-with-gap
    (`.gaps`), and gap-mask helpers called with their ambiguity-inclusive default"""
    # the indel maps of an annotatable alignment record the gap character only ('-'), never '?'
    single = any(isinstance(x, ast.Attribute) and x.attr in ("gap", "num_gaps", "gap_pos", "cum_gap_lengths") for x in ast.walk(fn))
    plural = any(isinstance(x, ast.Attribute) and x.attr == "gaps" for x in ast.walk(fn))
    helpers = set()
    for c in ast.walk(fn):
        if isinstance(c, ast.Call) and isinstance(c.func, ast.Attribute) and c.func.attr in GAP_HELPERS:
            amb = [norm(kw.value) for kw in c.keywords if kw.arg == "include_ambiguity"]
            helpers.add(f"{c.func.attr}(include_ambiguity={amb[0] if amb else 'default True'})")
    return single, plural, frozenset(helpers)


def r03_6(chk):
    chk.rule("R03.6", "the array-backed and the annotatable alignment class mean the same thing by 'gap' in their sibling implementations: both test the single gap character, or both the gap set incl. ambiguity, or both go through the same mask helper (stated limit as for the twins: moving the lookup into a helper on one side only is reported)")
    m = chk.repo.module(ALN)
    a, b = m.cls("ArrayAlignment"), m.cls("Alignment")
    for name in GAP_SIBLINGS:
        ra, rb = a.resolve(name), b.resolve(name)
        if not ra or not rb or not isinstance(ra[1], ast.FunctionDef) or not isinstance(rb[1], ast.FunctionDef):
            raise AnalysisError(f"gap sibling {name} missing")
        if ra[1] is rb[1]:
            continue
        va, vb = _gap_vocabulary(ra[1]), _gap_vocabulary(rb[1])
        desc = lambda v: ("single gap character" if v[0] else "") + (" gap set incl. ambiguity" if v[1] else "") + (" " + ", ".join(sorted(v[2])) if v[2] else "")  # noqa: E731
        chk.decide(va == vb, "R03.6", key(m, name, f"{ra[0].name} vs {rb[0].name} gap vocabulary"), f"{m.loc(ra[1])} / {m.loc(rb[1])}", f"both use:{desc(va)}", f"{ra[0].name} uses:{desc(va) or ' nothing'} but {rb[0].name} uses:{desc(vb) or ' nothing'}: on a sequence with '?' or other gap-including ambiguity codes the two classes keep different columns")
    chk.floor("R03.6", 4, "gap-relative sibling operations")


def _value_kind(e):
    """syntactic kind of an argument expression, when it is evident"""
    if isinstance(e, (ast.List, ast.ListComp)) or (isinstance(e, ast.Call) and call_name(e) == "list"):
        return "list"
    if isinstance(e, (ast.Tuple,)) or (isinstance(e, ast.Call) and call_name(e) == "tuple"):
        return "tuple"
    if isinstance(e, (ast.Dict, ast.DictComp)) or (isinstance(e, ast.Call) and call_name(e) == "dict"):
        return "dict"
    if isinstance(e, ast.JoinedStr) or (isinstance(e, ast.Constant) and isinstance(e.value, str)) or (isinstance(e, ast.Call) and call_name(e) == "str"):
        return "str"
    if isinstance(e, ast.Call) and isinstance(e.func, ast.Attribute) and e.func.attr == "join" and isinstance(e.func.value, ast.Constant) and isinstance(e.func.value.value, str):
        return "str"
    if isinstance(e, ast.GeneratorExp):
        return "generator"
    return None


def _branch_kind_conflicts(fn):
    """(if-node, callee, slot, kindA, kindB, callB) where the two branches of one `if` give the same callee slot values of different evident kinds"""
    out, pairs = [], 0
    for i in walk_no_nested(fn):
        if not isinstance(i, ast.If) or not i.orelse:
            continue
        sides = []
        for blk in (i.body, i.orelse):
            slots = {}
            for st in blk:
                for c in ast.walk(st):
                    if isinstance(c, ast.Call) and call_name(c):
                        for kw in c.keywords:
                            if kw.arg and _value_kind(kw.value):
                                slots.setdefault((call_name(c), kw.arg), (_value_kind(kw.value), c))
                        for n, a in enumerate(c.args):
                            if _value_kind(a):
                                slots.setdefault((call_name(c), n), (_value_kind(a), c))
            sides.append(slots)
        for slot in set(sides[0]) & set(sides[1]):
            pairs += 1
            (ka, ca), (kb, cb) = sides[0][slot], sides[1][slot]
            if ka != kb and {ka, kb} != {"list", "tuple"}:
                # only a contradiction when both sides build the value from the same element expression (one joins it,
                # the other does not); a callee that accepts both a name and a list of names is not one
                va = next((kw.value for kw in ca.keywords if kw.arg == slot[1]), None) if isinstance(slot[1], str) else (ca.args[slot[1]] if slot[1] < len(ca.args) else None)
                vb = next((kw.value for kw in cb.keywords if kw.arg == slot[1]), None) if isinstance(slot[1], str) else (cb.args[slot[1]] if slot[1] < len(cb.args) else None)
                elts = lambda v: {norm(c.elt) for c in ast.walk(v) if isinstance(c, (ast.ListComp, ast.GeneratorExp, ast.SetComp))} if v is not None else set()  # noqa: E731
                if elts(va) & elts(vb):
                    out.append((i, slot[0], slot[1], ka, kb, ca))
    return out, pairs


def r03_7(chk):
    chk.rule("R03.7", "the two branches of an option give the same callee the same kind of value: where both branches of one `if` call the same function with the same argument slot, build the argument from the same element expression, and the kinds are syntactically evident (one joins the elements into a string, the other passes the list), they agree (contradiction rule: one branch's belief about what the callee accepts is wrong, and the untested branch always raises)")
    total = 0
    for rel, classes in ((ALN, ("_SequenceCollectionBase", "SequenceCollection", "AlignmentI", "ArrayAlignment", "Alignment", "Aligned")), ("core/new_alignment.py", ("SequenceCollection", "Alignment", "Aligned"))):
        m = chk.repo.module(rel)
        for cname in classes:
            ci = m.classes.get(cname)
            if ci is None:
                continue
            for name, fn in ci.methods.items():
                if not isinstance(fn, ast.FunctionDef):
                    continue
                conflicts, pairs = _branch_kind_conflicts(fn)
                total += pairs
                q = f"{cname}.{name}"
                for i, callee, slot, ka, kb, c in conflicts:
                    chk.violation("R03.7", key(m, q, f"{callee}({slot}=...) kinds {ka}/{kb}"), m.loc(c), f"under `if {norm(i.test)}` the call {callee}(...) receives a {ka} for `{slot}`, in the other branch a {kb}: one of the two branches cannot work (the operation raises for that option value)")
                if pairs and not conflicts:
                    chk.ok("R03.7", key(m, q, "branch kinds agree"), m.loc(fn), f"{pairs} slot(s) given the same kind in both branches")
    probe = ast.parse("def f(self, negate):\n    if negate:\n        r = make_seq(seq=[c for c in s])\n    else:\n        r = make_seq(seq=''.join(c for c in s))\n").body[0]
    if not _branch_kind_conflicts(probe)[0]:
        raise AnalysisError("R03.7 self-probe failed")
    chk.extra["R03.7 slot pairs compared"] = total
    chk.floor("R03.7", 1, "at least take_positions' two make_seq calls")


def _slice_bound_uses(fn):
    """for a function with a slice parameter: (names bound from <param>.stop, CFG, clamp nodes, use nodes).
    A *clamp* bounds the name by the length of the receiver: `n = min(n, len(self))`, `n = min(len(self), n)`,
    or the triple from `<param>.indices(len(self))`.  A *use* is arithmetic on the name (a subtraction /
    addition operand) or passing it on as a keyword argument or to a self-method other than len/min."""
    from .. import cfg as C

    ps = [p for p in params_of(fn) if p != "self"]
    stops = set()
    for tg, v, _ in D.assignments(fn):
        if any(isinstance(n, ast.Attribute) and n.attr == "stop" and isinstance(n.value, ast.Name) and n.value.id in ps for n in ast.walk(v)):
            stops |= {t.id for t in tg if isinstance(t, ast.Name)}
    if not stops:
        return None
    g = C.build(fn)

    def is_clamp(a):
        if isinstance(a, ast.Assign) and len(a.targets) == 1 and isinstance(a.targets[0], ast.Name) and a.targets[0].id in stops and isinstance(a.value, ast.Call) and call_name(a.value) == "min":
            args = [norm(x) for x in (a.value.args[0].elts if len(a.value.args) == 1 and isinstance(a.value.args[0], (ast.Tuple, ast.List)) else a.value.args)]
            return a.targets[0].id in args and any(x in ("len(self)", "self.__len__()") for x in args)
        if isinstance(a, ast.Assign) and isinstance(a.value, ast.Call) and isinstance(a.value.func, ast.Attribute) and a.value.func.attr == "indices" and [norm(x) for x in a.value.args] == ["len(self)"]:
            return True
        return False

    clamps = [n for n in g.nodes if n.ast is not None and n.kind not in ("def",) and is_clamp(n.ast)]

    def uses_name(x):
        if isinstance(x, ast.BinOp) and isinstance(x.op, (ast.Sub, ast.Add)) and any(isinstance(o, ast.Name) and o.id in stops for o in (x.left, x.right)):
            return True
        if isinstance(x, ast.Call) and call_name(x) not in ("min", "max", "len"):
            if any(isinstance(k.value, ast.Name) and k.value.id in stops for k in x.keywords):
                return True
            if isinstance(x.func, ast.Attribute) and norm(x.func.value) == "self" and any(isinstance(a, ast.Name) and a.id in stops for a in x.args):
                return True
        return False

    # statements that rebind the stop itself (negative-index conversion, defaults) are normalisation, not uses
    uses = [u for u in g.nodes_containing(uses_name) if not (isinstance(u.ast, ast.Assign) and all(isinstance(t, ast.Name) and t.id in stops for t in u.ast.targets))]
    return stops, g, clamps, uses


def r03_8(chk):
    chk.rule("R03.8", "slicing a gap map clamps like slicing a string: in IndelMap.__getitem__[slice] every arithmetic use of the slice's stop (a length `stop - start`, an index handed to another method) is dominated by a clamp of that stop to len(self) -- an unclamped stop beyond the end becomes part of the result's length, and every later coordinate computed from that length (len(), reverse complement) is wrong")
    m = chk.repo.module("core/location.py")
    ci = m.cls("IndelMap")
    fns = [st for st in ci.node.body if isinstance(st, ast.FunctionDef) and st.name == "_" and any("__getitem__.register" in norm(d) for d in st.decorator_list) and len(st.args.args) > 1 and st.args.args[1].annotation is not None and norm(st.args.args[1].annotation) == "slice"]
    if not fns:
        raise AnalysisError("IndelMap.__getitem__ slice overload not found")
    for fn in fns:
        r = _slice_bound_uses(fn)
        if r is None:
            raise AnalysisError("IndelMap.__getitem__[slice]: no name bound from <slice>.stop")
        stops, g, clamps, uses = r
        if not uses:
            raise AnalysisError("IndelMap.__getitem__[slice]: no arithmetic use of the stop found")
        for u in uses:
            okd, path = g.dominated_by(u, clamps) if clamps else (False, None)
            chk.decide(okd, "R03.8", key(m, "IndelMap.__getitem__[slice]", f"stop clamped before {norm(u.ast)[:60] if not isinstance(u.ast, (ast.If, ast.For, ast.While)) else norm(u.ast.test if hasattr(u.ast, 'test') else u.ast.iter)[:60]}"), m.loc(u.ast), "dominated by a clamp to len(self)", "a stop taken from the slice reaches this arithmetic without having been bounded by len(self): imap[2:100] on a map of length 10 yields a map of length 98" + (f" (path: {g.show_path(path)})" if path else ""))
    chk.floor("R03.8", 3, "arithmetic uses of the slice stop in IndelMap.__getitem__[slice]")


def r03_9(chk):
    chk.rule("R03.9", "concatenating gap maps keeps the map canonical: IndelMap.__add__ merges a gap run that ends the left map with one that starts the right map (a test of the last left position against the first right position), so that wherever alignment code adds two maps (`a.map + b.map`) the result is the map of the concatenated gapped string -- two records with the same position make spans / joined_segments produce rows of unequal length")
    lm = chk.repo.module("core/location.py")
    ci = lm.cls("IndelMap")
    add = ci.methods.get("__add__")
    if not isinstance(add, ast.FunctionDef):
        raise AnalysisError("IndelMap.__add__ not found")

    def last_first(c):
        txt = [norm(c.left)] + [norm(x) for x in c.comparators]
        return isinstance(c.ops[0], ast.Eq) and any("[-1]" in t for t in txt) and any("[0]" in t for t in txt)

    seam = any(isinstance(c, ast.Compare) and last_first(c) for c in ast.walk(add))
    uses = []
    for rel in (ALN, "core/new_alignment.py"):
        m = chk.repo.module(rel)
        for q, fn in m.all_functions():
            for b in walk_no_nested(fn):
                if isinstance(b, ast.BinOp) and isinstance(b.op, ast.Add) and all(isinstance(o, ast.Attribute) and o.attr == "map" for o in (b.left, b.right)):
                    uses.append((m, q, b))
    k = key(lm, "IndelMap.__add__", "seam run merged")
    if seam:
        chk.ok("R03.9", k, lm.loc(add), f"last/first position compared; {len(uses)} map additions in the alignment modules")
    elif not uses:
        # nothing in the alignment modules depends on it: the obligation is vacuous, the flaw is reported as an advisory
        chk.ok("R03.9", k, lm.loc(add), "no alignment code adds two maps", nontrivial=False)
        chk.advisory("R03.9", key(lm, "IndelMap.__add__", "seam run not merged (latent)"), lm.loc(add), "IndelMap.__add__ does not merge abutting gap runs; no alignment code adds two maps today (latent)")
    for m, q, b in uses:
        chk.decide(seam, "R03.9", key(m, q, f"`{norm(b)}` relies on a canonical sum"), m.loc(b), "IndelMap.__add__ merges the seam", f"`{norm(b)}` concatenates two gap maps with IndelMap.__add__, which keeps a gap that ends the left part and one that starts the right part as two records at one position: '----' + '--TAC' is rendered too long, and later column filtering raises 'not all sequences have same length'")
    chk.floor("R03.9", 1, "IndelMap.__add__")


def _one_element_slices(fn):
    """[(subscript, safe?)] for `self[x : x + 1 ...]` delegations of an integer index x (a parameter of fn)"""
    ps = set(params_of(fn)) - {"self"}
    out = []
    for sub in ast.walk(fn):
        if isinstance(sub, ast.Subscript) and norm(sub.value) == "self" and isinstance(sub.slice, ast.Slice) and sub.slice.lower is not None and sub.slice.upper is not None and isinstance(sub.slice.lower, ast.Name) and sub.slice.lower.id in ps:
            x = sub.slice.lower.id
            up = sub.slice.upper
            plain = isinstance(up, ast.BinOp) and isinstance(up.op, ast.Add) and norm(up.left) == x and norm(up.right) == "1"
            guarded = isinstance(up, ast.BoolOp) and isinstance(up.op, ast.Or) and norm(up.values[-1]) == "None" and norm(up.values[0]) == f"{x} + 1"
            normalised = any(isinstance(st, (ast.Assign, ast.AugAssign)) and x in {n.id for n in ast.walk(st.targets[0] if isinstance(st, ast.Assign) else st.target) if isinstance(n, ast.Name)} for st in ast.walk(fn))
            if plain or guarded:
                out.append((sub, guarded or normalised))
    return out


def r03_10(chk):
    chk.rule("R03.10", "an integer index on an aligned sequence / gap map selects one position for EVERY index a string accepts: where the int overload of __getitem__ delegates to a one-element slice it is spelt `self[i : i + 1 or None]` (or i is first made non-negative) -- `self[i : i + 1]` is the empty slice [-1:0] for i == -1, so aln[-1] has empty rows and take_positions([.., -1]) loses the last column")
    n = 0
    for rel, cname in ((ALN, "Aligned"), ("core/location.py", "IndelMap")):
        m = chk.repo.module(rel)
        ci = m.cls(cname)
        fns = [st for st in ci.node.body if isinstance(st, ast.FunctionDef) and (st.name == "__getitem__" or (st.name == "_" and any("__getitem__.register" in norm(d) for d in st.decorator_list)))]
        for fn in fns:
            for sub, safe in _one_element_slices(fn):
                n += 1
                chk.decide(safe, "R03.10", key(m, f"{cname}.__getitem__[int]", "one-element slice correct for -1"), m.loc(sub), f"`{norm(sub)}`", f"`{norm(sub)}` is empty for the index -1 (its stop is 0): {cname}[-1] selects nothing where the string model and the array-backed class give the last position")
    if n < 2:
        raise AnalysisError("R03.10: the int overloads of Aligned / IndelMap __getitem__ were not found")
    chk.floor("R03.10", 2, "Aligned and IndelMap")


def r03_11(chk):
    chk.rule("R03.11", "the index-type dispatch of Alignment.__getitem__ is exhaustive: the object it returns is assigned on every path that reaches the return (each isinstance branch binds it, anything else raises) -- a type that matches no branch (numpy.int64, as numpy.where returns) must not fall through to the use of an unbound local")
    from .. import cfg as C
    from .. import defuse as DU

    m = chk.repo.module(ALN)
    fn = m.func("Alignment.__getitem__")
    g = C.build(fn)
    rets = [n for n in g.nodes if n.kind == "return" and isinstance(n.ast.value, ast.Name)]
    if not rets:
        raise AnalysisError("Alignment.__getitem__: no `return <name>` found")
    for r in rets:
        nm = r.ast.value.id
        defs = [n for n in g.nodes if nm in DU._defs_of_node(n)]
        okd = bool(defs) and g.dominated_by(r, defs)[0]
        uses = [n for n in g.nodes if n.ast is not None and n.kind != "def" and any(isinstance(x, ast.Name) and x.id == nm and isinstance(x.ctx, ast.Load) for e in C.own_exprs(n) for x in C._walk_shallow(e))]
        all_ok = okd and all(g.dominated_by(u, defs)[0] or u in defs for u in uses)
        _, path = g.dominated_by(r, defs) if defs else (False, None)
        chk.decide(all_ok, "R03.11", key(m, "Alignment.__getitem__", f"`{nm}` bound on every path"), m.loc(r.ast), "every path to the return binds it or raises", f"`{nm}` can be unbound where it is used" + (f" (path: {g.show_path(path)})" if path else "") + ": an index of a type no isinstance branch accepts raises UnboundLocalError instead of selecting the column / raising TypeError")
    chk.floor("R03.11", 1, "Alignment.__getitem__")


def r03_12(chk):
    chk.rule("R03.12", "a column predicate is used through its truth value: in the filtered() implementations the value of predicate(...) reaches comparisons (==, !=) only through bool(...); used in `if` / `not` it is fine -- a predicate that returns a count keeps the column in the string model, and sibling classes must agree")
    m = chk.repo.module(ALN)
    n = 0
    for cname in ("AlignmentI", "ArrayAlignment", "Alignment"):
        ci = m.cls(cname)
        fn = ci.methods.get("filtered")
        if not isinstance(fn, ast.FunctionDef):
            continue
        calls = [c for c in walk_no_nested(fn) if isinstance(c, ast.Call) and isinstance(c.func, ast.Name) and c.func.id == "predicate"]
        if not calls:
            continue
        n += 1
        raw = set()
        for st in walk_no_nested(fn):
            if isinstance(st, ast.Assign) and len(st.targets) == 1 and isinstance(st.targets[0], ast.Name) and isinstance(st.value, ast.Call) and isinstance(st.value.func, ast.Name) and st.value.func.id == "predicate":
                raw.add(st.targets[0].id)
        bad = [c for c in walk_no_nested(fn) if isinstance(c, ast.Compare) and isinstance(c.ops[0], (ast.Eq, ast.NotEq)) and any((isinstance(o, ast.Name) and o.id in raw) or (isinstance(o, ast.Call) and isinstance(o.func, ast.Name) and o.func.id == "predicate") for o in [c.left] + c.comparators)]
        chk.decide(not bad, "R03.12", key(m, f"{cname}.filtered", "predicate by truth value"), m.loc(bad[0] if bad else fn), "no comparison on the predicate's raw value", f"`{norm(bad[0]) if bad else ''}` compares the raw value returned by the predicate: a predicate returning counts (1, 2, 1, 0) opens and closes blocks at the wrong columns")
    chk.floor("R03.12", 2, "filtered in both alignment classes")


def r03_13(chk):
    chk.rule("R03.13", "building a collection from rows that belong to another collection leaves those rows alone: the _construct_* helpers of the alignment module never store an attribute on (or mutate) the data object they are handed -- they may only return it or a copy; a row renamed in place is renamed inside the alignment it came from too, whose names, rows and serialised form then disagree")
    m = chk.repo.module(ALN)
    n = 0
    for node in m.tree.body:
        if not isinstance(node, ast.FunctionDef):
            continue
        is_helper = node.name.startswith("_construct_") or (node.name == "_" and any("_construct_" in norm(d) for d in node.decorator_list))
        if not is_helper or not node.args.args:
            continue
        n += 1
        p0 = node.args.args[0].arg
        # stores through the first parameter, before any rebinding of that name
        rebinds = sorted(st.lineno for st in walk_no_nested(node) if isinstance(st, ast.Assign) and any(isinstance(t, ast.Name) and t.id == p0 for t in st.targets))
        bad = []
        # names that may BE the parameter: `x = data`, `x = ... if ... else data`, `x = data.to_moltype(...)` (returns
        # its receiver when there is nothing to convert)
        may_alias = {}
        for st in walk_no_nested(node):
            if isinstance(st, ast.Assign) and len(st.targets) == 1 and isinstance(st.targets[0], ast.Name) and st.targets[0].id != p0:
                arms = [st.value.body, st.value.orelse] if isinstance(st.value, ast.IfExp) else [st.value]
                for a_ in arms:
                    if (isinstance(a_, ast.Name) and a_.id == p0) or (isinstance(a_, ast.Call) and isinstance(a_.func, ast.Attribute) and a_.func.attr in ("to_moltype",) and isinstance(a_.func.value, ast.Name) and a_.func.value.id == p0):
                        may_alias.setdefault(st.targets[0].id, st)
        for st in walk_no_nested(node):
            tg = st.targets if isinstance(st, ast.Assign) else [st.target] if isinstance(st, ast.AugAssign) else []
            for t in tg:
                if isinstance(t, (ast.Attribute, ast.Subscript)) and isinstance(t.value, ast.Name) and t.value.id == p0 and not any(r <= st.lineno for r in rebinds):
                    bad.append(st)
                if isinstance(t, (ast.Attribute, ast.Subscript)) and isinstance(t.value, ast.Name) and t.value.id in may_alias:
                    al = t.value.id
                    # an identity test that re-binds the alias to a copy before the store clears it
                    cleared = any(isinstance(i, ast.If) and any(norm(t_) in (f"{al} is {p0}", f"{p0} is {al}") for t_ in ([i.test] + (i.test.values if isinstance(i.test, ast.BoolOp) and isinstance(i.test.op, ast.And) else []))) and any(isinstance(b_, ast.Assign) and norm(b_.targets[0]) == al for b_ in i.body) and i.lineno < st.lineno for i in walk_no_nested(node))
                    if not cleared:
                        bad.append(st)
        q = node.name if node.name != "_" else f"{[norm(d).split('.')[0] for d in node.decorator_list][0]}[{norm(node.args.args[0].annotation) if node.args.args[0].annotation is not None else '?'}]"
        chk.decide(not bad, "R03.13", key(m, q, f"`{p0}` not modified"), m.loc(bad[0] if bad else node), "returns the object or a copy", f"`{norm(bad[0]) if bad else ''}` changes the object the caller passed in: Alignment({{'x': aln.named_seqs['a']}}) renames the row inside `aln` as well")
    chk.floor("R03.13", 8, "the _construct_* overloads of the alignment module")


def r03_14(chk):
    chk.rule("R03.14", "positions taken from a numpy array are positions: where __getitem__ of Aligned / IndelMap dispatches on the index type (singledispatchmethod), numpy.integer is registered next to int -- iterating a numpy index array yields numpy.int64, which is not an int, and an unregistered type falls to the NotImplementedError base, so take_positions(numpy_array) fails on the annotatable class while the array-backed one works")
    for rel, cname in ((ALN, "Aligned"), ("core/location.py", "IndelMap")):
        m = chk.repo.module(rel)
        ci = m.cls(cname)
        regs = []
        for st in ci.node.body:
            if isinstance(st, ast.FunctionDef) and st.name == "_" and any("__getitem__.register" in norm(d) for d in st.decorator_list) and len(st.args.args) > 1 and st.args.args[1].annotation is not None:
                regs.append(norm(st.args.args[1].annotation))
        if "int" not in regs:
            raise AnalysisError(f"{cname}.__getitem__: int overload not found")
        chk.decide(any(r in ("numpy.integer", "np.integer", "numbers.Integral") for r in regs), "R03.14", key(m, f"{cname}.__getitem__", "numpy integers dispatched like int"), m.loc(ci.node), f"registered: {sorted(regs)}", f"{cname}.__getitem__ registers {sorted(regs)} but no numpy integer type: an index taken from a numpy array raises NotImplementedError")
    chk.floor("R03.14", 2, "Aligned and IndelMap")


def r03_15(chk):
    chk.rule("R03.15", "taking and omitting the same index list are complementary: in take_positions the negate branch compares positions 0..len-1 with the caller's indices only after these were normalised (modulo / plus the length) -- the taking branch resolves a negative index through sequence indexing, so a raw membership test against range(len(seq)) never omits the column that -1 takes")
    m = chk.repo.module(ALN)
    fn = m.func("AlignmentI.take_positions")
    ps = [p for p in params_of(fn) if p not in ("self", "negate")]
    if not ps:
        raise AnalysisError("AlignmentI.take_positions: index parameter not found")
    cols = ps[0]
    branch = [i for i in walk_no_nested(fn) if isinstance(i, ast.If) and norm(i.test) == "negate"]
    if not branch:
        raise AnalysisError("AlignmentI.take_positions: `if negate:` branch not found")
    body = ast.Module(body=branch[0].body, type_ignores=[])
    from ..defuse import assignments

    lookups = [(tg, v) for tg, v, _ in assignments(body) if cols in {x.id for x in ast.walk(v) if isinstance(x, ast.Name)}]
    if not lookups:
        raise AnalysisError("AlignmentI.take_positions: the omit-lookup built from the indices was not found")
    for tg, v in lookups:
        normalised = any(isinstance(x, ast.BinOp) and isinstance(x.op, (ast.Mod, ast.Add)) for x in ast.walk(v)) or any(isinstance(x, ast.Call) and call_name(x) in ("range", "numpy.arange") for x in ast.walk(v))
        wraps = [x for x in ast.walk(v) if isinstance(x, ast.BinOp) and isinstance(x.op, ast.Mod)]
        if wraps:
            chk.violation("R03.15", key(m, "AlignmentI.take_positions", "out-of-range indices are not wrapped"), m.loc(wraps[0]), f"`{norm(wraps[0])}` folds every index into 0..len-1: omitting the out-of-range position len(aln) removes column 0 (taking it raises IndexError), so taking and omitting are not complementary; only negative indices count from the end")
        else:
            chk.ok("R03.15", key(m, "AlignmentI.take_positions", "out-of-range indices are not wrapped"), m.loc(v), "no modulo on the indices")
        chk.decide(normalised, "R03.15", key(m, "AlignmentI.take_positions", "omitted indices normalised"), m.loc(v), f"`{norm(v)[:70]}`", f"`{norm(v)[:70]}` keeps the indices as given: a negative index is never equal to a position in range(len(seq)), so take_positions([-1], negate=True) omits nothing while take_positions([-1]) selects the last column")
    chk.floor("R03.15", 1, "the negate branch")


SELECTORS = [
    # (class.method, the local that holds the selected column indices)
    ("ArrayAlignment.filtered", "indices"),
    ("ArrayAlignment.sample", "locations"),
]


def r03_16(chk):
    chk.rule("R03.16", "a column-selecting operation of the array-backed alignment builds its result from the selection on every path: each definition of the array handed to the result constructor derives from the selected indices (take / fancy indexing with them) -- a shortcut that hands on `self.array_seqs` when 'everything was selected' keeps the trailing columns that motif truncation (drop_remainder) had removed, and the two alignment classes then disagree")
    from ..defuse import derived_names, expr_derives

    m = chk.repo.module("core/alignment.py")
    for q, sel in SELECTORS:
        fn = m.func(q)
        d = derived_names(fn, {sel})
        ctor = [c for c in walk_no_nested(fn) if isinstance(c, ast.Call) and norm(c.func) == "self.__class__" and c.args]
        if not ctor:
            raise AnalysisError(f"{q}: result constructor not found")
        for c in ctor:
            a0 = c.args[0]
            base = a0
            while isinstance(base, ast.Attribute):
                base = base.value
            k = key(m, q, "result built from the selection")
            if not isinstance(base, ast.Name):
                chk.decide(expr_derives(a0, d), "R03.16", k, m.loc(c), "constructor argument derives from the selection", f"`{norm(a0)}` does not depend on `{sel}`")
                continue
            defs = [st for st in walk_no_nested(fn) if isinstance(st, ast.Assign) and any(isinstance(t, ast.Name) and t.id == base.id for t in st.targets)]
            bad = [st for st in defs if not (expr_derives(st.value, {sel}) or any(isinstance(x, ast.Name) and x.id in d and x.id != base.id for x in ast.walk(st.value)))]
            if not defs:
                chk.unresolved("R03.16", k, m.loc(c), f"no definition of `{base.id}` found")
            elif bad:
                chk.violation("R03.16", k, m.loc(bad[0]), f"`{norm(bad[0])}` gives the result constructor an array that does not depend on `{sel}`: on that path the operation returns columns it was not asked for (with motif_length 3 on a length-8 alignment where every motif passes, 8 columns instead of 6)")
            else:
                chk.ok("R03.16", k, m.loc(c), f"every definition of `{base.id}` derives from `{sel}`")
    chk.floor("R03.16", 2, "filtered and sample")


RAW_GETTERS = {"get_seq_array", "get_seq_str", "get_seq_bytes"}


def _orientation_of(fn, expr, depth=0):
    """'raw' when the data derives from the store's plus-strand getters, 'realised' when it derives from the
    sequences the collection hands out (already reverse complemented where flagged), else None"""
    kinds = set()
    for x in ast.walk(expr):
        if isinstance(x, ast.Call) and isinstance(x.func, ast.Attribute) and x.func.attr in RAW_GETTERS and norm(x.func.value) == "self.seqs":
            kinds.add("raw")
        if isinstance(x, ast.Subscript) and norm(x.value) == "self.seqs":
            kinds.add("realised")
        if isinstance(x, ast.comprehension) and norm(x.iter) == "self.seqs":
            kinds.add("realised")
        if isinstance(x, ast.Call) and isinstance(x.func, ast.Attribute) and x.func.attr in ("get_seq", "iter_seqs") and norm(x.func.value) == "self":
            kinds.add("realised")
    if depth < 6:
        for nm in {x.id for x in ast.walk(expr) if isinstance(x, ast.Name) and isinstance(x.ctx, ast.Load)}:
            for st in walk_no_nested(fn):
                if isinstance(st, ast.Assign) and any(isinstance(t, ast.Name) and t.id == nm for t in st.targets):
                    kinds |= _orientation_of(fn, st.value, depth + 1) or set()
                if isinstance(st, ast.Assign) and any(isinstance(t, ast.Subscript) and norm(t.value) == nm for t in st.targets):
                    kinds |= _orientation_of(fn, st.value, depth + 1) or set()
                if isinstance(st, ast.For) and isinstance(st.target, ast.Name) and st.target.id == nm and norm(st.iter) == "self.seqs":
                    kinds.add("realised")
    return kinds


def r03_17(chk):
    chk.rule("R03.17", "orientation coherence when a new-type collection rebuilds its store: `reversed_seqs=self.seqs.reversed` tells the new SeqsData that its data is plus-strand text still to be reverse complemented on reading -- so it accompanies only data taken from the store's raw getters (self.seqs.get_seq_array/str/bytes); data taken from the sequences the collection hands out (self.seqs[name], iteration over self.seqs) is already in display orientation and is stored WITHOUT the flag; mixing them reverse complements twice (rc().trim_stop_codons() returned the plus strand, trimmed at the wrong end)")
    m = chk.repo.module("core/new_alignment.py")
    n = 0
    for q, fn in m.all_functions():
        if not q.startswith(("SequenceCollection.", "Alignment.")):
            continue
        for c in walk_no_nested(fn):
            if not (isinstance(c, ast.Call) and norm(c.func) in ("self.seqs.__class__", "SeqsData", "self._seqs_data.__class__")):
                continue
            data = next((kw.value for kw in c.keywords if kw.arg == "data"), None)
            if data is None:
                continue
            rev = next((kw.value for kw in c.keywords if kw.arg == "reversed_seqs"), None)
            kinds = _orientation_of(fn, data)
            n += 1
            k = key(m, q, "store rebuilt with coherent orientation")
            if kinds == {"realised"}:
                chk.decide(rev is None, "R03.17", k, m.loc(c), "display-orientation data stored without the reversed flag", f"the data given to `{norm(c.func)}` comes from the sequences the collection hands out (already reverse complemented) yet `reversed_seqs={norm(rev) if rev is not None else ''}` flags it for reverse complementing again: make_unaligned_seqs({{'s1':'TTACATAAA','s2':'CCCCATGGG'}}, new_type=True).rc().trim_stop_codons() gives s1='CATAAA' instead of 'TTTATG'")
            elif kinds == {"raw"}:
                chk.decide(rev is not None, "R03.17", k, m.loc(c), "raw store data keeps its reversed flag", "raw plus-strand data of a possibly reversed collection is stored without `reversed_seqs`: the result forgets that it was reverse complemented")
            else:
                chk.unresolved("R03.17", k, m.loc(c), f"origin of the data not classified ({sorted(kinds) or 'none'})")
    chk.floor("R03.17", 3, "degap, get_translation, trim_stop_codons, pad_seqs")


def _eval_gap_expr(e, env, defs, depth=0):
    """value of a boolean numpy expression over the per-position truth values in env"""
    if isinstance(e, ast.Name):
        if e.id in env:
            return env[e.id]
        if e.id in defs and depth < 5:
            return _eval_gap_expr(defs[e.id], env, defs, depth + 1)
        raise AnalysisError(f"name {e.id} not understood in the gap filter")
    if isinstance(e, ast.Call):
        f = (call_name(e) or "").split(".")[-1]
        a = e.args
        if f == "logical_and":
            return _eval_gap_expr(a[0], env, defs, depth) and _eval_gap_expr(a[1], env, defs, depth)
        if f == "logical_or":
            return _eval_gap_expr(a[0], env, defs, depth) or _eval_gap_expr(a[1], env, defs, depth)
        if f == "logical_xor":
            return _eval_gap_expr(a[0], env, defs, depth) != _eval_gap_expr(a[1], env, defs, depth)
        if f == "logical_not":
            return not _eval_gap_expr(a[0], env, defs, depth)
        if f in ("array", "asarray") and a:
            return _eval_gap_expr(a[0], env, defs, depth)
        if isinstance(e.func, ast.Attribute) and e.func.attr in ("astype", "copy"):
            return _eval_gap_expr(e.func.value, env, defs, depth)
    if isinstance(e, ast.Compare) and len(e.ops) == 1 and isinstance(e.ops[0], (ast.NotEq, ast.Eq)):
        l, r_ = _eval_gap_expr(e.left, env, defs, depth), _eval_gap_expr(e.comparators[0], env, defs, depth)
        return (l != r_) if isinstance(e.ops[0], ast.NotEq) else (l == r_)
    if isinstance(e, ast.BinOp) and isinstance(e.op, (ast.BitAnd, ast.BitOr, ast.BitXor)):
        l, r_ = _eval_gap_expr(e.left, env, defs, depth), _eval_gap_expr(e.right, env, defs, depth)
        return (l and r_) if isinstance(e.op, ast.BitAnd) else (l or r_) if isinstance(e.op, ast.BitOr) else (l != r_)
    if isinstance(e, ast.UnaryOp) and isinstance(e.op, (ast.Invert, ast.Not)):
        return not _eval_gap_expr(e.operand, env, defs, depth)
    raise AnalysisError(f"expression {norm(e)[:50]} not understood in the gap filter")


def r03_18(chk):
    chk.rule("R03.18", "matching_ref's gap filter tests runs per DIRECTION: a run of `gap_run` positions gapped in the row but not in the reference, or gapped in the reference but not in the row. Each array whose run of ones is searched is therefore true for exactly one of the two kinds of mismatch (truth table over (row gapped, reference gapped)), and the two kinds are both covered -- a single test on `row != reference` also counts a short deletion that touches a short insertion as one long run and drops rows the string rule keeps")
    m = chk.repo.module("core/alignment.py")
    outer = m.func("make_gap_filter")
    inner = [f for f in ast.walk(outer) if isinstance(f, ast.FunctionDef) and f is not outer]
    if not inner:
        raise AnalysisError("make_gap_filter: inner predicate not found")
    fn = inner[0]
    defs = {st.targets[0].id: st.value for st in ast.walk(fn) if isinstance(st, ast.Assign) and isinstance(st.targets[0], ast.Name)}
    seqv = next((n_ for n_, v in defs.items() if "gap_vector" in norm(v)), None)
    tmpl = next((st.targets[0].id for st in walk_no_nested(outer) if isinstance(st, ast.Assign) and isinstance(st.targets[0], ast.Name) and "gap_vector" in norm(st.value)), None)
    if not seqv or not tmpl:
        raise AnalysisError("make_gap_filter: gap vectors not found")
    runs = []
    for c in ast.walk(fn):
        if isinstance(c, ast.Compare) and len(c.ops) == 1 and isinstance(c.ops[0], (ast.In, ast.NotIn)) and "gap_run" in norm(c.left):
            x = c.comparators[0]
            # X.astype(uint8).tobytes()
            while isinstance(x, ast.Call) and isinstance(x.func, ast.Attribute) and x.func.attr in ("tobytes", "astype", "tostring"):
                x = x.func.value
            runs.append((c, x))
    if not runs:
        raise AnalysisError("make_gap_filter: run tests not found")
    covered = set()
    bad = None
    for c, x in runs:
        true_rows = set()
        for sg in (False, True):
            for tg in (False, True):
                if _eval_gap_expr(x, {seqv: sg, tmpl: tg}, {k_: v for k_, v in defs.items() if k_ != seqv}):
                    true_rows.add((sg, tg))
        if len(true_rows) != 1 or not true_rows <= {(True, False), (False, True)}:
            bad = (c, x, true_rows)
        covered |= true_rows
    k = key(m, "make_gap_filter", "run tests are directional")
    if bad:
        chk.violation("R03.18", k, m.loc(bad[0]), f"the run test on `{norm(bad[1])[:60]}` is true for (row gapped, reference gapped) in {sorted(bad[2])}: runs of different kinds of mismatch are added up (reference AC--GGTTAC, row ACGT--TTAC, gap_run=3 drops the row although neither run reaches 3)")
    else:
        chk.decide(covered == {(True, False), (False, True)}, "R03.18", k, m.loc(fn), f"{len(runs)} directional run tests covering both kinds", f"only {sorted(covered)} is tested for runs")
    chk.floor("R03.18", 1, "make_gap_filter")


def r03_19(chk):
    chk.rule("R03.19", "only gaps at the ends are termini: in IndelMap.spans a gap record is shown as TerminalPadding ('?') only under a test of WHERE the gap is (its position equals 0 or parent_length) -- not because it is the last record: with termini_unknown the last record of 'AC--GTAA' is an internal gap, and showing it as '?' alters internal characters (Alignment.with_modified_termini() gave AC??GTAA, the array class AC--GTAA)")
    from .c09 import _enclosing_tests, _inline_flags

    m = chk.repo.module("core/location.py")
    q = "IndelMap.spans"
    fn = m.func(q)
    picks = [e for e in walk_no_nested(fn) if isinstance(e, ast.IfExp) and isinstance(e.body, ast.Name) and e.body.id == "TerminalPadding"]
    if not picks:
        raise AnalysisError(f"{q}: TerminalPadding selection not found")
    n = 0
    for which, e in zip(("first", "second", "third", "fourth"), picks):
        n += 1
        stmt = next(st for st in walk_no_nested(fn) if isinstance(st, ast.stmt) and any(x is e for x in ast.walk(st)) and not isinstance(st, (ast.For, ast.If, ast.While, ast.FunctionDef)))
        conds = [norm(_inline_flags(fn, e.test))] + [t for t in _enclosing_tests(fn, stmt) if not t.startswith("not (")]
        positional = any(("parent_length" in c_) or ("== 0" in c_ and "pos" in c_) for c_ in conds)
        chk.decide(positional, "R03.19", key(m, q, f"TerminalPadding chosen by position ({which} selection)"), m.loc(e), f"conditions {conds}", f"TerminalPadding is chosen under {conds}: none of them says where the gap lies, so the last gap record is shown as '?' even when it is internal")
    chk.floor("R03.19", 2, "leading and trailing terminus")


LIST_MUTATORS = {"remove", "insert", "append", "extend", "sort", "reverse", "pop", "clear"}
OWN_LISTS = {"self.names", "self._names", "self.seqs", "self._seqs"}


def r03_20(chk):
    chk.rule("R03.20", "a method that only reads an alignment does not reorder it: no method of the alignment / collection classes mutates IN PLACE a local name that is bound directly to one of the object's own lists (`x = self.names`, no copy) -- to_html moving the reference row to the front of such an alias reorders the names of an Alignment, and of an ArrayAlignment without moving the array rows, so rows end up under the wrong names")
    n = 0
    for rel in ("core/alignment.py", "core/new_alignment.py"):
        m = chk.repo.module(rel)
        for q, fn in m.all_functions():
            if "." not in q:
                continue
            aliases = {}
            for st in walk_no_nested(fn):
                if isinstance(st, ast.Assign) and len(st.targets) == 1 and isinstance(st.targets[0], ast.Name):
                    if norm(st.value) in OWN_LISTS:
                        aliases.setdefault(st.targets[0].id, []).append(st)
                    elif st.targets[0].id in aliases and st.lineno > aliases[st.targets[0].id][0].lineno:
                        pass
            if not aliases:
                continue
            for name, defs in aliases.items():
                all_defs = [st for st in walk_no_nested(fn) if isinstance(st, ast.Assign) and any(isinstance(t, ast.Name) and t.id == name for t in st.targets)]
                for x in walk_no_nested(fn):
                    hit = None
                    if isinstance(x, ast.Call) and isinstance(x.func, ast.Attribute) and x.func.attr in LIST_MUTATORS and isinstance(x.func.value, ast.Name) and x.func.value.id == name:
                        hit = x
                    if isinstance(x, (ast.Assign, ast.AugAssign, ast.Delete)):
                        tg = x.targets if isinstance(x, (ast.Assign, ast.Delete)) else [x.target]
                        if any(isinstance(t, ast.Subscript) and isinstance(t.value, ast.Name) and t.value.id == name for t in tg):
                            hit = x
                    if hit is None:
                        continue
                    # which definition reaches the mutation? the latest one above it in source order (branches are
                    # treated conservatively: an alias definition in any branch counts unless a copy follows it)
                    above = [d for d in all_defs if d.lineno < hit.lineno]
                    alias_reaches = any(norm(d.value) in OWN_LISTS for d in above) and not (above and norm(above[-1].value) not in OWN_LISTS and not isinstance(above[-1].value, ast.Name) and above[-1].col_offset <= min(dd.col_offset for dd in above))
                    n += 1
                    chk.decide(not alias_reaches, "R03.20", key(m, q, f"in-place edit of `{name}`"), m.loc(hit), "the edited list is a copy", f"`{norm(hit)[:60]}` edits `{name}`, which is bound directly to `{norm(defs[0].value)}` (no copy): the method reorders the object it only reads -- aln.to_html() moves the longest row's NAME to the front; for an ArrayAlignment the array rows stay, so every row is then shown under another name")
    if n == 0:
        chk.ok("R03.20", key("core/alignment.py", "<classes>", "no in-place edit of an aliased own list"), "src/cogent3/core/alignment.py:1", "no alias of an own list is edited in place", nontrivial=False)
    # probe
    probe = ast.parse("class A:\n    def m(self):\n        order = self.names\n        order.remove('x')\n").body[0].body[0]
    al = [st for st in ast.walk(probe) if isinstance(st, ast.Assign) and norm(st.value) in OWN_LISTS]
    mu = [x for x in ast.walk(probe) if isinstance(x, ast.Call) and isinstance(x.func, ast.Attribute) and x.func.attr in LIST_MUTATORS]
    if not (al and mu):
        raise AnalysisError("R03.20 self-probe failed")


def r03_21(chk):
    chk.rule("R03.21", "sampling motifs keeps each motif's columns together and in order: in ArrayAlignment.sample the motif starts are repeated motif_length times each (`.repeat(motif_length)`: s0 s0 s0 s1 s1 s1), so the within-motif offsets added to them cycle 0..k-1 per motif (the reshaped view `+= arange(k)`, or `tile(arange(k), n)`) -- offsets that are themselves `.repeat(...)`-ed (0 0 1 1 2 2) pair starts and offsets wrongly: columns are duplicated and dropped and the sampled 'codons' are not codons of the alignment")
    m = chk.repo.module("core/alignment.py")
    q = "ArrayAlignment.sample"
    fn = m.func(q)
    reps = [c for c in walk_no_nested(fn) if isinstance(c, ast.Call) and isinstance(c.func, ast.Attribute) and c.func.attr == "repeat" and "motif_length" in norm(c)]
    if not reps:
        chk.ok("R03.21", key(m, q, "motif offsets cycle per motif"), m.loc(fn), "no repeat-based expansion of motif starts", nontrivial=False)
    else:
        bad = [c for c in reps if isinstance(c.func.value, ast.Call) and (call_name(c.func.value) or "").split(".")[-1] == "arange"]
        chk.decide(not bad, "R03.21", key(m, q, "motif offsets cycle per motif"), m.loc(bad[0] if bad else reps[0]), "the starts are repeated, the offsets are not", f"`{norm(bad[0]) if bad else ''}` repeats the OFFSETS as well: starts s0 s0 s0 s1 s1 s1 plus offsets 0 0 1 1 2 2 selects columns s0, s0, s0+1, s1+1, s1+2, s1+2 instead of s0, s0+1, s0+2, s1, s1+1, s1+2")
    chk.floor("R03.21", 1, "sample")


def _indel_space(e):
    """coordinate space of an integer expression inside IndelMap: 'seq' (positions on the ungapped sequence:
    gap_pos, parent_length), 'gap' (lengths of gaps: cum_gap_lengths, get_gap_lengths), 'aln' (seq + gap, len(self)),
    None when not understood"""
    t = norm(e)
    if isinstance(e, ast.Constant):
        return "const"
    if isinstance(e, ast.BinOp) and isinstance(e.op, (ast.Add, ast.Sub)):
        a, b = _indel_space(e.left), _indel_space(e.right)
        if "const" in (a, b):
            return b if a == "const" else a
        if {a, b} == {"seq", "gap"} and isinstance(e.op, ast.Add):
            return "aln"
        if a == "aln" and b == "gap" and isinstance(e.op, ast.Sub):
            return "seq"
        if a == b:
            return a if isinstance(e.op, ast.Add) else ("gap" if a in ("seq", "aln") else a)
        return None
    if isinstance(e, ast.Subscript):
        return _indel_space(e.value)
    if isinstance(e, ast.Call) and norm(e.func) in ("int", "numpy.int64"):
        return _indel_space(e.args[0]) if e.args else None
    if t in ("self.gap_pos", "self.parent_length"):
        return "seq"
    if t in ("self.cum_gap_lengths",):
        return "gap"
    if t in ("len(self)",):
        return "aln"
    return None


def r03_22(chk):
    chk.rule("R03.22", "IndelMap keeps three kinds of integers apart: positions on the ungapped sequence (gap_pos, parent_length), gap lengths (cum_gap_lengths) and alignment columns (position + cumulative gap length, len(self)). No comparison in an IndelMap method puts a column against a sequence position: `gap_pos[-1] + cum_gap_lengths[-1] < parent_length` asked whether the last gap's COLUMN lies before the sequence LENGTH, so get_coordinates() dropped the last ungapped segment whenever the gaps before it were long enough (AC-GTA--CG: (5, 7) missing)")
    m = chk.repo.module("core/location.py")
    ci = m.cls("IndelMap")
    n = 0
    for name, fn in ci.methods.items():
        if not isinstance(fn, ast.FunctionDef):
            continue
        k_ = 0
        for c in walk_no_nested(fn):
            if not (isinstance(c, ast.Compare) and len(c.ops) == 1 and isinstance(c.ops[0], (ast.Lt, ast.LtE, ast.Gt, ast.GtE, ast.Eq, ast.NotEq))):
                continue
            a, b = _indel_space(c.left), _indel_space(c.comparators[0])
            if a is None or b is None or "const" in (a, b):
                continue
            n += 1
            k_ += 1
            chk.decide(a == b, "R03.22", key(m, f"IndelMap.{name}", f"typed comparison {k_}"), m.loc(c), f"both sides are {a} coordinates", f"`{norm(c)}` compares a {a} coordinate with a {b} coordinate: for 'AC-GTA--CG' (gap_pos [2, 5], cumulative lengths [1, 3], parent_length 7) the last ungapped segment (5, 7) is left out of get_coordinates()")
    chk.floor("R03.22", 2, "typed comparisons in IndelMap")


def r03_23(chk):
    chk.rule("R03.23", "GapsOk measures gaps the same way for both alignment classes: in its methods an `if self.is_array` switch only NORMALISES the data (at most one name flows out of it, bound on both branches by the same constructor, e.g. Counter(...)); the count of gap characters and the denominator len(data) * motif_length are computed once, after / outside the switch -- a formula inside one branch makes omit_gap_pos(motif_length=3) keep different columns in Alignment and ArrayAlignment")
    m = chk.repo.module(ALN)
    ci = m.cls("GapsOk")
    n = 0
    for name, fn in ci.methods.items():
        if not isinstance(fn, ast.FunctionDef):
            continue
        for i in walk_no_nested(fn):
            if not (isinstance(i, ast.If) and "is_array" in norm(i.test)):
                continue
            n += 1
            k = key(m, f"GapsOk.{name}", "is_array switch only normalises the data")

            def bound(body):
                out = {}
                for st in body:
                    for x in ast.walk(st):
                        if isinstance(x, ast.Assign):
                            for tg in x.targets:
                                if isinstance(tg, ast.Name):
                                    out.setdefault(tg.id, []).append(x.value)
                        elif isinstance(x, ast.AugAssign) and isinstance(x.target, ast.Name):
                            out.setdefault(x.target.id, []).append(x.value)
                return out

            a, b = bound(i.body), bound(i.orelse)
            # names read after the switch
            after = False
            read_after = set()
            for st in walk_no_nested(fn):
                if st is i:
                    after = True
                    continue
                if after and isinstance(st, ast.Name) and isinstance(st.ctx, ast.Load) and not any(st is y for y in ast.walk(i)):
                    read_after.add(st.id)
            out_names = sorted((set(a) | set(b)) & read_after)
            problems = []
            if len(out_names) > 1:
                problems.append(f"{out_names} are all computed per representation")
            for nm in out_names:
                va, vb = a.get(nm), b.get(nm)
                if not va or not vb:
                    problems.append(f"`{nm}` is bound on one branch only")
                    continue
                ca, cb = va[-1], vb[-1]
                same_ctor = isinstance(ca, ast.Call) and isinstance(cb, ast.Call) and norm(ca.func) == norm(cb.func) and norm(ca.func) not in ("sum", "len", "max", "min")
                if not (same_ctor or ast.dump(ca) == ast.dump(cb)):
                    problems.append(f"`{nm}` = `{norm(ca)}` for arrays but `{norm(cb)}` otherwise")
            chk.decide(not problems, "R03.23", k, m.loc(i), f"only {out_names} flows out of the switch, built by the same constructor on both branches", "; ".join(problems) + ": the gap fraction of a column depends on which alignment class asks")
    chk.floor("R03.23", 1, "GapsOk._get_gap_frac")


def run(chk):
    r03_23(chk)
    r03_22(chk)
    r03_21(chk)
    r03_20(chk)
    r03_19(chk)
    r03_18(chk)
    r03_17(chk)
    r03_16(chk)
    # a row of an annotatable alignment is a sequence view: the raw-view discipline of C01 (R01.1) is what keeps
    # 'no character is altered other than by complementing or the T/U exchange' true for rc() followed by a conversion
    from . import c01

    c01.r01_1_2(chk)
    r03_15(chk)
    r03_14(chk)
    r03_13(chk)
    r03_12(chk)
    r03_11(chk)
    r03_10(chk)
    r03_9(chk)
    r03_7(chk)
    r03_8(chk)
    r03_1(chk)
    r03_2(chk)
    r03_3(chk)
    r03_4(chk)
    r03_5(chk)
    r03_6(chk)
    chk.assume("numpy basic slicing, reshape, .T alias their base array; take/fancy indexing/arithmetic/copy are fresh")
    chk.assume("history-state table: SeqsData.reversed_seqs, IndelMap.termini_unknown (curated: other optional constructor parameters are construction options, not state)")
