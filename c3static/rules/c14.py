"""C14 -- composed apps account for every input exactly once, on any schedule.

Scheduling is decided structurally: the association result<->source must not
depend on completion order at all.
R14.1 the association rides inside the value (proxy returned, identifier derived
      from the completed value, no positional pairing)
R14.2 one submission per input, one yield per future
R14.3 the input pipeline preserves cardinality
R14.4 failures become records (try/except around main, NotCompleted short-circuits,
      None converted on entry and exit)
R14.5 writers route by kind with the same identifier

Added later in build rounds 2-3 (see DESIGN.md section 3, round-2/3 table):
R14.6 a function-app is stateless across records: the constructor arguments it stored (self._args, self._kwargs) reach the user's function only as deep ...
R14.7 apply_to never raises because one record fails: the call of the writer's main inside the loop over completed results sits in a try whose handler ...
R14.8 a re-run records a repeated failure instead of raising: the writers' overwrite check (`unique_id in self` in append mode) answers for the one ...
R14.9 a NotCompleted built under a handler that can see an OSError does not take its message from err.args[0].
R14.10 write_db tests the result of its serialiser app for NotCompleted.
"""

from __future__ import annotations

import ast

from ..cfg import build, own_exprs
from ..defuse import derived_names, expr_derives
from ..index import AnalysisError, call_name, norm, params_of, walk_no_nested
from ..report import key

CP = "app/composable.py"
PAR = "util/parallel.py"


def _calls(fn, pred):
    return [c for c in walk_no_nested(fn) if isinstance(c, ast.Call) and pred(c)]


def r14_1(chk):
    chk.rule("R14.1", "result<->source association is carried by the value: _source_wrapped returns the proxy it was given after set_obj(self(value.obj)); apply_to derives the writer's identifier and data from the completed value; no zip/enumerate pairing of results with inputs")
    m = chk.repo.module(CP)
    fn = m.func("_source_wrapped")
    p = [a for a in params_of(fn) if a != "self"][0]
    sets = _calls(fn, lambda c: norm(c.func) == f"{p}.set_obj")
    good_set = bool(sets) and any(isinstance(x, ast.Call) and norm(x.func) == "self" and x.args and norm(x.args[0]) == f"{p}.obj" for x in ast.walk(sets[0]))
    chk.decide(good_set, "R14.1", key(m, "_source_wrapped", "set_obj(self(value.obj))"), m.loc(fn), "the proxy receives the result of the app on its own payload", "the proxy is no longer updated with self(value.obj)")
    # returns: every return is `self(value)` under `not isinstance(value, source_proxy)` or the parameter itself
    rets = [r for r in walk_no_nested(fn) if isinstance(r, ast.Return)]
    ok_rets = all(norm(r.value) in (p, f"self({p})") for r in rets if r.value is not None)
    proxy_ret = any(r.value is not None and norm(r.value) == p for r in rets)
    chk.decide(ok_rets and proxy_ret, "R14.1", key(m, "_source_wrapped", "returns the same proxy"), m.loc(fn), "returns the proxy object it received", f"returns {[norm(r.value) for r in rets if r.value is not None]}: the source travels separately from the result, so completion order decides which identifier a result is written under")
    # apply_to: identifier/data from the value delivered by as_completed
    ap = m.func("_apply_to")
    from ..defuse import derived_names

    ac_calls = [c for c in walk_no_nested(ap) if isinstance(c, ast.Call) and isinstance(c.func, ast.Attribute) and c.func.attr == "as_completed"]
    if not ac_calls:
        raise AnalysisError("_apply_to: self.as_completed(...) not found")
    # names holding the completed-results iterable
    res_names = set()
    for st in walk_no_nested(ap):
        if isinstance(st, ast.Assign) and any(st.value is c or any(c is x for x in ast.walk(st.value)) for c in ac_calls):
            for t in st.targets:
                if isinstance(t, ast.Name):
                    res_names.add(t.id)
    loops = [l for l in walk_no_nested(ap) if isinstance(l, ast.For) and (any(c is x for c in ac_calls for x in ast.walk(l.iter)) or any(isinstance(x, ast.Name) and x.id in res_names for x in ast.walk(l.iter)))]
    mains = [c for c in walk_no_nested(ap) if isinstance(c, ast.Call) and norm(c.func) == "self.main"]
    if not loops or not mains:
        raise AnalysisError("_apply_to: completion loop / self.main(...) call not found")
    loop = loops[0]
    # the loop variable(s) that come from the results: a plain name, or the element paired with results in a zip
    direct = loop.iter in ac_calls or (isinstance(loop.iter, ast.Name) and loop.iter.id in res_names)
    if direct and isinstance(loop.target, ast.Name):
        var = loop.target.id
    else:
        var = None
        if isinstance(loop.iter, ast.Call) and call_name(loop.iter) in ("zip", "enumerate") and isinstance(loop.target, ast.Tuple):
            offset = 1 if call_name(loop.iter) == "enumerate" else 0
            for i, a in enumerate(loop.iter.args):
                if a in ac_calls or (isinstance(a, ast.Name) and a.id in res_names):
                    el = loop.target.elts[i + offset] if call_name(loop.iter) == "zip" else loop.target.elts[1]
                    if isinstance(el, ast.Name):
                        var = el.id
            chk.violation("R14.1", key(m, "_apply_to", f"results paired by position: {norm(loop.iter)[:80]}"), m.loc(loop), f"`for {norm(loop.target)} in {norm(loop.iter)[:80]}` pairs the completed results with something else by position: with parallel execution results arrive in completion order, so they are matched with the wrong partner")
    kws = {kw.arg: kw.value for kw in mains[0].keywords}
    d = derived_names(ap, {var}) if var else set()
    d = {x for x in d if x == var} | {var} if var else set()
    id_ok = var is not None and "identifier" in kws and any(isinstance(x, ast.Attribute) and x.attr == "source" and norm(x.value) == var for x in ast.walk(kws["identifier"]))
    data_ok = var is not None and "data" in kws and any(isinstance(x, ast.Name) and x.id == var for x in ast.walk(kws["data"]))
    chk.decide(id_ok, "R14.1", key(m, "_apply_to", "identifier from result.source"), m.loc(mains[0]), f"identifier = {norm(kws.get('identifier')) if 'identifier' in kws else None}", f"the writer's identifier (`{norm(kws['identifier']) if 'identifier' in kws else None}`) is not derived from the completed value's own source: under out-of-order completion a result is written under another input's identifier")
    chk.decide(data_ok, "R14.1", key(m, "_apply_to", "data from result"), m.loc(mains[0]), f"data = {norm(kws.get('data')) if 'data' in kws else None}", "the written data is not derived from the completed value")
    # expected-zero: positional pairing
    n_pair = 0
    for rel, q in ((CP, "_apply_to"), (CP, "_as_completed"), (CP, "_source_wrapped"), (PAR, "_as_completed_mproc"), (PAR, "_as_completed_mpi"), (PAR, "as_completed")):
        mod = chk.repo.module(rel)
        f = mod.func(q)
        pairs = _calls(f, lambda c: call_name(c) in ("zip", "enumerate"))
        for c in pairs:
            n_pair += 1
            chk.violation("R14.1", key(mod, q, f"pairing {norm(c)}"), mod.loc(c), f"`{norm(c)}` pairs results with inputs by position: wrong under out-of-order completion")
        if not pairs:
            chk.ok("R14.1", key(mod, q, "no positional pairing"), mod.loc(f), "no zip/enumerate over results")
    probe = ast.parse("def f(a, b):\n    for x, y in zip(a, b): pass\n").body[0]
    if not _calls(probe, lambda c: call_name(c) in ("zip", "enumerate")):
        raise AnalysisError("R14.1 self-probe failed")
    chk.floor("R14.1", 9, "4 association obligations + 6 functions scanned for pairing")


def r14_2(chk):
    chk.rule("R14.2", "as_completed back-ends submit exactly one task per element of the input (unfiltered comprehension) and yield exactly one result per future (unconditional yield in the loop over as_completed(to_do))")
    m = chk.repo.module(PAR)
    for q in ("_as_completed_mproc", "_as_completed_mpi"):
        fn = m.func(q)
        ps = params_of(fn)
        comps = [c for c in walk_no_nested(fn) if isinstance(c, (ast.ListComp, ast.GeneratorExp)) and isinstance(c.elt, ast.Call) and isinstance(c.elt.func, ast.Attribute) and c.elt.func.attr == "submit"]
        k = key(m, q, "one submit per input")
        if not comps:
            chk.violation("R14.2", k, m.loc(fn), "no `[executor.submit(f, e) for e in s]` comprehension")
            continue
        comp = comps[0]
        g0 = comp.generators[0]
        tgt = norm(g0.target)
        args = [norm(a) for a in comp.elt.args]
        good = len(comp.generators) == 1 and not g0.ifs and norm(g0.iter) == ps[1] and args[:1] == [ps[0]] or False
        good = good and args[1:] == [tgt]
        chk.decide(good, "R14.2", k, m.loc(comp), f"[submit({', '.join(args)}) for {tgt} in {norm(g0.iter)}]", f"submission comprehension `{norm(comp)}` filters, re-orders or does not submit each element of `{ps[1]}` to `{ps[0]}`")
        # bound name of the list
        holder = None
        for st in walk_no_nested(fn):
            if isinstance(st, ast.Assign) and st.value is comp and isinstance(st.targets[0], ast.Name):
                holder = st.targets[0].id
        loops = [l for l in walk_no_nested(fn) if isinstance(l, ast.For) and isinstance(l.iter, ast.Call) and (call_name(l.iter) or "").endswith("as_completed") and l.iter.args and norm(l.iter.args[0]) == holder]
        k2 = key(m, q, "one yield per future")
        if not loops:
            chk.violation("R14.2", k2, m.loc(fn), f"no loop over as_completed({holder})")
            continue
        lp = loops[0]
        v = norm(lp.target)
        top_yields = [st for st in lp.body if isinstance(st, ast.Expr) and isinstance(st.value, ast.Yield) and st.value.value is not None and norm(st.value.value) == f"{v}.result()"]
        others = [n for st in lp.body for n in ast.walk(st) if isinstance(n, (ast.Continue, ast.Break, ast.If))]
        chk.decide(len(top_yields) == 1 and not others, "R14.2", k2, m.loc(lp), f"for {v} in as_completed({holder}): yield {v}.result()", "the completion loop yields conditionally, more than once, or not the future's own result")
    chk.floor("R14.2", 4, "2 back-ends x 2 obligations")


def r14_3(chk):
    chk.rule("R14.3", "from the data store to the scheduler elements are only mapped 1:1: _proxy_input appends every element it is given; _as_completed schedules exactly the proxied list on both the serial and the parallel branch")
    m = chk.repo.module(CP)
    fn = m.func("_proxy_input")
    g = build(fn)
    loops = [n for n in g.nodes if n.kind == "loop"]
    if not loops:
        raise AnalysisError("_proxy_input: loop not found")
    lp = loops[0]
    appends = g.nodes_containing(lambda x: isinstance(x, ast.Call) and isinstance(x.func, ast.Attribute) and x.func.attr == "append")
    body_first = [b for b, k in lp.succ if k == "n" and b.ast in lp.ast.body]
    seen = g.reachable(body_first, blocked=appends, kinds=("n",))
    drops = id(lp) in seen
    k = key(m, "_proxy_input", "every element kept")
    if drops:
        # one instance per skipping construct: every reachable `continue` (keyed by the test guarding it), plus fall-through
        conts = [n for n in g.nodes if n.kind == "continue" and id(n) in seen]
        ev = norm(lp.ast.target)
        for cn in conts:
            path = g._path(seen, cn)
            tests = [n for n in path if n.kind == "if"]
            what = f"if {norm(tests[-1].ast.test)}" if tests else "continue"
            if tests and _no_input_test(tests[-1].ast.test, ev):
                # None / empty text is no input at all (nothing to process, nothing to name a record after)
                chk.ok("R14.3", key(m, "_proxy_input", "only None / empty text is skipped"), m.loc(cn.ast), f"`{what}` admits only None or an empty str/bytes")
                continue
            chk.violation("R14.3", key(m, "_proxy_input", f"element dropped by `{what}`"), m.loc(cn.ast), f"an element of the input can reach the next iteration without being appended (`{what}: continue`): that input ends up as neither a completed nor a not-completed record")
        seen2 = g.reachable(body_first, blocked=appends + conts, kinds=("n",))
        if id(lp) in seen2:
            chk.violation("R14.3", key(m, "_proxy_input", "element dropped by fall-through"), m.loc(lp.ast), "the loop body can complete without appending the element")
    else:
        chk.ok("R14.3", k, m.loc(lp.ast), "every path through the loop body appends the element")
    ac = m.func("_as_completed")
    mapped = None
    for st in walk_no_nested(ac):
        if isinstance(st, ast.Assign) and isinstance(st.value, ast.Call) and call_name(st.value) == "_proxy_input" and isinstance(st.targets[0], ast.Name):
            mapped = st.targets[0].id
    if mapped is None:
        raise AnalysisError("_as_completed: `mapped = _proxy_input(dstore)` not found")
    sched = _calls(ac, lambda c: call_name(c) in ("map", "PAR.as_completed", "PAR.imap", "PAR.map"))
    good = len(sched) >= 2 and all(len(c.args) >= 2 and norm(c.args[1]) == mapped for c in sched)
    chk.decide(good, "R14.3", key(m, "_as_completed", "schedules the proxied list"), m.loc(ac), f"serial and parallel branches both take `{mapped}`", f"a scheduling call does not take `{mapped}` as its series: {[norm(c) for c in sched]}")
    chk.floor("R14.3", 2, "_proxy_input and _as_completed")


def _no_input_test(test, ev):
    """True when `test` can only hold for ev None or ev an empty str/bytes"""
    if isinstance(test, ast.BoolOp) and isinstance(test.op, ast.Or):
        return all(_no_input_test(v, ev) for v in test.values)
    if isinstance(test, ast.Compare) and norm(test.left) == ev and len(test.ops) == 1 and isinstance(test.ops[0], ast.Is) and isinstance(test.comparators[0], ast.Constant) and test.comparators[0].value is None:
        return True
    if isinstance(test, ast.BoolOp) and isinstance(test.op, ast.And) and len(test.values) == 2:
        a, b = test.values
        is_text = isinstance(a, ast.Call) and norm(a.func) == "isinstance" and len(a.args) == 2 and norm(a.args[0]) == ev and {x.id for x in ast.walk(a.args[1]) if isinstance(x, ast.Name)} <= {"str", "bytes"}
        empty = norm(b) in (f"not {ev}", f"len({ev}) == 0", f"{ev} == ''", f"not len({ev})")
        return is_text and empty
    return False


def _isinstance_nc(test):
    return any(isinstance(c, ast.Call) and call_name(c) == "isinstance" and len(c.args) == 2 and "NotCompleted" in norm(c.args[1]) for c in ast.walk(test))


def r14_4(chk):
    chk.rule("R14.4", "_call: main runs inside a try whose handler catches at least Exception and binds a NotCompleted; a NotCompleted short-circuit dominates self.input() and stands between self.input() and self.main(); None is converted to NotCompleted on entry and on exit")
    m = chk.repo.module(CP)
    fn = m.func("_call")
    g = build(fn)
    mains = g.nodes_containing(lambda x: isinstance(x, ast.Call) and norm(x.func) == "self.main")
    inputs = g.nodes_containing(lambda x: isinstance(x, ast.Call) and norm(x.func) == "self.input")
    if not mains or not inputs:
        raise AnalysisError("_call: self.main / self.input call not found")
    mn = mains[0]
    # (i) try/except Exception -> NotCompleted
    tries = [t for t in walk_no_nested(fn) if isinstance(t, ast.Try) and any(mn.ast is s or any(mn.ast is x for x in ast.walk(s)) for s in t.body)]
    ok = False
    detail = "self.main(...) is not inside a try block"
    if tries:
        t = tries[-1]
        detail = "no handler catches Exception"
        for h in t.handlers:
            names = [] if h.type is None else [norm(x) for x in (h.type.elts if isinstance(h.type, ast.Tuple) else [h.type])]
            if h.type is None or any(nm in ("Exception", "BaseException") for nm in names):
                binds = any(isinstance(c, ast.Call) and call_name(c) == "NotCompleted" for c in ast.walk(h))
                reraises = any(isinstance(r, ast.Raise) for r in ast.walk(h))
                ok = binds and not reraises
                detail = "handler does not produce a NotCompleted" if not binds else "handler re-raises" if reraises else ""
    chk.decide(ok, "R14.4", key(m, "_call", "exceptions become NotCompleted"), m.loc(mn.ast), "try: self.main(...) except Exception: NotCompleted(...)", detail + ": an exception in one record aborts the whole run")
    # (ii) short circuits
    shorts = [n for n in g.nodes if n.kind == "if" and _isinstance_nc(n.ast.test) and any(isinstance(s, ast.Return) for s in n.ast.body)]
    d1, p1 = g.dominated_by(inputs[0], shorts)
    chk.decide(bool(shorts) and d1, "R14.4", key(m, "_call", "NotCompleted skips self.input"), m.loc(inputs[0].ast), "isinstance(val, NotCompleted) -> return val dominates self.input(...)", "a NotCompleted value can be passed into the upstream app")
    between = g.reachable([b for b, k in inputs[0].succ if k == "n"], blocked=shorts, kinds=("n",))
    chk.decide(id(mn) not in between, "R14.4", key(m, "_call", "NotCompleted from input skips main"), m.loc(mn.ast), "a NotCompleted test stands on every path from self.input(...) to self.main(...)", "the result of the upstream app reaches self.main(...) without a NotCompleted test: a not-completed value is processed instead of passing through unchanged")
    # (iii) None conversions
    none_in = [n for n in g.nodes if n.kind == "if" and norm(n.ast.test) in ("val is None",) and any(isinstance(c, ast.Call) and call_name(c) == "NotCompleted" for c in ast.walk(n.ast))]
    d3 = bool(none_in) and all(g.dominated_by(x, none_in)[0] for x in inputs + mains)
    chk.decide(d3, "R14.4", key(m, "_call", "None input converted"), m.loc(fn), "`val is None` -> NotCompleted before anything else", "a None input is no longer converted to a NotCompleted record")
    none_out = [n for n in g.nodes if n.kind == "if" and norm(n.ast.test) in ("result is None",) and any(isinstance(c, ast.Call) and call_name(c) == "NotCompleted" for c in ast.walk(n.ast))]
    ok4 = False
    if none_out:
        okk, _ = g.always_followed_by(mn, none_out, exceptional=False, from_kinds=("n", "x"))
        ok4 = okk
    chk.decide(ok4, "R14.4", key(m, "_call", "None output converted"), m.loc(mn.ast), "`result is None` -> NotCompleted on every path from main to return", "a None result can be returned as is")
    chk.floor("R14.4", 5, "five obligations in _call")


def r14_5(chk):
    chk.rule("R14.5", "every writer app (define_app(app_type=WRITER)) routes NotCompleted data to write_not_completed and everything else to write, both under the same identifier variable")
    m = chk.repo.module("app/io.py")
    writers = []
    for ci in m.classes.values():
        for d in ci.decorators:
            if isinstance(d, ast.Call) and call_name(d) == "define_app" and any(kw.arg == "app_type" and norm(kw.value) == "WRITER" for kw in d.keywords):
                writers.append(ci)
    for ci in writers:
        fn = ci.methods.get("main")
        q = f"{ci.name}.main"
        if fn is None:
            raise AnalysisError(f"{q} not found")
        g = build(fn)
        writes = g.nodes_containing(lambda x: isinstance(x, ast.Call) and norm(x.func) == "self.data_store.write")
        ncs = [n for n in g.nodes if n.kind == "if" and _isinstance_nc(n.ast.test) and "data" in norm(n.ast.test)]
        k = key(m, q, "routes by kind")
        if not writes:
            chk.violation("R14.5", k, m.loc(fn), "no self.data_store.write(...) call")
            continue
        if not ncs:
            chk.violation("R14.5", k, m.loc(fn), "the routing test is not `isinstance(data, NotCompleted)`: either not-completed results are written as completed records, or (with a truthiness test) empty but successful results are filed as not-completed")
            continue
        nc = ncs[0]
        body_calls = [c for st in nc.ast.body for c in ast.walk(st) if isinstance(c, ast.Call) and norm(c.func) == "self.data_store.write_not_completed"]
        exits = bool(nc.ast.body) and isinstance(nc.ast.body[-1], ast.Return)
        dom = all(g.dominated_by(w, [nc])[0] for w in writes)
        idw = [kw.value for c in ast.walk(writes[0].ast) if isinstance(c, ast.Call) and norm(c.func) == "self.data_store.write" for kw in c.keywords if kw.arg == "unique_id"]
        idn = [kw.value for c in body_calls for kw in c.keywords if kw.arg == "unique_id"]
        same = bool(idw and idn) and {n.id for n in ast.walk(idw[0]) if isinstance(n, ast.Name)} == {n.id for n in ast.walk(idn[0]) if isinstance(n, ast.Name)}
        chk.decide(bool(body_calls) and exits and dom and same, "R14.5", k, m.loc(nc.ast), "NotCompleted -> write_not_completed(identifier) and return; else write(identifier)", "the NotCompleted branch does not return through write_not_completed with the same identifier, or does not dominate write()")
    chk.floor("R14.5", 4, "4 writer apps")


def r14_6(chk):
    chk.rule("R14.6", "a function-app is stateless across records: the constructor arguments it stored (self._args, self._kwargs) reach the user's function only as deep copies made per call -- handed over by reference (or by a shallow {**...} / tuple copy), a mutable argument the function changes carries state from one record to the next, so a record's outcome depends on what was processed before it and on whether the run was parallel")
    m = chk.repo.module("app/composable.py")
    outer = m.func("_class_from_func")
    mains = [f for f in outer.body if isinstance(f, ast.FunctionDef) and any(isinstance(c, ast.Call) and norm(c.func) == "self._user_func" for c in ast.walk(f))]
    inits = [f for f in outer.body if isinstance(f, ast.FunctionDef) and any(isinstance(t, ast.Attribute) and norm(t.value) == "self" for st in ast.walk(f) if isinstance(st, ast.Assign) for t in st.targets)]
    if not mains or not inits:
        raise AnalysisError("_class_from_func: the generated __init__/main functions were not found")
    stored = sorted({t.attr for f in inits for st in ast.walk(f) if isinstance(st, ast.Assign) for t in st.targets if isinstance(t, ast.Attribute) and norm(t.value) == "self"})
    fn = mains[0]
    n = 0
    for a in stored:
        uses = [x for x in ast.walk(fn) if isinstance(x, ast.Attribute) and norm(x) == f"self.{a}" and isinstance(x.ctx, ast.Load)]
        for u in uses:
            n += 1
            wrapped = any(isinstance(c, ast.Call) and (call_name(c) or "").split(".")[-1] == "deepcopy" and c.args and c.args[0] is u for c in ast.walk(fn))
            chk.decide(wrapped, "R14.6", key(m, f"_class_from_func.{fn.name}", f"self.{a} handed on as a deep copy"), m.loc(u), f"deepcopy(self.{a})", f"`self.{a}` is used without deepcopy(...) on the way to the user's function: a mutable constructor argument that the function modifies leaks from record to record (serial and parallel runs then disagree)")
    chk.floor("R14.6", 2, "the stored positional and keyword constructor arguments")


def r14_7(chk):
    chk.rule("R14.7", "apply_to never raises because one record fails: the call of the writer's main inside the loop over completed results sits in a try whose handler catches Exception and turns the failure into a not-completed record (the writer is called as self.main(...), so _call's own try/except, R14.4, does not cover it)")
    m = chk.repo.module(CP)
    fn = m.func("_apply_to")
    from ..defuse import assignments as _assignments

    streams = {t.id for tg, v, _ in _assignments(fn) if any(isinstance(c, ast.Call) and norm(c.func) == "self.as_completed" for c in ast.walk(v)) for t in tg if isinstance(t, ast.Name)}
    loops = [f for f in walk_no_nested(fn) if isinstance(f, ast.For) and (any(isinstance(c, ast.Call) and norm(c.func) == "self.as_completed" for c in ast.walk(f.iter)) or any(isinstance(x, ast.Name) and x.id in streams for x in ast.walk(f.iter)))]
    if not loops:
        raise AnalysisError("_apply_to: loop over self.as_completed(...) not found")
    calls = [c for st in loops[0].body for c in ast.walk(st) if isinstance(c, ast.Call) and norm(c.func) in ("self.main", "self")]
    if not calls:
        raise AnalysisError("_apply_to: the writer call inside the result loop was not found")
    for c in calls:
        direct = norm(c.func) == "self.main"
        tries = [t for t in ast.walk(loops[0]) if isinstance(t, ast.Try) and any(x is c for s in t.body for x in ast.walk(s))]
        guarded = False
        for t in tries:
            for h in t.handlers:
                names = [] if h.type is None else [norm(x) for x in (h.type.elts if isinstance(h.type, ast.Tuple) else [h.type])]
                if (h.type is None or any(nm in ("Exception", "BaseException") for nm in names)) and any(isinstance(x, ast.Call) and (call_name(x) == "NotCompleted" or (call_name(x) or "").endswith("write_not_completed")) for x in ast.walk(h)) and not any(isinstance(r, ast.Raise) for r in ast.walk(h)):
                    guarded = True
        chk.decide(guarded or not direct, "R14.7", key(m, "_apply_to", "writer failure becomes a record"), m.loc(c), "the writer runs through self(...) (guarded by _call) or inside try/except Exception -> NotCompleted", "`self.main(...)` of the writer runs unguarded inside the result loop: a record the writer cannot format (an unserialisable value, a wrong type) raises out of apply_to; the records before it are written, it and every later input get no record at all")
    chk.floor("R14.7", 1, "one writer call")


def r14_8(chk):
    chk.rule("R14.8", "a re-run records a repeated failure instead of raising: the writers' overwrite check (`unique_id in self` in append mode) answers for the one identifier being written -- base-class membership is one exact comparison, the directory store's override asks the base class one question under one normalised name, and _write checks the caller's identifier before rewriting it (the same obligations as R13.2 / R13.5, here because apply_to must never raise for a record)")
    from . import c13

    c13.base_membership(chk, "R14.8")
    c13.override_membership(chk, "R14.8")
    c13.check_identifier_form(chk, "R14.8")
    chk.floor("R14.8", 3, "three membership obligations")


BROAD = {"Exception", "BaseException", "OSError", "IOError", "EnvironmentError", "FileNotFoundError", "PermissionError"}


def _handler_types(h):
    if h.type is None:
        return {"BaseException"}
    ts = h.type.elts if isinstance(h.type, ast.Tuple) else [h.type]
    return {norm(t).split(".")[-1] for t in ts}


def r14_9(chk):
    chk.rule("R14.9", "a not-completed record carries the failure's MESSAGE: where a NotCompleted is built inside a handler that can catch an OSError (Exception, OSError, bare except, ...), its message is not `err.args[0]` -- for an OSError that is the errno (an int: load_tabular on a missing file recorded message=2, and summarising the store then raised TypeError), and for an argument-less exception it raises IndexError out of the handler, so the record's failure is raised instead of recorded")
    n = 0
    for mod in chk.repo.all_modules():
        if "/app/" not in mod.rel or "NotCompleted(" not in mod.source:
            continue
        for q, fn in mod.all_functions():
            for h in walk_no_nested(fn):
                if not (isinstance(h, ast.ExceptHandler) and h.name):
                    continue
                for c in ast.walk(h):
                    if not (isinstance(c, ast.Call) and (call_name(c) or "").split(".")[-1] == "NotCompleted"):
                        continue
                    msg = next((k_.value for k_ in c.keywords if k_.arg == "message"), c.args[2] if len(c.args) > 2 else None)
                    if msg is None:
                        continue
                    n += 1
                    from_args = any(isinstance(x, ast.Subscript) and norm(x.value) == f"{h.name}.args" for x in ast.walk(msg))
                    broad = sorted(_handler_types(h) & BROAD)
                    k = key(mod, q, f"message of the NotCompleted built under except {'/'.join(sorted(_handler_types(h)))}")
                    if from_args and broad:
                        chk.violation("R14.9", k, mod.loc(c), f"message is `{norm(msg)}` under `except {'/'.join(broad)}`: an OSError's args[0] is its errno (int), an exception raised without arguments has no args[0]")
                    else:
                        chk.ok("R14.9", k, mod.loc(c), "text message" if not from_args else f"`{norm(msg)}` under a handler that cannot see an OSError", nontrivial=True)
    chk.floor("R14.9", 3, "three NotCompleted constructions inside named handlers (align, evo, io)")


def r14_10(chk):
    chk.rule("R14.10", "a writer that obtains its payload by calling another app (write_db: `blob = self._serialiser(data)`) tests THAT result for NotCompleted before handing it to data_store.write: the serialiser is a composed app and answers a failure with a NotCompleted value, which the store cannot checksum (TypeError out of apply_to, the records after it are never processed)")
    m = chk.repo.module("app/io.py")
    fn = m.func("write_db.main")
    g = build(fn)
    blobs = [st for st in walk_no_nested(fn) if isinstance(st, ast.Assign) and isinstance(st.value, ast.Call) and norm(st.value.func).startswith("self._serialiser") and len(st.targets) == 1]
    if not blobs:
        raise AnalysisError("write_db.main: the serialiser call was not found")
    n = 0
    for st in blobs:
        tnames = {x.id for x in ast.walk(st.targets[0]) if isinstance(x, ast.Name)}
        first = st.targets[0].elts[-1].id if isinstance(st.targets[0], ast.Tuple) else next(iter(tnames))
        tested = [c for c in walk_no_nested(fn) if isinstance(c, ast.Call) and norm(c.func) == "isinstance" and len(c.args) == 2 and isinstance(c.args[0], ast.Name) and c.args[0].id in tnames and "NotCompleted" in norm(c.args[1])]
        n += 1
        k = key(m, "write_db.main", f"result of the serialiser ({first}) tested for NotCompleted")
        # the last serialiser call may serialise the failure itself: it is exempt when its argument was tested
        arg = st.value.args[0] if st.value.args else None
        arg_tested = arg is not None and isinstance(arg, ast.Name) and any(isinstance(c, ast.Call) and norm(c.func) == "isinstance" and c.args and isinstance(c.args[0], ast.Name) and c.args[0].id == arg.id and c.lineno < st.lineno and "NotCompleted" in norm(c.args[1]) for c in walk_no_nested(fn))
        chk.decide(bool(tested) or arg_tested, "R14.10", k, m.loc(st), "tested (or it serialises a value already known to be the failure)", f"`{norm(st)}`: the result is passed on to data_store.write / write_not_completed without an isinstance(..., NotCompleted) test; when the record cannot be serialised the store is handed a NotCompleted and raises TypeError")
    chk.floor("R14.10", 1, "write_db.main")


def _truthy_names(test):
    if isinstance(test, ast.Name):
        return [(test.id, True)]
    if isinstance(test, ast.UnaryOp) and isinstance(test.op, ast.Not) and isinstance(test.operand, ast.Name):
        return [(test.operand.id, False)]
    if isinstance(test, ast.BoolOp):
        return [t for v in test.values for t in _truthy_names(v)]
    return []


def r14_12(chk):
    chk.rule("R14.12", "recording a failure cannot itself fail: NotCompleted.__new__ looks up the source of whatever value failed (get_data_source on arbitrary user data) inside a try whose handler catches Exception -- the record is built inside _call's own except handler, so anything escaping here (TypeError from `data.get('info', {})['source']` when info is None ...) aborts apply_to / as_completed with a misleading traceback and no record for that input or the ones after it")
    m = chk.repo.module(CP)
    fn = m.func("NotCompleted.__new__")
    calls = [c for c in walk_no_nested(fn) if isinstance(c, ast.Call) and (call_name(c) or "").split(".")[-1] == "get_data_source"]
    if not calls:
        raise AnalysisError("NotCompleted.__new__: get_data_source(...) not found")
    for c in calls:
        tries = [t for t in walk_no_nested(fn) if isinstance(t, ast.Try) and any(c is x for b_ in t.body for x in ast.walk(b_))]
        broad = any(h.type is None or (_handler_types(h) & {"Exception", "BaseException"}) for t in tries for h in t.handlers)
        chk.decide(broad, "R14.12", key(m, "NotCompleted.__new__", "source lookup cannot raise"), m.loc(c), "inside try / except Exception", f"`{norm(c)}` is guarded by {[sorted(_handler_types(h)) for t in tries for h in t.handlers] or 'nothing'}: a value whose source lookup raises another exception type makes the construction of the failure record raise")
    chk.floor("R14.12", 1, "NotCompleted.__new__")


def r14_13(chk):
    chk.rule("R14.13", "`identifier in data_store` -- the test apply_to uses to skip inputs already dealt with and _check_writable uses to refuse a second write -- ranges over ALL members: DataStoreABC.__contains__ iterates self / self.members, members is completed + not_completed, __iter__ yields from members, and a subclass override ends in super().__contains__ (restricted to the completed records, an input recorded as not-completed is run again on a resumed apply_to and its second not-completed record collides with the first)")
    m = chk.repo.module("app/data_store.py")
    ci = m.cls("DataStoreABC")
    fn = ci.methods.get("__contains__")
    if fn is None:
        raise AnalysisError("DataStoreABC.__contains__ not found")
    gens = [g for x in walk_no_nested(fn) if isinstance(x, (ast.GeneratorExp, ast.ListComp, ast.SetComp)) for g in x.generators] + [ast.comprehension(target=lp.target, iter=lp.iter, ifs=[], is_async=0) for lp in walk_no_nested(fn) if isinstance(lp, ast.For)]
    k = key(m, "DataStoreABC.__contains__", "ranges over all members")
    if not gens:
        chk.unresolved("R14.13", k, m.loc(fn), "no iteration found")
    else:
        it = norm(gens[0].iter)
        both = it in ("self", "self.members", "iter(self)") or ("completed" in it and "not_completed" in it and it.count("completed") >= 2)
        chk.decide(both, "R14.13", k, m.loc(fn), f"iterates `{it}`", f"iterates `{it}`: not-completed records are not `in` the store, so a resumed apply_to re-runs an input that failed before and writes a second record for it")
    mem = ci.methods.get("members")
    rets = [r for r in walk_no_nested(mem) if isinstance(r, ast.Return) and r.value is not None] if mem is not None else []
    txt = norm(rets[0].value) if rets else ""
    chk.decide("self.completed" in txt and "self.not_completed" in txt, "R14.13", key(m, "DataStoreABC.members", "completed and not completed"), m.loc(mem or fn), f"members = {txt}", f"members = `{txt}` leaves out a kind of record")
    itf = ci.methods.get("__iter__")
    ys = [norm(y.value) for y in ast.walk(itf) if isinstance(y, (ast.YieldFrom, ast.Yield)) and y.value is not None] if itf is not None else []
    chk.decide(bool(ys) and all("self.members" in y or ("completed" in y and "not_completed" in y) for y in ys), "R14.13", key(m, "DataStoreABC.__iter__", "yields the members"), m.loc(itf or fn), f"yields {ys}", f"__iter__ yields {ys}, not the members")
    # overrides
    for sub in chk.repo.subclasses_of(ci):
        o = sub.methods.get("__contains__")
        if o is None:
            continue
        rs = [r for r in walk_no_nested(o) if isinstance(r, ast.Return) and r.value is not None]
        deleg = bool(rs) and all("super().__contains__" in norm(r.value) or "self.members" in norm(r.value) for r in rs)
        chk.decide(deleg, "R14.13", key(sub.module, f"{sub.name}.__contains__", "delegates to the base test"), sub.module.loc(o), "every return goes through super().__contains__", "an override answers without the base membership test")
    chk.floor("R14.13", 3, "__contains__, members, __iter__")


def run(chk):
    r14_13(chk)
    r14_12(chk)
    r14_10(chk)
    r14_9(chk)
    r14_8(chk)
    r14_7(chk)
    r14_6(chk)
    r14_1(chk)
    r14_2(chk)
    r14_3(chk)
    r14_4(chk)
    r14_5(chk)
    chk.assume("concurrent.futures.as_completed yields each future exactly once; executor.submit runs the callable once")
    chk.assume("the apply_to loop's call of the writer's main outside _call's try block is not analysed (advisory)")
