"""C12 -- translation and complementing follow the genetic-code tables.

Decided (see DESIGN.md section 3, C12): the clauses that are data (R12.1-R12.3, R12.7)
exhaustively; option liveness (R12.4); stop-handling guard parity on the full truth
table (R12.5); option forwarding parity of sibling wrappers (R12.6).
Not decided: the byte/str translation code itself.

Added in build round 2 (see DESIGN.md section 3, round-2 table):
R12.2 every codon enumeration is the product of bases in TCAG (UCAG) order, zipped with the code
R12.4b inside a translation entry point every call of another entry point of the family (get_translation, trim_stop_codon(s), has_terminal_stop) is given ...
R12.8 every complement implementation derives its result from the complement table (a lookup through the table-built converter / str.translate, or ...
R12.9 index arrays are typed by the size of the alphabet (get_array_type(len(<alphabet>))), never by the size of the data being encoded: a dtype that grows ...

Added later in build rounds 2-3 (see DESIGN.md section 3, round-2/3 table):
R12.10 translation entry points translate the *realised* sequence (str(seq) / array(seq) / bytes(seq), which reverse and complement a minus-strand view): ...
R12.11 answers cached by one molecular type / genetic code / alphabet are not served to another: no class-level mutable container of these classes is ...
R12.12 strand-relative framing in the new GeneticCode.translate: `start` and the truncation to a multiple of three are positions on the sequence that is ...
R12.13 the table-driven byte converters fix the element width themselves: an index array handed to array_to_bytes is cast to the alphabet's 1-byte type ...
"""

from __future__ import annotations

import ast
import itertools

from ..index import AnalysisError, call_name, norm, params_of, strip_docstring, walk_no_nested
from ..literals import NotConstant, fold, try_fold
from ..report import key
from .. import tables as T

AA = set("ACDEFGHIKLMNPQRSTVWY*")

# The NCBI translation tables (gc.prt), written as deviations from the standard
# code, keyed by codon -- an oracle independent of the repo's 64-character strings
# and of any codon ordering.  IDs not listed here are checked by twin agreement only.
STANDARD = dict(
    zip(
        ("".join(c) for c in itertools.product("TCAG", repeat=3)),
        "FFLLSSSSYY**CC*WLLLLPPPPHHQQRRRRIIIMTTTTNNKKSSRRVVVVAAAADDEEGGGG",
    )
)
NCBI_DEVIATIONS = {
    1: {},
    2: {"TGA": "W", "ATA": "M", "AGA": "*", "AGG": "*"},
    3: {"TGA": "W", "CTT": "T", "CTC": "T", "CTA": "T", "CTG": "T", "ATA": "M"},
    4: {"TGA": "W"},
    5: {"TGA": "W", "ATA": "M", "AGA": "S", "AGG": "S"},
    6: {"TAA": "Q", "TAG": "Q"},
    9: {"TGA": "W", "AAA": "N", "AGA": "S", "AGG": "S"},
    10: {"TGA": "C"},
    11: {},
    12: {"CTG": "S"},
    13: {"TGA": "W", "ATA": "M", "AGA": "G", "AGG": "G"},
    14: {"TAA": "Y", "TGA": "W", "AAA": "N", "AGA": "S", "AGG": "S"},
    15: {"TAG": "Q"},
    16: {"TAG": "L"},
    21: {"TGA": "W", "ATA": "M", "AAA": "N", "AGA": "S", "AGG": "S"},
    22: {"TCA": "*", "TAG": "L"},
    23: {"TTA": "*"},
    24: {"TGA": "W", "AGA": "S", "AGG": "K"},
    25: {"TGA": "G"},
    26: {"CTG": "A"},
    27: {"TAA": "Q", "TAG": "Q", "TGA": "W"},
    28: {"TAA": "Q", "TAG": "Q", "TGA": "W"},
    29: {"TAA": "Y", "TAG": "Y"},
    30: {"TAA": "E", "TAG": "E"},
    31: {"TAA": "E", "TAG": "E", "TGA": "W"},
    32: {"TAG": "W"},
    33: {"TAA": "Y", "TGA": "W", "AGA": "S", "AGG": "K"},
}


def find_code_table(m):
    """the literal sequence of 4-sequences whose first item is a 64-char string"""
    hits = []
    for n in ast.walk(m.tree):
        if isinstance(n, (ast.List, ast.Tuple)) and len(n.elts) >= 2 and all(isinstance(e, (ast.List, ast.Tuple)) and len(e.elts) == 4 for e in n.elts):
            ok, v = try_fold(n, m)
            if ok and all(isinstance(r[0], str) and len(r[0]) == 64 for r in v):
                hits.append((n, v))
    if len(hits) != 1:
        raise AnalysisError(f"expected exactly one genetic-code table literal in {m.rel}, found {len(hits)}")
    return hits[0]


def r12_1(chk):
    chk.rule("R12.1", "old and new genetic-code tables: same IDs; per ID identical amino-acid string, name and start map; 64 chars over the amino acids + '*'; amino acids equal the NCBI table (codon-keyed oracle) under TCAG order; row layout matches the constructor")
    old_m = chk.repo.module("core/genetic_code.py")
    new_m = chk.repo.module("core/new_genetic_code.py")
    on, old = find_code_table(old_m)
    nn, new = find_code_table(new_m)
    o = {r[1]: tuple(r) for r in old}
    n = {r[1]: tuple(r) for r in new}
    chk.decide(len(o) == len(old) and len(n) == len(new), "R12.1", key(old_m, "<table>", "unique IDs"), old_m.loc(on), "IDs unique in both tables", "duplicate ID in a code table")
    chk.decide(set(o) == set(n), "R12.1", key(old_m, "<table>", "same IDs"), old_m.loc(on), f"{len(o)} IDs in both", f"IDs differ: only old {sorted(set(o) - set(n))}, only new {sorted(set(n) - set(o))}")
    codons = ["".join(c) for c in itertools.product("TCAG", repeat=3)]
    for mod, tab, node in ((old_m, o, on), (new_m, n, nn)):
        for cid, row in sorted(tab.items()):
            aa, _, name, starts = row
            k = key(mod, "<table>", f"id={cid}")
            where = f"{mod.rel}:{_row_line(node, cid)}"
            if not (isinstance(cid, int) and isinstance(name, str) and isinstance(starts, str)):
                chk.violation("R12.1", k, where, "row is not (aa string, int ID, name, start map)")
                continue
            bad = []
            if set(aa) - AA:
                bad.append(f"amino-acid string has characters {sorted(set(aa) - AA)}")
            if len(starts) != 64 or set(starts) - set("-M"):
                bad.append("start map is not 64 characters over '-M'")
            other = (n if tab is o else o).get(cid)
            if other is not None and tuple(other) != tuple(row):
                which = [f for f, a, b in zip(("amino acids", "ID", "name", "starts"), row, other) if a != b]
                bad.append(f"differs from the sibling table in {which}")
            if cid in NCBI_DEVIATIONS:
                want = dict(STANDARD)
                want.update(NCBI_DEVIATIONS[cid])
                diff = [f"{c}:{a}!={want[c]}" for c, a in zip(codons, aa) if want[c] != a]
                if diff:
                    bad.append(f"deviates from NCBI table {cid}: {diff[:6]}")
            else:
                chk.unresolved("R12.1", key(mod, "<table>", f"id={cid} ncbi"), where, "ID not in the embedded NCBI oracle; twin agreement only")
            if bad:
                chk.violation("R12.1", k, where, "; ".join(bad))
            else:
                chk.ok("R12.1", k, where, f"{name}: 64 aa, twin-identical, NCBI-identical")
    chk.floor("R12.1", 2 * 20, "27 codes x 2 modules on the pinned tree")

    # row layout: old GeneticCode(*data) positional order, new dict(zip(_mapping_cols, mapping))
    init = old_m.func("GeneticCode.__init__")
    ps = [p for p in params_of(init) if p != "self"]
    chk.decide(ps[:4] == ["code_sequence", "ID", "name", "start_codon_sequence"], "R12.1", key(old_m, "GeneticCode.__init__", "row layout"), old_m.loc(init), "positional order (code_sequence, ID, name, start_codon_sequence) matches table rows", f"constructor order {ps[:4]} does not match table row layout")
    ok, cols = try_fold(new_m.const("_mapping_cols"), new_m)
    chk.decide(ok and tuple(cols) == ("ncbi_code_sequence", "ID", "name", "ncbi_start_codon_map"), "R12.1", key(new_m, "_mapping_cols", "row layout"), new_m.loc(new_m.const("_mapping_cols")), "column names match table rows", f"_mapping_cols {cols} does not match the row layout (aa, ID, name, starts)")


def _row_line(table_node, cid):
    for e in table_node.elts:
        try:
            if isinstance(e.elts[1], ast.Constant) and e.elts[1].value == cid:
                return e.lineno
        except Exception:
            pass
    return table_node.lineno


def r12_2(chk):
    chk.rule("R12.2", "every codon enumeration is the product of bases in TCAG (UCAG) order, zipped with the code string")
    old_m = chk.repo.module("core/genetic_code.py")
    gc = old_m.cls("GeneticCode")
    ok, bases = try_fold(gc.assigns.get("_nt", ast.Constant(None)), old_m)
    chk.decide(ok and bases == "TCAG", "R12.2", key(old_m, "GeneticCode", "_nt"), old_m.loc(gc.node), "bases TCAG", f"bases are {bases!r}")
    cod = gc.assigns.get("_codons")
    good = False
    if cod is not None:
        prods = [c for c in ast.walk(cod) if isinstance(c, ast.Call) and call_name(c) in ("product", "itertools.product")]
        if len(prods) == 1:
            p = prods[0]
            vals = [try_fold(a, old_m) for a in p.args]
            rep = [kw for kw in p.keywords if kw.arg == "repeat"]
            if all(v == (True, "TCAG") for v in vals) and (len(vals) == 3 or (len(vals) == 1 and rep and try_fold(rep[0].value)[1] == 3)):
                good = any(isinstance(c, ast.Attribute) and c.attr == "join" for c in ast.walk(cod))
    chk.decide(good, "R12.2", key(old_m, "GeneticCode", "_codons"), old_m.loc(cod or gc.node), "codons = product(TCAG x3) joined", "codon enumeration is not product(_bases, _bases, _bases) joined")
    init = old_m.func("GeneticCode.__init__")
    zips = [c for c in walk_no_nested(init) if isinstance(c, ast.Call) and call_name(c) == "zip" and [norm(a) for a in c.args] == ["self._codons", "code_sequence"]]
    chk.decide(bool(zips), "R12.2", key(old_m, "GeneticCode.__init__", "zip(codons, code_sequence)"), old_m.loc(init), "lookup zips codons with the code string", "codon lookup no longer zips self._codons with code_sequence")

    for rel in ("core/moltype.py", "core/new_moltype.py"):
        m = chk.repo.module(rel)
        for name, want in (("IUPAC_DNA_chars", "TCAG"), ("IUPAC_RNA_chars", "UCAG")):
            ok, v = try_fold(m.const(name), m)
            chk.decide(ok and "".join(v) == want, "R12.2", key(m, name), m.loc(m.const(name)), f"{want}", f"{name} is {v!r}, codon order would not be {want}")
    # new moltype objects take their monomers from those constants, in order
    nm = chk.repo.module("core/new_moltype.py")
    for name, want in (("DNA", "TCAG"), ("RNA", "UCAG")):
        call = nm.const(name)
        mono = [kw.value for kw in getattr(call, "keywords", []) if kw.arg == "monomers"]
        ok, v = try_fold(mono[0], nm) if mono else (False, None)
        chk.decide(ok and v == want, "R12.2", key(nm, name, "monomers"), nm.loc(call), f"monomers {want}", f"monomers of new {name} moltype fold to {v!r}")
    om = chk.repo.module("core/moltype.py")
    for name, want in (("DNA", "TCAG"), ("RNA", "UCAG")):
        call = om.const(name)
        mono = [kw.value for kw in getattr(call, "keywords", []) if kw.arg == "motifset"]
        ok, v = try_fold(mono[0], om) if mono else (False, None)
        chk.decide(ok and "".join(v) == want, "R12.2", key(om, name, "motifset"), om.loc(call), f"motifset {want}", f"motifset of old {name} moltype folds to {v!r}")
    # new genetic code: code string zipped with the codon alphabet, plus the two extra states
    ngm = chk.repo.module("core/new_genetic_code.py")
    mk = ngm.func("_make_mappings")
    zips = [c for c in walk_no_nested(mk) if isinstance(c, ast.Call) and call_name(c) == "zip" and [norm(a) for a in c.args] == ["codons", "code_sequence"]]
    chk.decide(bool(zips), "R12.2", key(ngm, "_make_mappings", "zip(codons, code_sequence)"), ngm.loc(mk), "mapping zips codon alphabet with the code string", "mapping no longer zips codons with code_sequence")
    post = ngm.func("GeneticCode.__post_init__")
    tmpl = None
    for st in walk_no_nested(post):
        if isinstance(st, ast.Assign) and isinstance(st.value, ast.JoinedStr) and norm(st.targets[0]) == "code_seq":
            from ..literals import fstring_template

            tmpl = fstring_template(st.value)[0]
    chk.decide(tmpl == "{ncbi_code_sequence}-X", "R12.2", key(ngm, "GeneticCode.__post_init__", "code_seq"), ngm.loc(post), "code string extended by gap and missing states '-X' (suffix, so the 64 codons keep their index)", f"code_seq template is {tmpl!r}")
    chk.floor("R12.2", 12, "3 old-code constructs, 4 constants, 4 moltype constructions, 2 new-code constructs")


def _ambig_tables(m, kind):
    amb = fold(m.const(f"IUPAC_{kind}_ambiguities"), m)
    comp = fold(m.const(f"IUPAC_{kind}_ambiguities_complements"), m)
    base = fold(m.const(f"IUPAC_{kind}_complements"), m)
    amb = {k: frozenset(v) for k, v in amb.items()}
    return amb, comp, base


def r12_3(chk):
    chk.rule("R12.3", "complement tables are closed: ambig(comp[s]) == {basecomp[b] for b in ambig(s)}, comp is an involution, comp extends the base complement; ambiguity sets are distinct (re-encoding is the inverse of resolving); old/new and DNA/RNA tables agree")
    all_tabs = {}
    for rel in ("core/moltype.py", "core/new_moltype.py"):
        m = chk.repo.module(rel)
        for kind in ("DNA", "RNA"):
            try:
                amb, comp, base = _ambig_tables(m, kind)
            except NotConstant as e:
                raise AnalysisError(f"{rel}: IUPAC_{kind} tables are no longer literal: {e}")
            all_tabs[(rel, kind)] = (amb, comp, base)
            node = m.const(f"IUPAC_{kind}_ambiguities_complements")
            canon = set(base) - {"-"}
            exp_canon = set("ACGT") if kind == "DNA" else set("ACGU")
            chk.decide(canon == exp_canon and all(base[base[b]] == b for b in base) and base.get("-") == "-", "R12.3", key(m, f"IUPAC_{kind}_complements"), m.loc(m.const(f"IUPAC_{kind}_complements")), "base complement is an involution over the four bases and gap", f"base complement table {base}")
            wc = {"A": "T" if kind == "DNA" else "U", "C": "G", "G": "C", ("T" if kind == "DNA" else "U"): "A"}
            chk.decide(all(base.get(b) == c for b, c in wc.items()), "R12.3", key(m, f"IUPAC_{kind}_complements", "watson-crick"), m.loc(m.const(f"IUPAC_{kind}_complements")), "A-T/U, C-G", f"base complement is not Watson-Crick: {base}")
            for s in sorted(comp):
                k = key(m, f"IUPAC_{kind}_ambiguities_complements", f"symbol {s}")
                where = f"{m.rel}:{_dict_key_line(node, s)}"
                c = comp[s]
                bad = []
                if comp.get(c) != s:
                    bad.append(f"comp[comp[{s}]] = {comp.get(c)!r}")
                if s in base:
                    if c != base[s]:
                        bad.append(f"comp[{s}]={c} but base complement is {base[s]}")
                elif s in amb:
                    want = frozenset(base[b] for b in amb[s])
                    got = amb.get(c)
                    if got != want:
                        bad.append(f"ambig(comp[{s}]={c}) = {sorted(got) if got else got} but complemented set is {sorted(want)}")
                else:
                    if c != s:
                        bad.append(f"{s} has no base set, so it must complement to itself, not {c}")
                if bad:
                    chk.violation("R12.3", k, where, "; ".join(bad))
                else:
                    chk.ok("R12.3", k, where, f"{s}->{c}")
            missing = [s for s in list(amb) + list(base) if s not in comp]
            chk.decide(not missing, "R12.3", key(m, f"IUPAC_{kind}_ambiguities_complements", "covers every symbol"), m.loc(node), "every base and ambiguity symbol has a complement", f"no complement for {missing}")
            sets = list(amb.values())
            dup = [s for s in amb if sets.count(amb[s]) > 1]
            single = [s for s in amb if len(amb[s]) < 2 or not amb[s] <= canon]
            chk.decide(not dup and not single, "R12.3", key(m, f"IUPAC_{kind}_ambiguities", "injective"), m.loc(m.const(f"IUPAC_{kind}_ambiguities")), f"{len(amb)} distinct base sets over the canonical bases", f"ambiguity sets not distinct / not proper: {dup or single}")
            n_sets = {frozenset(x) for x in amb.values()}
            want_all = {frozenset(c) for r in (2, 3, 4) for c in itertools.combinations(sorted(canon), r)}
            chk.decide(n_sets == want_all, "R12.3", key(m, f"IUPAC_{kind}_ambiguities", "complete"), m.loc(m.const(f"IUPAC_{kind}_ambiguities")), "every subset of >=2 bases has a symbol", f"subsets without symbol: {[sorted(x) for x in want_all - n_sets]}; extra: {[sorted(x) for x in n_sets - want_all]}")
    # siblings agree
    for kind in ("DNA", "RNA"):
        a, b = all_tabs[("core/moltype.py", kind)], all_tabs[("core/new_moltype.py", kind)]
        m = chk.repo.module("core/new_moltype.py")
        # a symbol defined on one side only (new: '?') is constrained by the closure rule above
        agree = lambda x, y: all(x[s] == y[s] for s in set(x) & set(y))  # noqa: E731
        same = a[0] == b[0] and agree(a[1], b[1]) and a[2] == b[2]
        chk.decide(same, "R12.3", key(m, f"IUPAC_{kind}", "old==new"), m.loc(m.const(f"IUPAC_{kind}_ambiguities")), "old and new tables agree on every shared symbol", "old and new moltype tables differ: " + str([n for n, x, y in zip(("ambiguities", "ambiguity complements", "complements"), a, b) if x != y]))
    for rel in ("core/moltype.py", "core/new_moltype.py"):
        d, r = all_tabs[(rel, "DNA")], all_tabs[(rel, "RNA")]
        tu = lambda s: s.replace("T", "U")  # noqa: E731
        m = chk.repo.module(rel)
        same = {tu(k): frozenset(tu(x) for x in v) for k, v in d[0].items()} == r[0] and {tu(k): tu(v) for k, v in d[1].items()} == r[1]
        chk.decide(same, "R12.3", key(m, "IUPAC", "DNA==RNA under T/U"), m.loc(m.const("IUPAC_RNA_ambiguities")), "RNA tables are the DNA tables with T->U", "DNA and RNA tables differ by more than the T/U exchange")
    # old genetic_code._dna_trans
    gm = chk.repo.module("core/genetic_code.py")
    ok, tr = try_fold(gm.const("_dna_trans"), gm)
    base = all_tabs[("core/moltype.py", "DNA")][2]
    good = ok and {chr(k): chr(v) for k, v in tr.items()} == {b: base[b] for b in "TCAG"}
    chk.decide(good, "R12.3", key(gm, "_dna_trans"), gm.loc(gm.const("_dna_trans")), "TCAG->AGTC is the base complement", f"_dna_trans is {tr}")
    chk.floor("R12.3", 60, "4 tables x (17 symbols + 5 table-level obligations) on the pinned tree")


def _dict_key_line(node, k):
    if isinstance(node, ast.Dict):
        for kn in node.keys:
            if isinstance(kn, ast.Constant) and kn.value == k:
                return kn.lineno
    return getattr(node, "lineno", 0)


# ---------------------------------------------------------------------------
OPTIONS = ("gc", "include_stop", "trim_stop", "incomplete_ok", "strict", "rc", "start", "allow_rc", "trim_terminal_stop", "require_stop", "frame")

ENTRY_POINTS = [
    ("core/genetic_code.py", "GeneticCode.translate"),
    ("core/new_genetic_code.py", "GeneticCode.translate"),
    ("core/sequence.py", "NucleicAcidSequence.get_translation"),
    ("core/sequence.py", "NucleicAcidSequence.trim_stop_codon"),
    ("core/sequence.py", "NucleicAcidSequence.has_terminal_stop"),
    ("core/new_sequence.py", "NucleicAcidSequenceMixin.get_translation"),
    ("core/new_sequence.py", "NucleicAcidSequenceMixin.trim_stop_codon"),
    ("core/new_sequence.py", "NucleicAcidSequenceMixin.has_terminal_stop"),
    ("core/alignment.py", "_SequenceCollectionBase.get_translation"),
    ("core/alignment.py", "_SequenceCollectionBase.trim_stop_codons"),
    ("core/alignment.py", "_SequenceCollectionBase.has_terminal_stop"),
    ("core/alignment.py", "AlignmentI.get_translation"),
    ("core/alignment.py", "AlignmentI.trim_stop_codons"),
    ("core/new_alignment.py", "SequenceCollection.get_translation"),
    ("core/new_alignment.py", "SequenceCollection.trim_stop_codons"),
    ("core/new_alignment.py", "SequenceCollection.has_terminal_stop"),
    ("app/translate.py", "best_frame"),
    ("app/translate.py", "translate_frames"),
    ("app/translate.py", "select_translatable.__init__"),
    ("app/translate.py", "translate_seqs.__init__"),
]

# option declared but intentionally ignored: (function, option) -> reason
DEAD_OPTION_ADVISORY = {
    ("app/translate.py", "translate_seqs.__init__", "allow_rc"): "undocumented, unused option of the app (no behaviour promised for it)",
}


def _loads(fn, name):
    return [n for n in walk_no_nested(fn) if isinstance(n, ast.Name) and n.id == name and isinstance(n.ctx, ast.Load)]


def r12_4(chk):
    chk.rule("R12.4", "in every translation entry point each declared option is read on some path (an app option stored on self is read by another method) and gc reaches get_code() or is forwarded to a callee")
    for rel, q in ENTRY_POINTS:
        m = chk.repo.module(rel)
        fn = m.func(q)
        ps = params_of(fn)
        clsname = q.split(".")[0] if "." in q else None
        for opt in ps:
            if opt not in OPTIONS:
                continue
            k = key(m, q, f"option {opt}")
            loads = _loads(fn, opt)
            live = bool(loads)
            detail = "read"
            if live and q.endswith("__init__"):
                # stored on self: the attribute must be read elsewhere in the class
                stored = []
                for st in walk_no_nested(fn):
                    if isinstance(st, ast.Assign) and any(isinstance(x, ast.Name) and x.id == opt for x in ast.walk(st.value)):
                        for t in st.targets:
                            if isinstance(t, ast.Attribute) and isinstance(t.value, ast.Name) and t.value.id == "self":
                                stored.append(t.attr)
                other_use = any(not isinstance(st, ast.Assign) or not any(isinstance(t, ast.Attribute) for t in st.targets) for st in walk_no_nested(fn) if isinstance(st, (ast.Assign, ast.Assert, ast.If)) and any(isinstance(x, ast.Name) and x.id == opt for x in ast.walk(st)))
                if stored:
                    ci = m.cls(clsname)
                    used = False
                    for mn, meth in ci.methods.items():
                        if meth is fn:
                            continue
                        for n in ast.walk(meth):
                            if isinstance(n, ast.Attribute) and n.attr in stored and isinstance(n.ctx, ast.Load):
                                used = True
                    live = used or other_use
                    detail = f"stored as self.{stored[0]} and read by another method" if used else "stored but never read"
            if not live and (rel, q, opt) in DEAD_OPTION_ADVISORY:
                chk.advisory("R12.4", k, m.loc(fn), DEAD_OPTION_ADVISORY[(rel, q, opt)])
                continue
            chk.decide(live, "R12.4", k, m.loc(fn), detail, f"option {opt!r} is declared but never read: requests made through it are silently ignored")
            if opt == "gc" and live:
                forwarded = False
                for c in walk_no_nested(fn):
                    if isinstance(c, ast.Call):
                        argnames = [a for a in c.args] + [kw.value for kw in c.keywords]
                        if any(isinstance(a, ast.Name) and a.id == "gc" for a in argnames):
                            forwarded = True
                chk.decide(forwarded, "R12.4", key(m, q, "gc reaches a callee"), m.loc(fn), "gc passed to get_code()/a callee", "gc is read but never passed to get_code() or a lower-level entry point")
    chk.floor("R12.4", 40, "20 entry points, 2-4 options each")


GUARD_SIBLINGS = [
    # (module, function, callee attr that performs terminal-stop trimming)
    ("core/sequence.py", "NucleicAcidSequence.get_translation", "trim_stop_codon"),
    ("core/new_sequence.py", "NucleicAcidSequenceMixin.get_translation", "trim_stop_codon"),
    ("core/alignment.py", "_SequenceCollectionBase.get_translation", "trim_stop_codons"),
    ("core/alignment.py", "AlignmentI.get_translation", "trim_stop_codons"),
]


def r12_5(chk):
    chk.rule("R12.5", "sibling translation entry points invoke terminal-stop trimming under the same condition over (include_stop, trim_stop), compared on the full truth table")
    opts = {"include_stop", "trim_stop"}
    tabs = []
    for rel, q, callee in GUARD_SIBLINGS:
        m = chk.repo.module(rel)
        fn = m.func(q)
        is_t = lambda n, callee=callee: isinstance(n, ast.Call) and isinstance(n.func, ast.Attribute) and n.func.attr == callee  # noqa: E731
        found = T.reach_conditions(fn, is_t, opts)
        if not found:
            raise AnalysisError(f"{rel}::{q}: no call to .{callee}() found (anchor moved)")
        f = T.f_or(*[c for _, c in found])
        names, table = T.truth_table(f, opts)
        tabs.append((m, fn, q, f, table))
    # reference: majority among the siblings (the three old entry points agree)
    ref_counts = {}
    for *_, table in tabs:
        ref_counts[tuple(sorted(table.items()))] = ref_counts.get(tuple(sorted(table.items())), 0) + 1
    ref = max(ref_counts.items(), key=lambda kv: kv[1])[0]
    chk.exhaustive = True
    for m, fn, q, f, table in tabs:
        k = key(m, q, "stop-trimming guard")
        same = tuple(sorted(table.items())) == ref
        diff = [dict(zip(sorted(opts), a)) for a, v in table.items() if dict(ref)[a] != v]
        chk.decide(same, "R12.5", k, m.loc(fn), f"trims when {T.show(f)}", f"trims when {T.show(f)}; siblings differ on {diff}")
    chk.floor("R12.5", 4, "4 sibling get_translation implementations")


WRAPPERS = [
    # (module, wrapper, name of the sequence-level entry point it calls)
    ("core/alignment.py", "_SequenceCollectionBase.get_translation", "get_translation"),
    ("core/alignment.py", "AlignmentI.get_translation", "get_translation"),
    ("core/new_alignment.py", "SequenceCollection.get_translation", "get_translation"),
]
FORWARDED = ("include_stop", "trim_stop", "incomplete_ok")


def r12_6(chk):
    chk.rule("R12.6", "collection-level get_translation wrappers forward every stop-handling option they declare (include_stop, trim_stop) to the sequence-level entry point, from the caller's value")
    for rel, q, callee in WRAPPERS:
        m = chk.repo.module(rel)
        fn = m.func(q)
        declared = [p for p in params_of(fn) if p in FORWARDED]
        calls = [c for c in walk_no_nested(fn) if isinstance(c, ast.Call) and isinstance(c.func, ast.Attribute) and c.func.attr == callee and norm(c.func.value) not in ("self", "super()")]
        if not calls:
            raise AnalysisError(f"{rel}::{q}: no call to <seq>.{callee}() (anchor moved)")
        for c in calls:
            src = T.call_keyword_sources(c, ["gc", "incomplete_ok", "include_stop", "trim_stop"])
            for opt in declared:
                k = key(m, q, f"forwards {opt}")
                if opt == "incomplete_ok":
                    # a constant True is the documented behaviour of collections (gapped codons -> '?')
                    chk.decide(opt in src, "R12.6", k, m.loc(c), f"{opt}={src.get(opt)}", f"{opt} not passed to {callee}()")
                else:
                    chk.decide(src.get(opt) == opt, "R12.6", k, m.loc(c), f"{opt}={opt}", f"{opt} is declared by the wrapper but " + ("not passed" if opt not in src else f"passed as {src[opt]}") + f" to <seq>.{callee}(): the sequence-level default is used whatever the caller asked for")
    chk.floor("R12.6", 8, "3 wrappers x (include_stop, trim_stop, incomplete_ok)")


def r12_7(chk):
    """stop handling inside the sequence-level entry points"""
    chk.rule("R12.7", "sequence-level get_translation rejects a stop codon unless include_stop: the raise/skip on '*' is guarded by `not include_stop` only")
    # old: `if aa == "*" and not include_stop: continue` ; new: `if not include_stop and "*" in pep: raise`
    for rel, q in (("core/sequence.py", "NucleicAcidSequence.get_translation"), ("core/new_sequence.py", "NucleicAcidSequenceMixin.get_translation")):
        m = chk.repo.module(rel)
        fn = m.func(q)
        hits = []
        for n in walk_no_nested(fn):
            if isinstance(n, ast.If):
                txt = norm(n.test)
                if "'*'" in txt and "include_stop" in txt:
                    hits.append(n)
        if not hits:
            chk.violation("R12.7", key(m, q, "stop guard"), m.loc(fn), "no test combining '*' with include_stop: stop codons are no longer rejected/kept as requested")
            continue
        for n in hits:
            f = T.expr_to_formula(n.test, {"include_stop"})
            names, table = T.truth_table(f, {"include_stop"})
            # reachable (for some residue) only when include_stop is False
            good = table[(False,)] is True and table[(True,)] is False
            chk.decide(good, "R12.7", key(m, q, "stop guard"), m.loc(n), f"`{norm(n.test)}` fires only when include_stop is False", f"`{norm(n.test)}` does not fire exactly when include_stop is False")
    chk.floor("R12.7", 2, "old and new sequence-level get_translation")


GC_FAMILY = {"get_translation", "trim_stop_codon", "trim_stop_codons", "has_terminal_stop"}


def r12_4b(chk):
    chk.rule("R12.4b", "inside a translation entry point every call of another entry point of the family (get_translation, trim_stop_codon(s), has_terminal_stop) is given the genetic code (gc derived from the caller's gc): a callee left on its default trims/tests stops with the standard code whatever code was requested")
    for rel, q in ENTRY_POINTS:
        m = chk.repo.module(rel)
        fn = m.func(q)
        if "gc" not in params_of(fn) and not q.endswith("main"):
            continue
        from ..defuse import derived_names, expr_derives

        gcn = derived_names(fn, {"gc"})
        for c in walk_no_nested(fn):
            if isinstance(c, ast.Call) and isinstance(c.func, ast.Attribute) and c.func.attr in GC_FAMILY:
                passed = [kw.value for kw in c.keywords if kw.arg == "gc"] + (c.args[:1] if c.func.attr == "get_translation" or c.args else [])
                ok = any(expr_derives(a, gcn) for a in passed)
                chk.decide(ok, "R12.4b", key(m, q, f"gc passed to {norm(c.func)}"), m.loc(c), f"{norm(c.func)}(... gc ...)", f"`{norm(c)[:90]}` is not given the genetic code: it falls back to its default code, so with a non-standard code a terminal stop is trimmed/tested against the wrong table")
    chk.floor("R12.4b", 6, "family calls inside the entry points")


def r12_8(chk):
    chk.rule("R12.8", "every complement implementation derives its result from the complement table (a lookup through the table-built converter / str.translate, or recursion into another overload); a computed shortcut (index arithmetic) is not tied to the tables and silently diverges for symbols outside its assumption (gap, ambiguity codes)")
    n = 0
    for rel in ("core/new_moltype.py", "core/moltype.py"):
        m = chk.repo.module(rel)
        ci = m.cls("MolType")
        fns = [st for st in ci.node.body if isinstance(st, ast.FunctionDef) and (st.name == "complement" or (st.name == "_" and any("complement.register" in norm(d) for d in st.decorator_list)))]
        if not fns:
            raise AnalysisError(f"{rel}: MolType.complement not found")
        for fn in fns:
            ann = fn.args.args[1].annotation if len(fn.args.args) > 1 and fn.args.args[1].annotation is not None else None
            name = f"complement[{norm(ann)}]" if ann is not None else "complement"
            rets = [r for r in walk_no_nested(fn) if isinstance(r, ast.Return) and r.value is not None]
            if not rets:
                continue  # the dispatch stub raises
            for r in rets:
                n += 1
                calls = [norm(c.func) for c in ast.walk(r.value) if isinstance(c, ast.Call)]
                via_table = any(cf in ("self._complement", "self.complement") or cf.endswith(".translate") for cf in calls)
                chk.decide(via_table, "R12.8", key(m, f"MolType.{name}", f"return {norm(r.value)[:70]}"), m.loc(r), "result comes from the complement table", f"`return {norm(r.value)[:100]}` does not go through the complement table: symbols the shortcut does not expect (gap, ambiguity codes) are complemented wrongly and the str/bytes/array forms disagree")
    chk.floor("R12.8", 4, "3 new overloads + old complement")


def r12_9(chk):
    chk.rule("R12.9", "index arrays are typed by the size of the alphabet (get_array_type(len(<alphabet>))), never by the size of the data being encoded: a dtype that grows with the sequence length changes the byte layout the table-driven converters read")
    from ..defuse import derived_names, expr_derives

    n = 0
    for mod in chk.repo.all_modules():
        if "get_array_type(" not in mod.source:
            continue
        for q, fn in mod.all_functions():
            if fn.name == "get_array_type":
                continue
            data = derived_names(fn, {p for p in params_of(fn) if p in ("seq", "data", "seqs", "dna", "sequence")})
            for c in walk_no_nested(fn):
                if isinstance(c, ast.Call) and (call_name(c) or "").split(".")[-1] == "get_array_type" and c.args:
                    n += 1
                    a = c.args[0]
                    bad = expr_derives(a, data)
                    chk.decide(not bad, "R12.9", key(mod, q, f"get_array_type({norm(a)})"), mod.loc(c), f"sized by `{norm(a)}` (an alphabet)", f"`get_array_type({norm(a)})` is sized by the data being encoded: for 256 or more elements the indices become 16-bit and the uint8 table converters (codon -> amino acid) read them two bytes at a time")
    chk.floor("R12.9", 5, "6 call sites on the pinned tree")


def r12_10(chk):
    chk.rule("R12.10", "translation entry points translate the *realised* sequence (str(seq) / array(seq) / bytes(seq), which reverse and complement a minus-strand view): none reads the raw view `<seq>._seq` (its value / array(<seq>._seq) / iteration), whose characters are reversed but not complemented and whose frame is that of the plus strand (same detector as R01.1, applied to the translation family incl. locals bound to sequences)")
    from . import c01

    n = 0
    for rel, q in ENTRY_POINTS:
        if not rel.startswith("core/") or "sequence" not in rel and "alignment" not in rel:
            continue
        m = chk.repo.module(rel)
        fn = m.func(q)
        n += 1
        reads = c01.raw_reads(fn)
        guards = c01.guarded_complement(fn)
        bad = [(node, desc) for node, desc in reads if not (c01._assigned_to(fn, node) in guards and c01._assigned_to(fn, node) is not None)]
        for node, desc in bad:
            chk.violation("R12.10", key(m, q, f"raw view read {norm(node)}"), m.loc(node), f"{desc}: the translation is computed from the raw view instead of the realised sequence; for a reverse-complemented sequence the codons are read from the wrong strand or in the wrong frame (length not a multiple of three)")
        if not bad:
            chk.ok("R12.10", key(m, q, "realised sequence only"), m.loc(fn), f"{len(reads)} raw read(s), all complemented under is_reversed", nontrivial=bool(reads))
    probe = ast.parse("def get_translation(self):\n    seq = self\n    return gc.translate(array(seq._seq)[::-1], rc=True)\n").body[0]
    if not c01.raw_reads(probe):
        raise AnalysisError("R12.10 self-probe failed")
    chk.floor("R12.10", 10, "sequence- and collection-level translation entry points")


TABLE_CLASS_MODULES = ["core/moltype.py", "core/new_moltype.py", "core/genetic_code.py", "core/new_genetic_code.py", "core/alphabet.py", "core/new_alphabet.py"]


def _shared_mutable_state(ci):
    """[(attr, mutation node, method)] for class-level mutable literals that an instance method mutates through self"""
    muts = {}
    for st in ci.node.body:
        if isinstance(st, (ast.Assign, ast.AnnAssign)):
            v = st.value
            if isinstance(v, (ast.Dict, ast.List, ast.Set)) or (isinstance(v, ast.Call) and norm(v.func) in ("dict", "list", "set", "defaultdict", "collections.defaultdict", "OrderedDict")):
                for t in (st.targets if isinstance(st, ast.Assign) else [st.target]):
                    if isinstance(t, ast.Name):
                        muts[t.id] = st
    out = []
    for name, fn in ci.methods.items():
        if not isinstance(fn, ast.FunctionDef) or any(norm(d) in ("classmethod", "staticmethod") for d in fn.decorator_list):
            continue
        rebound = {t.attr for st in ast.walk(fn) if isinstance(st, ast.Assign) for t in st.targets if isinstance(t, ast.Attribute) and norm(t.value) == "self"}
        for n in ast.walk(fn):
            attr = None
            if isinstance(n, ast.Subscript) and isinstance(n.ctx, (ast.Store, ast.Del)) and isinstance(n.value, ast.Attribute) and norm(n.value.value) == "self":
                attr = n.value.attr
            elif isinstance(n, ast.Call) and isinstance(n.func, ast.Attribute) and n.func.attr in ("append", "update", "add", "setdefault", "extend", "pop", "clear", "insert") and isinstance(n.func.value, ast.Attribute) and norm(n.func.value.value) == "self":
                attr = n.func.value.attr
            if attr in muts and attr not in rebound:
                out.append((attr, n, name))
    return out


def r12_11(chk):
    chk.rule("R12.11", "answers cached by one molecular type / genetic code / alphabet are not served to another: no class-level mutable container of these classes is mutated through `self` by an instance method (a dict written as a class attribute is one object shared by DNA, RNA and PROTEIN; a per-instance cache is created in the instance)")
    n = 0
    for rel in TABLE_CLASS_MODULES:
        m = chk.repo.module(rel)
        for cname, ci in m.classes.items():
            n += 1
            hits = _shared_mutable_state(ci)
            seen = set()
            for attr, node, meth in hits:
                if (attr, meth) in seen:
                    continue
                seen.add((attr, meth))
                chk.violation("R12.11", key(m, f"{cname}.{meth}", f"shared class-level cache {attr}"), m.loc(node), f"`{norm(node)[:70]}` writes into `{cname}.{attr}`, a mutable class attribute: every instance (DNA, RNA, PROTEIN ...) shares it, so an answer computed for one molecular type is returned for another (Asn translated as '?' after DNA resolved {{'N'}})")
            if not hits:
                chk.ok("R12.11", key(m, cname, "no shared mutable class state"), m.loc(ci.node), "", nontrivial=False)
    pm = ast.parse("class M:\n    _c = {}\n    def f(self, k):\n        if k not in self._c:\n            self._c[k] = 1\n        return self._c[k]\n")

    class _CI:
        node = pm.body[0]
        methods = {"f": pm.body[0].body[1]}

    if not _shared_mutable_state(_CI):
        raise AnalysisError("R12.11 self-probe failed")
    chk.floor("R12.11", 0, "expected-zero rule with embedded probe")


def r12_12(chk):
    chk.rule("R12.12", "strand-relative framing in the new GeneticCode.translate: `start` and the truncation to a multiple of three are positions on the sequence that is translated; with rc=True that is the reverse complement, whose 5' end is the 3' end of the argument, so the slices by `start` / by the remainder must be chosen under a test of `rc` (the old implementation, and the docstring, translate rc(seq)[start:])")
    m = chk.repo.module("core/new_genetic_code.py")
    fn = m.func("GeneticCode.translate")
    ps = params_of(fn)
    if "rc" not in ps or "start" not in ps:
        raise AnalysisError("new GeneticCode.translate lost its rc/start parameters")
    seqp = [p for p in ps if p != "self"][0]
    slices = [st for st in walk_no_nested(fn) if isinstance(st, ast.Assign) and norm(st.targets[0]) == seqp and isinstance(st.value, ast.Subscript) and norm(st.value.value) == seqp and isinstance(st.value.slice, ast.Slice)]
    if not slices:
        raise AnalysisError("new GeneticCode.translate: no slicing of the sequence found")

    def under_rc(st):
        for i in walk_no_nested(fn):
            if isinstance(i, ast.If) and "rc" in {x.id for x in ast.walk(i.test) if isinstance(x, ast.Name)} and any(x is st for b in (i.body, i.orelse) for s_ in b for x in ast.walk(s_)):
                return True
        return False

    for st in slices:
        chk.decide(under_rc(st), "R12.12", key(m, "GeneticCode.translate", f"`{norm(st)}` chosen by strand"), m.loc(st), "slice selected under a test of rc", f"`{norm(st)}` is applied whatever the strand: with rc=True the offset / truncation is taken at the 5' end of the given strand, which is the 3' end of the strand being translated, so translate(s, start=k, rc=True) != translate(rc(s), start=k) and the minus-strand frames of sixframes() are numbered differently from the old implementation")
    chk.floor("R12.12", 2, "start slice and truncation")


def r12_13(chk):
    chk.rule("R12.13", "the table-driven byte converters fix the element width themselves: an index array handed to array_to_bytes is cast to the alphabet's 1-byte type before tobytes() -- numpy's default integer is 8 bytes wide, and tobytes() of such an array feeds the complement / decoding tables eight bytes per symbol")
    m = chk.repo.module("core/new_alphabet.py")
    ci = m.cls("array_to_bytes")
    fn = ci.methods.get("__call__")
    if not isinstance(fn, ast.FunctionDef):
        raise AnalysisError("array_to_bytes.__call__ not found")
    ps = [p for p in params_of(fn) if p != "self"]
    calls = [c for c in walk_no_nested(fn) if isinstance(c, ast.Call) and isinstance(c.func, ast.Attribute) and c.func.attr == "tobytes"]
    if not calls:
        raise AnalysisError("array_to_bytes.__call__: tobytes() not found")
    for c in calls:
        base = c.func.value
        cast = isinstance(base, ast.Call) and (((call_name(base) or "").split(".")[-1] in ("asarray", "array", "ascontiguousarray") and any(kw.arg == "dtype" for kw in base.keywords)) or (isinstance(base.func, ast.Attribute) and base.func.attr == "astype"))
        raw_param = isinstance(base, ast.Name) and base.id in ps
        chk.decide(cast and not raw_param, "R12.13", key(m, "array_to_bytes.__call__", "element width fixed before tobytes()"), m.loc(c), f"`{norm(c)[:60]}`", f"`{norm(c)}` serialises the caller's array as it is: for int64 indices (numpy's default) every symbol becomes eight bytes and MolType.complement / from_indices return garbage eight times too long")
    chk.floor("R12.13", 1, "one converter")


def r12_14(chk):
    chk.rule("R12.14", "a reading frame on the minus strand is an offset into the REVERSE COMPLEMENT: in select_translatable.main the sequence is cut by the frame offset (and truncated to whole codons) only after the strand has been selected -- no slice of the per-record sequence by a value derived from the frame is followed, in the same iteration, by rc(); otherwise offset and truncation fall on the wrong ends and the returned sequence is in another frame than the one best_frame chose (frame -1 with len % 3 != 0)")
    from ..cfg import build
    from ..defuse import derived_names, expr_derives

    m = chk.repo.module("app/translate.py")
    q = "select_translatable.main"
    fn = m.func(q)
    g = build(fn)
    loops = [lp for lp in walk_no_nested(fn) if isinstance(lp, ast.For) and isinstance(lp.target, ast.Name)]
    if not loops:
        raise AnalysisError(f"{q}: record loop not found")
    sv = loops[0].target.id
    frames = {st.targets[0].id for st in walk_no_nested(fn) if isinstance(st, ast.Assign) and isinstance(st.targets[0], ast.Name) and isinstance(st.value, ast.Call) and "_get_frame" in norm(st.value.func)}
    if not frames:
        raise AnalysisError(f"{q}: the frame variable was not found")
    d = derived_names(fn, set(frames))
    slices = g.nodes_containing(lambda x: isinstance(x, ast.Subscript) and isinstance(x.slice, ast.Slice) and norm(x.value) == sv and any(expr_derives(b, d) for b in (x.slice.lower, x.slice.upper) if b is not None))
    rcs = g.nodes_containing(lambda x: isinstance(x, ast.Call) and isinstance(x.func, ast.Attribute) and x.func.attr == "rc" and norm(x.func.value) == sv)
    heads = g.stmt_nodes(loops[0])
    k = key(m, q, "strand selected before the frame cut")
    if not slices or not rcs:
        raise AnalysisError(f"{q}: frame slice / rc() call not found")
    bad = None
    for sl in slices:
        seen = g.reachable([b for b, kd in sl.succ if kd == "n"], blocked=heads, kinds=("n",))
        for r in rcs:
            if id(r) in seen:
                bad = (sl, r)
    chk.decide(bad is None, "R12.14", k, m.loc(bad[0].ast if bad else slices[0].ast), "rc() is never reached after the frame cut within an iteration", f"`{norm(bad[0].ast)[:60] if bad else ''}` cuts the plus strand by the frame offset and `{norm(bad[1].ast)[:40] if bad else ''}` is applied afterwards: for a minus-strand frame the offset is taken from the wrong end")
    chk.floor("R12.14", 1, "select_translatable.main")


def r12_15(chk):
    chk.rule("R12.15", "positions found in a GAPPED row are alignment columns, not sequence positions: in the alignment-level stop-codon methods (AlignmentI.trim_stop_codons / has_terminal_stop[s]) no frame arithmetic (% 3, // 3) is applied to the position of a regex match over the gapped text -- with a number of gap columns upstream that is not a multiple of 3 an in-frame terminal stop has column % 3 != 0 and would be left in place")
    from ..defuse import derived_names, expr_derives

    m = chk.repo.module("core/alignment.py")
    n = 0
    for q in ("AlignmentI.trim_stop_codons", "AlignmentI.has_terminal_stop"):
        try:
            fn = m.func(q)
        except Exception:
            continue
        n += 1
        matches = {t.id for st in walk_no_nested(fn) for t in ((st.targets if isinstance(st, ast.Assign) else [st.target]) if isinstance(st, (ast.Assign, ast.NamedExpr)) else []) if isinstance(t, ast.Name) and isinstance(st.value, ast.Call) and isinstance(st.value.func, ast.Attribute) and st.value.func.attr in ("search", "match", "finditer")}
        d = derived_names(fn, matches) if matches else set()
        bad = [b for b in walk_no_nested(fn) if isinstance(b, ast.BinOp) and isinstance(b.op, (ast.Mod, ast.FloorDiv)) and isinstance(b.right, ast.Constant) and b.right.value == 3 and (expr_derives(b.left, d) or any(isinstance(x, ast.Name) and x.id in matches for x in ast.walk(b.left)))]
        chk.decide(not bad, "R12.15", key(m, q, "no frame arithmetic on gapped match positions"), m.loc(bad[0] if bad else fn), f"{len(matches)} match object(s), none used in % 3 / // 3", f"`{norm(bad[0]) if bad else ''}` takes the frame of a column of the gapped row: ATG-CCCTGA-- has its in-frame terminal stop at column 7, so trim_stop_codons() leaves it in place while Sequence.trim_stop_codon removes it")
    chk.floor("R12.15", 1, "AlignmentI.trim_stop_codons")


DEGAPPERS = {"parse_out_gaps", "degap"}


def r12_16(chk):
    chk.rule("R12.16", "the frame of a sequence's end is counted in residues: in the sequence-level stop-codon methods (has_terminal_stop / trim_stop_codon, old and new type) the text whose length is taken modulo 3 and whose last three characters are looked up comes from the degapping step (parse_out_gaps() / degap()) -- trimming only the terminal gaps (rstrip) leaves leading and internal gaps in the count, so '--ATGCCCTAA' or 'ATG-CCATGA' is judged out of frame and keeps its stop")
    from ..defuse import derived_names, expr_derives

    n = 0
    for rel in ("core/sequence.py", "core/new_sequence.py"):
        m = chk.repo.module(rel)
        for meth in ("has_terminal_stop", "trim_stop_codon"):
            q = f"NucleicAcidSequenceMixin.{meth}"
            try:
                fn = m.func(q)
            except Exception:
                continue
            mods = [b for b in walk_no_nested(fn) if isinstance(b, ast.BinOp) and isinstance(b.op, ast.Mod) and isinstance(b.right, ast.Constant) and b.right.value == 3 and isinstance(b.left, ast.Call) and norm(b.left.func) == "len" and b.left.args and isinstance(b.left.args[0], ast.Name)]
            if not mods:
                continue
            degapped = set()
            for st in walk_no_nested(fn):
                if isinstance(st, ast.Assign) and any(isinstance(c, ast.Call) and isinstance(c.func, ast.Attribute) and c.func.attr in DEGAPPERS for c in ast.walk(st.value)):
                    for t in st.targets:
                        for x in ast.walk(t):
                            if isinstance(x, ast.Name):
                                degapped.add(x.id)
            d = derived_names(fn, degapped) if degapped else set()
            for b in mods:
                n += 1
                v = b.left.args[0].id
                defs = [st for st in walk_no_nested(fn) if isinstance(st, ast.Assign) and any(isinstance(x, ast.Name) and x.id == v for t in st.targets for x in ast.walk(t))]
                okd = v in degapped or (bool(defs) and all(expr_derives(st.value, d) or any(isinstance(c, ast.Call) and isinstance(c.func, ast.Attribute) and c.func.attr in DEGAPPERS for c in ast.walk(st.value)) for st in defs))
                chk.decide(okd, "R12.16", key(m, q, f"len({v}) % 3 counts residues"), m.loc(b), f"`{v}` comes from the degapping step", f"`{norm(b)}` is taken of `{v}`, which is not the degapped sequence ({'; '.join(norm(st)[:60] for st in defs) or 'no definition'}): gaps before the end are counted as residues, so a gapped sequence whose stop is in frame is reported as having none")
    chk.floor("R12.16", 2, "has_terminal_stop of both sequence types")


def r12_17(chk):
    chk.rule("R12.17", "stepping through the codons of a frame reaches the last complete codon: a loop `for i in range(start, len(x) - K, 3)` over x[i:i+3] has K <= 2 (K = 2 stops exactly after the last complete codon); K >= 3 never looks at the codon that ends flush with the sequence -- the position of a terminal stop")
    n = 0
    for rel in ("core/genetic_code.py", "core/new_genetic_code.py", "core/sequence.py", "core/new_sequence.py", "core/alignment.py", "core/new_alignment.py", "app/translate.py"):
        m = chk.repo.module(rel)
        for q, fn in m.all_functions():
            for c in walk_no_nested(fn):
                if not (isinstance(c, ast.Call) and norm(c.func) == "range" and len(c.args) == 3 and isinstance(c.args[2], ast.Constant) and c.args[2].value == 3):
                    continue
                stop = c.args[1]
                if not (isinstance(stop, ast.BinOp) and isinstance(stop.op, ast.Sub) and isinstance(stop.left, ast.Call) and norm(stop.left.func) == "len" and isinstance(stop.right, ast.Constant) and isinstance(stop.right.value, int)):
                    if isinstance(stop, ast.Call) and norm(stop.func) == "len":
                        n += 1
                        chk.ok("R12.17", key(m, q, f"codon loop {norm(c)[:40]}"), m.loc(c), "runs to len(x): the last (possibly short) slice is included")
                    continue
                n += 1
                kk = stop.right.value
                chk.decide(kk <= 2, "R12.17", key(m, q, f"codon loop {norm(c)[:40]}"), m.loc(c), f"stops at len - {kk}: the last complete codon is visited", f"`{norm(c)}` stops before the codon that ends flush with the sequence: get_stop_indices('ATGCCCGGGTAA') finds no stop although translate gives MPG*")
    chk.floor("R12.17", 2, "the codon loops of GeneticCode.translate and of the sequence classes")


def r12_18(chk):
    chk.rule("R12.18", "get_stop_indices looks at every codon of the requested frame: it does not take the hits of a non-overlapping regex scan over all frames and keep those whose index is in frame (`finditer` + `index % 3`) -- a stop of another frame that overlaps an in-frame stop (TAG at 1 hides AGA at 2 in code 2) consumes the characters, so the in-frame stop is never reported although translate() gives '*' there")
    m = chk.repo.module("core/genetic_code.py")
    q = "GeneticCode.get_stop_indices"
    fn = m.func(q)
    scans = [c for c in walk_no_nested(fn) if isinstance(c, ast.Call) and isinstance(c.func, ast.Attribute) and c.func.attr in ("finditer", "findall", "search", "split")]
    framed = [b for b in walk_no_nested(fn) if isinstance(b, ast.BinOp) and isinstance(b.op, ast.Mod) and isinstance(b.right, ast.Constant) and b.right.value == 3]
    chk.decide(not (scans and framed), "R12.18", key(m, q, "every codon of the frame is examined"), m.loc(scans[0] if scans else fn), "no regex scan filtered by index % 3", f"`{norm(scans[0])[:50] if scans else ''}` finds non-overlapping hits in all frames and `{norm(framed[0]) if framed else ''}` keeps the in-frame ones: get_code(2).get_stop_indices('CTAGAT', start=2) is [] although codon 2..5 is AGA, a stop")
    chk.floor("R12.18", 1, "get_stop_indices")


SEQ_LEVEL = {"trim_stop_codons": "trim_stop_codon", "get_translation": "get_translation", "has_terminal_stop": "has_terminal_stop"}


def r12_19(chk):
    chk.rule("R12.19", "an option means the same at every entry point: a collection / alignment method that delegates to the per-sequence method of the same purpose (trim_stop_codons -> trim_stop_codon, get_translation -> get_translation, has_terminal_stop -> has_terminal_stop) hands every option the two have in common to it unchanged -- dropped, the per-sequence default applies (strict=False: a non-modulo-3 sequence after one with a stop is silently accepted); hard-wired, the caller's choice is ignored (incomplete_ok=True: '???' instead of an error)")
    seq_params = {}
    seq_order = {}
    for rel in ("core/sequence.py", "core/new_sequence.py"):
        sm = chk.repo.module(rel)
        for q, fn in sm.all_functions():
            nm = q.split(".")[-1]
            if nm in SEQ_LEVEL.values():
                seq_params.setdefault((rel.startswith("core/new"), nm), set()).update(params_of(fn))
                seq_order.setdefault((rel.startswith("core/new"), nm), [p_ for p_ in params_of(fn) if p_ != "self"])
    n = 0
    for rel in ("core/alignment.py", "core/new_alignment.py"):
        m = chk.repo.module(rel)
        new = rel.startswith("core/new")
        for q, fn in m.all_functions():
            nm = q.split(".")[-1]
            if nm not in SEQ_LEVEL or "." not in q:
                continue
            target = SEQ_LEVEL[nm]
            common = (set(params_of(fn)) - {"self", "kwargs"}) & seq_params.get((new, target), set())
            calls = [c for c in walk_no_nested(fn) if isinstance(c, ast.Call) and isinstance(c.func, ast.Attribute) and c.func.attr == target and not (isinstance(c.func.value, ast.Name) and c.func.value.id in ("self", "super")) and "super()" not in norm(c.func.value)]
            for c in calls:
                passed = {}
                for kw in c.keywords:
                    if kw.arg:
                        passed[kw.arg] = kw.value
                # positional arguments map onto the per-sequence method's parameter order
                for pos, a_ in enumerate(c.args):
                    order = seq_order.get((new, target), [])
                    if pos < len(order):
                        passed.setdefault(order[pos], a_)
                for p_ in sorted(common):
                    n += 1
                    v = passed.get(p_)
                    okp = isinstance(v, ast.Name) and v.id == p_
                    why = "not passed: the per-sequence default applies" if v is None else f"passed as `{norm(v)}`, not the caller's value"
                    chk.decide(okp, "R12.19", key(m, q, f"option {p_} forwarded to {target}"), m.loc(c), f"{p_}={p_}", f"`{norm(c)[:70]}`: `{p_}` is {why}")
    chk.floor("R12.19", 6, "shared options of the delegating collection methods")


def r12_20(chk):
    chk.rule("R12.20", "a codon means the same in every per-codon question of a genetic code: in both GeneticCode classes a method that takes a `codon` either asks the normalising lookup (`self[codon]`, which upper-cases and reads U as T) or normalises it itself the same way (.upper() and .replace('U', 'T')) before any membership test or table lookup -- a raw `codon in <table>` answers False for the RNA / lower-case spelling of a stop (is_stop('UAA') False while gc['UAA'] == '*'), so terminal stops of RNA sequences are neither detected nor trimmed")
    n = 0
    for rel in ("core/genetic_code.py", "core/new_genetic_code.py"):
        m = chk.repo.module(rel)
        ci = m.cls("GeneticCode")
        for name, fn in ci.methods.items():
            if not isinstance(fn, ast.FunctionDef) or name == "__getitem__":
                continue
            ps = params_of(fn)
            if "codon" not in ps:
                continue
            n += 1
            q = f"GeneticCode.{name}"
            k = key(m, q, "codon normalised before it is looked up")
            # names carrying the codon, and whether they were normalised
            state = {"codon": set()}
            for st in walk_no_nested(fn):
                if isinstance(st, ast.Assign) and len(st.targets) == 1 and isinstance(st.targets[0], ast.Name):
                    srcs = [x.id for x in ast.walk(st.value) if isinstance(x, ast.Name) and x.id in state]
                    if srcs:
                        ops = set()
                        for s0 in srcs:
                            ops |= state[s0]
                        for c in ast.walk(st.value):
                            if isinstance(c, ast.Call) and isinstance(c.func, ast.Attribute):
                                if c.func.attr == "upper":
                                    ops.add("upper")
                                if c.func.attr == "replace" and len(c.args) == 2 and [getattr(a, "value", None) for a in c.args] == ["U", "T"]:
                                    ops.add("u2t")
                        state[st.targets[0].id] = ops
            bad = []
            for x in walk_no_nested(fn):
                uses = []
                if isinstance(x, ast.Compare) and len(x.ops) == 1 and isinstance(x.ops[0], (ast.In, ast.NotIn)):
                    uses.append(x.left)
                if isinstance(x, ast.Subscript) and norm(x.value) != "self":
                    uses.append(x.slice)
                if isinstance(x, ast.Call) and isinstance(x.func, ast.Attribute) and x.func.attr == "get" and x.args and norm(x.func.value) != "self":
                    uses.append(x.args[0])
                for u in uses:
                    ops = set()
                    carries = False
                    for y in ast.walk(u):
                        if isinstance(y, ast.Name) and y.id in state:
                            carries = True
                            ops |= state[y.id]
                        if isinstance(y, ast.Call) and isinstance(y.func, ast.Attribute):
                            if y.func.attr == "upper":
                                ops.add("upper")
                            if y.func.attr == "replace" and len(y.args) == 2 and [getattr(a, "value", None) for a in y.args] == ["U", "T"]:
                                ops.add("u2t")
                    if carries and not {"upper", "u2t"} <= ops:
                        bad.append(x)
            chk.decide(not bad, "R12.20", k, m.loc(bad[0] if bad else fn), "asks self[codon] or normalises (upper, U->T) first", f"`{norm(bad[0])[:70] if bad else ''}` looks the codon up as spelt: the RNA or lower-case spelling of a codon gets another answer than `self[codon]` gives (the sibling class and the translation itself read U as T)")
    chk.floor("R12.20", 3, "is_stop x2, is_start")


def r12_21(chk):
    chk.rule("R12.21", "what trim_stop_codon removes is the codon it detected: in both sequence modules the gapped branch builds its terminal-stop pattern from the codon that was tested with gc.is_stop(...) (the sequence's own spelling), not from the genetic code's table gc['*'] -- the table is spelt in DNA, is_stop reads U as T, so for a gapped RNA sequence the stop is detected (has_terminal_stop() True) and nothing is removed")
    n = 0
    for rel, q in (("core/sequence.py", "NucleicAcidSequence.trim_stop_codon"), ("core/new_sequence.py", "NucleicAcidSequenceMixin.trim_stop_codon"), ("core/alignment.py", "AlignmentI.trim_stop_codons")):
        m = chk.repo.module(rel)
        fn = m.func(q)
        tested = [norm(c.args[0]) for c in walk_no_nested(fn) if isinstance(c, ast.Call) and isinstance(c.func, ast.Attribute) and c.func.attr == "is_stop" and c.args]
        pats = [st for st in walk_no_nested(fn) if isinstance(st, ast.Assign) and isinstance(st.targets[0], ast.Name) and isinstance(st.value, ast.JoinedStr)]
        comps = [c for c in walk_no_nested(fn) if isinstance(c, ast.Call) and norm(c.func) in ("re.compile", "re.sub", "re.search")]
        k = key(m, q, "removal pattern spelt like the detected codon")
        if not comps:
            chk.ok("R12.21", k, m.loc(fn), "no regular expression in the removal", nontrivial=False)
            continue
        n += 1
        src = pats[0].value if pats else comps[0].args[0]
        # the pattern's ingredients, following locals back to their definitions
        parts = [src]
        names = set()
        grew = True
        while grew:
            grew = False
            for prt in list(parts):
                for x in ast.walk(prt):
                    if isinstance(x, ast.Name) and x.id not in names:
                        names.add(x.id)
                        for st in walk_no_nested(fn):
                            if isinstance(st, ast.Assign) and any(isinstance(t, ast.Name) and t.id == x.id for t in st.targets) and st.value not in parts:
                                parts.append(st.value)
                                grew = True
        from_table = [x for prt in parts for x in ast.walk(prt) if isinstance(x, ast.Subscript) and isinstance(x.slice, ast.Constant) and x.slice.value == "*"]
        from_tested = bool(tested) and any(t in names for t in tested)
        if from_table and not from_tested:
            # tolerated when the table's spellings are converted to the sequence's alphabet first
            conv = any(isinstance(c, ast.Call) and isinstance(c.func, ast.Attribute) and c.func.attr == "replace" and [getattr(a, "value", None) for a in c.args] == ["T", "U"] for c in ast.walk(fn))
            chk.decide(conv, "R12.21", k, m.loc(src), "table spellings converted T->U for RNA", f"the pattern is built from `{norm(from_table[0])}` (DNA spellings) while the stop was detected with {'is_stop(' + tested[0] + ')' if tested else 'has_terminal_stop()'} (which reads U as T): RNA 'AUGCCCUAA---' keeps its stop, and translating it raises 'stop codon in translation'")
        else:
            chk.decide(from_tested, "R12.21", k, m.loc(src), f"pattern built from `{tested[0] if tested else ''}`", "the removal pattern derives neither from the tested codon nor from the code's table")
    chk.floor("R12.21", 3, "old and new trim_stop_codon, alignment-level trim_stop_codons")


def r12_22(chk):
    chk.rule("R12.22", "the old-type translation accepts RNA: NucleicAcidSequence.get_translation resolves every codon against the genetic code's codon alphabet, which is spelt in DNA -- so the text it cuts into codons is first converted U->T (or taken from to_dna()); without that every RNA codon containing U is 'unresolvable' and no old-type RNA sequence, collection or alignment can be translated, while the new-type objects translate the same text")
    m = chk.repo.module("core/sequence.py")
    q = "NucleicAcidSequence.get_translation"
    fn = m.func(q)
    res = [c for c in walk_no_nested(fn) if isinstance(c, ast.Call) and isinstance(c.func, ast.Attribute) and c.func.attr == "resolve_ambiguity" and any(kw.arg == "alphabet" for kw in c.keywords)]
    k = key(m, q, "codons spelt in DNA before they are resolved")
    if not res:
        chk.ok("R12.22", k, m.loc(fn), "codons are not resolved against a codon alphabet here", nontrivial=False)
        chk.floor("R12.22", 0, "")
        return
    conv = [c for c in walk_no_nested(fn) if isinstance(c, ast.Call) and isinstance(c.func, ast.Attribute) and ((c.func.attr == "replace" and [getattr(a, "value", None) for a in c.args] == ["U", "T"]) or c.func.attr == "to_dna")]
    chk.decide(bool(conv), "R12.22", k, m.loc(conv[0] if conv else res[0]), f"`{norm(conv[0])[:40] if conv else ''}` before the codons are resolved", "codons are resolved against the code's DNA-spelt codon alphabet as they are: RNA.make_seq('AUGCCC').get_translation() raises AlphabetError(\"unresolvable codon 'AUG'\") -- the new-type RNA sequence gives 'MP'")
    chk.floor("R12.22", 1, "old get_translation")


def run(chk):
    r12_22(chk)
    r12_21(chk)
    r12_20(chk)
    r12_19(chk)
    r12_18(chk)
    r12_17(chk)
    r12_16(chk)
    # stop-codon trimming of a new-type collection rebuilds its store: the orientation coherence rule of C03 (R03.17)
    # is what keeps 'terminal stops are trimmed as requested' true for a reverse complemented collection
    from . import c03

    c03.r03_17(chk)
    r12_15(chk)
    r12_14(chk)
    r12_13(chk)
    r12_12(chk)
    r12_11(chk)
    r12_10(chk)
    r12_9(chk)
    r12_4b(chk)
    r12_8(chk)
    r12_1(chk)
    r12_2(chk)
    r12_3(chk)
    r12_4(chk)
    r12_5(chk)
    r12_6(chk)
    r12_7(chk)
    chk.assume("NCBI translation tables 1-33 as embedded (codon-keyed deviations from the standard code)")
    chk.assume("k-mer alphabets enumerate words as the product of the monomers in order (new_alphabet.get_kmer_alphabet is not analysed)")
